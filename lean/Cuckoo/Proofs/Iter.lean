import Cuckoo.Proofs.Resize
import Cuckoo.Proofs.SpecMap
/-!
Helper lemmas about the `locked_table` iterator functions (flat-index view) — never property statements.
-/
namespace Cuckoo.Model
open Cuckoo
variable {κ ν : Type}

/-- cell with flat index `i` is occupied -/
def Store.occI (st : Store κ ν) (i : Nat) : Bool := (st.cells.getD i none).isSome

/-- position of a flat index -/
def posOf (S i : Nat) : Pos := (i / S, i % S)

/-- occupied flat indices in `[i, i+k)`, increasing -/
def Store.occUp (st : Store κ ν) : Nat → Nat → List Nat
  | _, 0 => []
  | i, k + 1 => if st.occI i then i :: st.occUp (i + 1) k else st.occUp (i + 1) k

/-- occupied flat indices in `[0, i)`, decreasing -/
def Store.occDown (st : Store κ ν) : Nat → List Nat
  | 0 => []
  | j + 1 => if st.occI j then j :: st.occDown j else st.occDown j

theorem Store.occUp_eq (st : Store κ ν) (i k : Nat) :
    st.occUp i k = (List.range' i k).filter (fun j => st.occI j) := by
  induction k generalizing i with
  | zero => simp [Store.occUp]
  | succ k ih =>
    rw [Store.occUp, List.range'_succ, List.filter_cons, ih]

theorem Store.occDown_eq (st : Store κ ν) (i : Nat) :
    st.occDown i = ((List.range i).filter (fun j => st.occI j)).reverse := by
  induction i with
  | zero => simp [Store.occDown]
  | succ j ih =>
    rw [Store.occDown, List.range_succ, List.filter_append, List.reverse_append, ih]
    by_cases h : st.occI j <;> simp [h]

/-! ### arithmetic of positions -/

theorem flat_posOf (S i : Nat) : Store.flat S (posOf S i) = i := by
  unfold Store.flat posOf
  simp only
  have := Nat.div_add_mod i S
  rw [Nat.mul_comm] at this
  exact this

theorem posOf_flat {S b s : Nat} (hs : s < S) : posOf S (b * S + s) = (b, s) := by
  have hS : 0 < S := by omega
  unfold posOf
  have h1 : (b * S + s) / S = b := by
    rw [Nat.mul_comm, Nat.mul_add_div hS, Nat.div_eq_of_lt hs]; simp
  have h2 : (b * S + s) % S = s := by
    rw [Nat.mul_comm, Nat.mul_add_mod, Nat.mod_eq_of_lt hs]
  rw [h1, h2]

theorem posOf_inj {S i j : Nat} (h : posOf S i = posOf S j) : i = j := by
  rw [← flat_posOf S i, ← flat_posOf S j, h]

theorem posOf_ne_end {S : Nat} (st : Store κ ν) {i : Nat} (hi : i < 2 ^ st.hp * S) : posOf S i ≠ st.endPos := by
  intro h
  unfold posOf Store.endPos at h
  have h1 : i / S = 2 ^ st.hp := congrArg Prod.fst h
  have h2 : i / S < 2 ^ st.hp := Nat.div_lt_of_lt_mul (by rw [Nat.mul_comm]; exact hi)
  omega

theorem flat_endPos (S : Nat) (st : Store κ ν) : Store.flat S st.endPos = 2 ^ st.hp * S := by
  simp [Store.flat, Store.endPos]

theorem Store.get_posOf {S : Nat} (st : Store κ ν) (hS : 0 < S) (i : Nat) :
    st.get S (posOf S i).1 (posOf S i).2 = st.cells.getD i none := by
  unfold Store.get posOf
  simp only
  rw [if_pos (Nat.mod_lt _ hS)]
  have := Nat.div_add_mod i S
  rw [Nat.mul_comm] at this
  rw [this]

theorem Store.get_eq_flat {S : Nat} (st : Store κ ν) {b s : Nat} (hs : s < S) :
    st.get S b s = st.cells.getD (b * S + s) none := by
  simp [Store.get, hs]

/-! ### `firstFrom` -/

theorem Store.firstFrom_ge (S : Nat) (st : Store κ ν) (i : Nat) (hi : 2 ^ st.hp * S ≤ i) :
    st.firstFrom S i = st.endPos := by
  unfold Store.firstFrom
  simp only
  generalize 2 ^ st.hp * S + 1 - i = fuel
  cases fuel with
  | zero => rw [Store.firstFrom.go]
  | succ f => rw [Store.firstFrom.go]; simp [hi]

theorem Store.firstFrom_occ (S : Nat) (st : Store κ ν) (i : Nat) (hi : i < 2 ^ st.hp * S) (ho : st.occI i = true) :
    st.firstFrom S i = posOf S i := by
  unfold Store.firstFrom
  simp only
  have : 2 ^ st.hp * S + 1 - i = (2 ^ st.hp * S - i) + 1 := by omega
  rw [this, Store.firstFrom.go]
  unfold Store.occI at ho
  rw [if_neg (Nat.not_le.mpr hi), if_pos ho]
  rfl

theorem Store.firstFrom_step (S : Nat) (st : Store κ ν) (i : Nat) (hi : i < 2 ^ st.hp * S) (ho : st.occI i = false) :
    st.firstFrom S i = st.firstFrom S (i + 1) := by
  unfold Store.firstFrom
  simp only
  have : 2 ^ st.hp * S + 1 - i = (2 ^ st.hp * S + 1 - (i + 1)) + 1 := by omega
  rw [this, Store.firstFrom.go]
  unfold Store.occI at ho
  rw [if_neg (Nat.not_le.mpr hi), if_neg (by rw [ho]; exact Bool.false_ne_true)]

/-- complete description of `firstFrom` -/
theorem Store.firstFrom_spec (S : Nat) (st : Store κ ν) (i : Nat) :
    (st.firstFrom S i = st.endPos ∧ ∀ j, i ≤ j → j < 2 ^ st.hp * S → st.occI j = false) ∨
    (∃ j, i ≤ j ∧ j < 2 ^ st.hp * S ∧ st.occI j = true ∧ (∀ j', i ≤ j' → j' < j → st.occI j' = false) ∧
      st.firstFrom S i = posOf S j) := by
  generalize hd : 2 ^ st.hp * S - i = d
  induction d generalizing i with
  | zero =>
    left
    exact ⟨st.firstFrom_ge S i (by omega), fun j h1 h2 => by omega⟩
  | succ d ih =>
    have hi : i < 2 ^ st.hp * S := by omega
    by_cases ho : st.occI i = true
    · right
      exact ⟨i, Nat.le_refl _, hi, ho, fun j' h1 h2 => by omega, st.firstFrom_occ S i hi ho⟩
    · have ho' : st.occI i = false := by simpa using ho
      rw [st.firstFrom_step S i hi ho']
      rcases ih (i + 1) (by omega) with ⟨h1, h2⟩ | ⟨j, h1, h2, h3, h4, h5⟩
      · left
        refine ⟨h1, fun j hj1 hj2 => ?_⟩
        by_cases hji : j = i
        · subst hji; exact ho'
        · exact h2 j (by omega) hj2
      · right
        refine ⟨j, by omega, h2, h3, fun j' hj1 hj2 => ?_, h5⟩
        by_cases hji : j' = i
        · subst hji; exact ho'
        · exact h4 j' (by omega) hj2

theorem Store.itBegin_eq (S : Nat) (st : Store κ ν) : st.itBegin S = st.firstFrom S 0 := by
  unfold Store.itBegin Store.itAt
  have : ((0, 0) : Pos) ≠ st.endPos := by
    intro h
    have h1 : 0 = 2 ^ st.hp := congrArg Prod.fst h
    have := Nat.two_pow_pos st.hp
    omega
  rw [if_neg this]
  simp [Store.flat]

theorem Store.itNext_posOf (S : Nat) (st : Store κ ν) (i : Nat) : st.itNext S (posOf S i) = st.firstFrom S (i + 1) := by
  unfold Store.itNext
  rw [flat_posOf]

/-- `itAt` stays on an occupied cell -/
theorem Store.itAt_occ {S : Nat} (st : Store κ ν) (hsz : st.cells.size = 2 ^ st.hp * S) {b s : Nat} {sl : Slot κ ν}
    (h : st.get S b s = some sl) : st.itAt S (b, s) = (b, s) := by
  have ⟨hs, hlt⟩ := Store.get_some_lt h
  unfold Store.itAt
  split
  · rfl
  · have ho : st.occI (b * S + s) = true := by
      unfold Store.occI
      rw [← st.get_eq_flat hs, h]; rfl
    show st.firstFrom S (b * S + s) = (b, s)
    rw [st.firstFrom_occ S _ (by omega) ho, posOf_flat hs]

/-! ### forward traversal -/

theorem Store.traverse_go_end (S : Nat) (st : Store κ ν) (fuel : Nat) (acc : List Pos) :
    Store.traverse.go S st st.endPos fuel acc = acc.reverse := by
  cases fuel with
  | zero => rw [Store.traverse.go]
  | succ f => rw [Store.traverse.go]; simp

theorem Store.traverse_go (S : Nat) (st : Store κ ν) (k i fuel : Nat) (acc : List Pos)
    (hik : i + k = 2 ^ st.hp * S ∨ (2 ^ st.hp * S ≤ i ∧ k = 0)) (hf : k < fuel) :
    Store.traverse.go S st (st.firstFrom S i) fuel acc = acc.reverse ++ (st.occUp i k).map (posOf S) := by
  induction k generalizing i fuel acc with
  | zero =>
    rw [st.firstFrom_ge S i (by omega), Store.traverse_go_end]
    simp [Store.occUp]
  | succ k ih =>
    have hi : i < 2 ^ st.hp * S := by omega
    by_cases ho : st.occI i = true
    · rw [st.firstFrom_occ S i hi ho]
      obtain ⟨f, rfl⟩ : ∃ f, fuel = f + 1 := ⟨fuel - 1, by omega⟩
      rw [Store.traverse.go, if_neg (posOf_ne_end st hi), Store.itNext_posOf,
        ih (i + 1) f _ (by omega) (by omega)]
      simp [Store.occUp, ho]
    · have ho' : st.occI i = false := by simpa using ho
      rw [st.firstFrom_step S i hi ho', ih (i + 1) fuel acc (by omega) (by omega)]
      simp [Store.occUp, ho']

theorem Store.traverse_eq (S : Nat) (st : Store κ ν) (hsz : st.cells.size = 2 ^ st.hp * S) :
    st.traverse S = ((List.range (2 ^ st.hp * S)).filter (fun i => st.occI i)).map (posOf S) := by
  unfold Store.traverse
  rw [Store.itBegin_eq, st.traverse_go S (2 ^ st.hp * S) 0 _ [] (by omega) (by omega), Store.occUp_eq,
    List.range_eq_range']
  simp

/-! ### backward traversal -/

theorem Store.lastBefore_occDown (S : Nat) (st : Store κ ν) (i : Nat) :
    ((∀ j, j < i → st.occI j = false) ∧ st.occDown i = []) ∨
    (∃ j, j < i ∧ st.occI j = true ∧ Store.lastBefore.go S st i = posOf S j ∧ st.occDown i = j :: st.occDown j) := by
  induction i with
  | zero => left; exact ⟨fun j h => by omega, rfl⟩
  | succ i ih =>
    by_cases ho : st.occI i = true
    · right
      refine ⟨i, by omega, ho, ?_, ?_⟩
      · rw [Store.lastBefore.go]
        unfold Store.occI at ho
        rw [if_pos ho]
        rfl
      · simp [Store.occDown, ho]
    · have ho' : st.occI i = false := by simpa using ho
      have hgo : Store.lastBefore.go S st (i + 1) = Store.lastBefore.go S st i := by
        rw [Store.lastBefore.go]
        unfold Store.occI at ho'
        rw [if_neg (by rw [ho']; exact Bool.false_ne_true)]
      have hdn : st.occDown (i + 1) = st.occDown i := by simp [Store.occDown, ho']
      rcases ih with ⟨h1, h2⟩ | ⟨j, h1, h2, h3, h4⟩
      · left
        refine ⟨fun j hj => ?_, by rw [hdn, h2]⟩
        by_cases hji : j = i
        · subst hji; exact ho'
        · exact h1 j (by omega)
      · right
        exact ⟨j, by omega, h2, by rw [hgo, h3], by rw [hdn, h4]⟩

/-- an iterator state: `end()` (flat index `n`) or the position of an occupied index -/
def Store.AtIdx (S : Nat) (st : Store κ ν) (p : Pos) (i : Nat) : Prop :=
  (p = st.endPos ∧ i = 2 ^ st.hp * S) ∨ (p = posOf S i ∧ i < 2 ^ st.hp * S ∧ st.occI i = true)

theorem Store.AtIdx.flat {S : Nat} {st : Store κ ν} {p : Pos} {i : Nat} (h : st.AtIdx S p i) : Store.flat S p = i := by
  rcases h with ⟨rfl, rfl⟩ | ⟨rfl, _, _⟩
  · exact flat_endPos S st
  · exact flat_posOf S i

theorem Store.AtIdx.eq_begin_iff {S : Nat} {st : Store κ ν} {p : Pos} {i : Nat} (h : st.AtIdx S p i) :
    p = st.firstFrom S 0 ↔ ∀ j, j < i → st.occI j = false := by
  rcases h with ⟨rfl, rfl⟩ | ⟨rfl, hi, ho⟩
  · rcases st.firstFrom_spec S 0 with ⟨h1, h2⟩ | ⟨j, _, h2, h3, _, h5⟩
    · rw [h1]; exact ⟨fun _ j hj => h2 j (Nat.zero_le _) hj, fun _ => rfl⟩
    · rw [h5]
      constructor
      · intro h; exact absurd h.symm (posOf_ne_end st h2)
      · intro h; rw [h j h2] at h3; cases h3
  · rcases st.firstFrom_spec S 0 with ⟨h1, h2⟩ | ⟨j, _, h2, h3, h4, h5⟩
    · rw [h2 i (Nat.zero_le _) hi] at ho; cases ho
    · rw [h5]
      constructor
      · intro h
        have := posOf_inj h
        subst this
        exact fun j' hj' => h4 j' (Nat.zero_le _) hj'
      · intro h
        have : i = j := by
          apply Nat.le_antisymm
          · apply Nat.le_of_not_lt
            intro hlt
            rw [h j hlt] at h3; cases h3
          · apply Nat.le_of_not_lt
            intro hlt
            rw [h4 i (Nat.zero_le _) hlt] at ho; cases ho
        rw [this]

theorem Store.traverseBack_go (S : Nat) (st : Store κ ν) (i : Nat) (p : Pos) (fuel : Nat) (acc : List Pos)
    (hp : st.AtIdx S p i) (hf : i < fuel) :
    Store.traverseBack.go S st (st.firstFrom S 0) p fuel acc = acc.reverse ++ (st.occDown i).map (posOf S) := by
  induction i using Nat.strongRecOn generalizing p fuel acc with
  | ind i ih =>
    obtain ⟨f, rfl⟩ : ∃ f, fuel = f + 1 := ⟨fuel - 1, by omega⟩
    have hle : i ≤ 2 ^ st.hp * S := by
      rcases hp with ⟨_, h⟩ | ⟨_, h, _⟩ <;> omega
    rw [Store.traverseBack.go]
    rcases st.lastBefore_occDown S i with ⟨h1, h2⟩ | ⟨j, h1, h2, h3, h4⟩
    · rw [if_pos (hp.eq_begin_iff.mpr h1), h2]; simp
    · have hne : p ≠ st.firstFrom S 0 := by
        intro h
        rw [hp.eq_begin_iff.mp h j h1] at h2; cases h2
      rw [if_neg hne]
      simp only
      have hq : st.itPrev S p = posOf S j := by
        unfold Store.itPrev Store.lastBefore
        rw [hp.flat, h3]
      rw [hq, ih j h1 (posOf S j) f _ (Or.inr ⟨rfl, by omega, h2⟩) (by omega), h4]
      simp

theorem Store.traverseBack_eq (S : Nat) (st : Store κ ν) (hsz : st.cells.size = 2 ^ st.hp * S) :
    st.traverseBack S = (((List.range (2 ^ st.hp * S)).filter (fun i => st.occI i)).map (posOf S)).reverse := by
  unfold Store.traverseBack
  simp only
  rw [Store.itBegin_eq, st.traverseBack_go S (2 ^ st.hp * S) st.endPos _ [] (Or.inl ⟨rfl, rfl⟩) (by omega),
    Store.occDown_eq]
  simp

/-! ### membership -/

theorem Store.mem_traverse (S : Nat) (st : Store κ ν) (hS : 0 < S) (hsz : st.cells.size = 2 ^ st.hp * S) (b s : Nat) :
    (b, s) ∈ st.traverse S ↔ ∃ sl, st.get S b s = some sl := by
  rw [st.traverse_eq S hsz]
  simp only [List.mem_map, List.mem_filter, List.mem_range]
  constructor
  · rintro ⟨i, ⟨hi, ho⟩, hpos⟩
    have hg := st.get_posOf hS i
    rw [hpos] at hg
    simp only at hg
    rw [hg]
    unfold Store.occI at ho
    exact Option.isSome_iff_exists.mp ho
  · rintro ⟨sl, h⟩
    have ⟨hs, hlt⟩ := Store.get_some_lt h
    refine ⟨b * S + s, ⟨by omega, ?_⟩, posOf_flat hs⟩
    unfold Store.occI
    rw [← st.get_eq_flat hs, h]; rfl

theorem Store.traverse_nodup' (S : Nat) (st : Store κ ν) (hsz : st.cells.size = 2 ^ st.hp * S) :
    (st.traverse S).Nodup := by
  rw [st.traverse_eq S hsz]
  have h1 : ((List.range (2 ^ st.hp * S)).filter (fun i => st.occI i)).Nodup :=
    List.Nodup.sublist List.filter_sublist List.nodup_range
  rw [List.nodup_iff_pairwise_ne] at h1 ⊢
  exact List.Pairwise.map _ (fun a b hab h => hab (posOf_inj h)) h1

theorem Store.begin_eq_end_iff (S : Nat) (st : Store κ ν) (hS : 0 < S) (hsz : st.cells.size = 2 ^ st.hp * S) :
    st.itBegin S = st.endPos ↔ ∀ b s, st.get S b s = none := by
  rw [Store.itBegin_eq]
  constructor
  · intro h b s
    rcases st.firstFrom_spec S 0 with ⟨_, h2⟩ | ⟨j, _, h2, _, _, h5⟩
    · cases hg : st.get S b s with
      | none => rfl
      | some sl =>
        have ⟨hs, hlt⟩ := Store.get_some_lt hg
        have := h2 (b * S + s) (Nat.zero_le _) (by omega)
        unfold Store.occI at this
        rw [← st.get_eq_flat hs, hg] at this
        cases this
    · rw [h5] at h; exact absurd h (posOf_ne_end st h2)
  · intro h
    rcases st.firstFrom_spec S 0 with ⟨h1, _⟩ | ⟨j, _, h2, h3, _, _⟩
    · exact h1
    · have := st.get_posOf hS j
      rw [h] at this
      unfold Store.occI at h3
      rw [← this] at h3; cases h3

/-! ### `firstFrom` only looks at cells with index `≥ i` -/

theorem Store.firstFrom_congr (S : Nat) (st st' : Store κ ν) (hhp : st'.hp = st.hp) (i : Nat)
    (hag : ∀ j, i ≤ j → st'.occI j = st.occI j) : st'.firstFrom S i = st.firstFrom S i := by
  have hend : st'.endPos = st.endPos := by unfold Store.endPos; rw [hhp]
  generalize hd : 2 ^ st.hp * S - i = d
  induction d generalizing i with
  | zero =>
    rw [st.firstFrom_ge S i (by omega), st'.firstFrom_ge S i (by rw [hhp]; omega), hend]
  | succ d ih =>
    have hi : i < 2 ^ st.hp * S := by omega
    have hi' : i < 2 ^ st'.hp * S := by rw [hhp]; exact hi
    by_cases ho : st.occI i = true
    · rw [st.firstFrom_occ S i hi ho, st'.firstFrom_occ S i hi' (by rw [hag i (Nat.le_refl _)]; exact ho)]
    · have ho' : st.occI i = false := by simpa using ho
      rw [st.firstFrom_step S i hi ho', st'.firstFrom_step S i hi' (by rw [hag i (Nat.le_refl _)]; exact ho')]
      exact ih (i + 1) (fun j hj => hag j (by omega)) (by omega)

theorem Store.occI_set_none_self (S : Nat) (st : Store κ ν) (b s : Nat) :
    (st.set S b s none).occI (b * S + s) = false := by
  unfold Store.occI Store.set
  simp only [Array.getD_eq_getD_getElem?, Array.getElem?_setIfInBounds_self]
  split <;> rfl

theorem Store.occI_set_other (S : Nat) (st : Store κ ν) (b s : Nat) (v) (j : Nat) (hj : b * S + s ≠ j) :
    (st.set S b s v).occI j = st.occI j := by
  unfold Store.occI Store.set
  simp only [Array.getD_eq_getD_getElem?, Array.getElem?_setIfInBounds_ne hj]

/-- erasing the cell under an iterator and re-normalising the iterator gives the old successor -/
theorem Store.itAt_set_none {S : Nat} (st : Store κ ν) (hsz : st.cells.size = 2 ^ st.hp * S) {b s : Nat} {sl : Slot κ ν}
    (h : st.get S b s = some sl) : (st.set S b s none).itAt S (b, s) = st.itNext S (b, s) := by
  have ⟨hs, hlt⟩ := Store.get_some_lt h
  have hne : ((b, s) : Pos) ≠ (st.set S b s none).endPos := by
    have := posOf_ne_end (S := S) st (i := b * S + s) (by omega)
    rw [posOf_flat hs] at this
    exact this
  unfold Store.itAt Store.itNext
  rw [if_neg hne]
  show (st.set S b s none).firstFrom S (b * S + s) = st.firstFrom S (b * S + s + 1)
  rw [(st.set S b s none).firstFrom_step S _ (by show b * S + s < 2 ^ st.hp * S; omega) (st.occI_set_none_self S b s)]
  exact Store.firstFrom_congr S st (st.set S b s none) rfl _ (fun j hj => st.occI_set_other S b s none j (by omega))

/-! ### table level -/

theorem live_iff_cur {c : Cfg κ} {t : Table κ ν} (hl : AllMig t) (sl : Slot κ ν) :
    t.Live c sl ↔ ∃ b s, t.cur.get c.S b s = some sl := by
  constructor
  · rintro ⟨p, hp⟩
    cases p with
    | cur b s => exact ⟨b, s, hp⟩
    | old b s =>
      simp only [Table.at, hl.unmigB b] at hp
      split at hp
      · simp at hp
      · cases hp
  · rintro ⟨b, s, h⟩
    exact ⟨.cur b s, h⟩

end Cuckoo.Model
