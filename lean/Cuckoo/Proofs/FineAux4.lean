import Cuckoo.Proofs.FineAux3
/-!
Preservation of the reduction invariant by data accesses: an access of a pre-commit thread goes to its open log,
an access of a post-commit thread is inserted into the thread's episode in the middle of the serial execution.
-/
namespace Cuckoo.Fine
open Cuckoo.Proto

variable {V : Type} [DecidableEq V] {G : Nat → Nat → Nat} {mem0 : Nat → V} {g : GS V}

theorem accept_data_spec (s s' : FS V) (t : Tid) (a : Acc V) (h : accept G s (.data t a) = some s') :
    canAccess G s.ps t a.loc = true ∧ applyAcc s.mem a = some s'.mem ∧ s' = { s with mem := s'.mem } := by
  cases a with
  | read x v =>
    simp only [accept] at h
    split at h
    next hc => cases h; exact ⟨hc.1, by simp [applyAcc, hc.2], rfl⟩
    · cases h
  | write x v =>
    simp only [accept] at h
    split at h
    next hc => cases h; exact ⟨hc, rfl, rfl⟩
    · cases h

omit [DecidableEq V] in
@[simp] theorem setL_same (f : Tid → List (Acc V)) (t : Tid) (l : List (Acc V)) : setL f t l t = l := by simp [setL]
omit [DecidableEq V] in
theorem setL_other (f : Tid → List (Acc V)) (t u : Tid) (l : List (Acc V)) (h : u ≠ t) : setL f t l u = f u := by
  simp [setL, h]

theorem finv_data_pre (h : FInv G mem0 g) (t : Tid) (a : Acc V) (mem' : Nat → V) (hs : g.fs.shrunk t = false)
    (hc : canAccess G g.fs.ps t a.loc = true) (ha : applyAcc g.fs.mem a = some mem') :
    FInv G mem0 { g with fs := { g.fs with mem := mem' }, opn := setL g.opn t (g.opn t ++ [a]) } := by
  obtain ⟨hmay, hhold⟩ := canAccess_spec G _ t _ hc
  obtain ⟨am, hrun, hK2, hK1⟩ := h.ser
  have hother : ∀ u, u ≠ t → a.loc ∉ locs (g.opn u) := fun u hu hx => hu (h.open_excl hx hhold).symm
  have hmem : ∀ y, y ≠ a.loc → mem' y = g.fs.mem y := applyAcc_other _ _ _ ha
  constructor
  · exact h.pinv
  · refine ⟨am, hrun, ?_, ?_⟩
    · intro y hy
      have hyt := hy t
      simp only [setL_same, locs_append, locs_cons, locs_nil, List.mem_append, List.mem_singleton, not_or] at hyt
      show mem' y = am y
      rw [hmem y hyt.2]
      apply hK2
      intro u
      by_cases hu : u = t
      · subst hu; exact hyt.1
      · have := hy u
        simpa only [setL_other _ _ _ _ hu] using this
    · intro u
      by_cases hu : u = t
      · subst hu
        obtain ⟨mt, hmt, hag⟩ := hK1 u
        have hmx : mt a.loc = g.fs.mem a.loc := by
          by_cases hx : a.loc ∈ locs (g.opn u)
          · exact hag _ hx
          · rw [runAccs_untouched _ _ _ hmt _ hx]
            symm; apply hK2; intro w
            by_cases hw : w = u
            · subst hw; exact hx
            · exact hother w hw
        obtain ⟨r', hr', hagr⟩ := runAccs_congr (fun y => y = a.loc) [a] g.fs.mem mt mem' (by simp)
          (by intro y hy; subst hy; exact hmx.symm) (by rw [runAccs_single]; exact ha)
        refine ⟨r', ?_, ?_⟩
        · simp only [setL_same, runAccs_append, hmt, Option.bind_some, hr']
        · intro y hy
          simp only [setL_same, locs_append, locs_cons, locs_nil, List.mem_append, List.mem_singleton] at hy
          show r' y = mem' y
          by_cases hya : y = a.loc
          · subst hya; exact (hagr _ rfl).symm
          · rw [runAccs_single] at hr'
            rw [applyAcc_other _ _ _ hr' y hya, hmem y hya]
            rcases hy with hy | hy
            · exact hag y hy
            · exact absurd hy hya
      · obtain ⟨mu, hmu, hag⟩ := hK1 u
        refine ⟨mu, by simpa only [setL_other _ _ _ _ hu] using hmu, ?_⟩
        intro y hy
        simp only [setL_other _ _ _ _ hu] at hy
        have : y ≠ a.loc := fun e => hother u hu (e ▸ hy)
        show mu y = mem' y
        rw [hmem y this]; exact hag y hy
  · intro u hne
    by_cases hu : u = t
    · subst hu; exact ⟨hmay, hs⟩
    · simp only [setL_other _ _ _ _ hu] at hne
      exact h.open_ok u hne
  · intro u y hy
    by_cases hu : u = t
    · subst hu
      simp only [setL_same, locs_append, locs_cons, locs_nil, List.mem_append, List.mem_singleton] at hy
      rcases hy with hy | hy
      · exact h.open_guard u y hy
      · subst hy; exact Or.inl hhold
    · simp only [setL_other _ _ _ _ hu] at hy
      exact h.open_guard u y hy
  · exact h.shr
  · exact h.keys
  · exact h.sorted
  · exact h.later

theorem finv_data_post (h : FInv G mem0 g) (t : Tid) (a : Acc V) (mem' : Nat → V) (hs : g.fs.shrunk t = true)
    (hc : canAccess G g.fs.ps t a.loc = true) (ha : applyAcc g.fs.mem a = some mem') :
    FInv G mem0 { g with fs := { g.fs with mem := mem' }, E := addTo t (g.hold t) a g.E } := by
  obtain ⟨hmay, hhold⟩ := canAccess_spec G _ t _ hc
  obtain ⟨am, hrun, hK2, hK1⟩ := h.ser
  have hopn : g.opn t = [] := h.open_nil_of_shrunk hs
  have hno : ∀ u, a.loc ∉ locs (g.opn u) := by
    intro u hx
    have := h.open_excl hx hhold
    subst this
    rw [hopn] at hx; cases hx
  have hmem : ∀ y, y ≠ a.loc → mem' y = g.fs.mem y := applyAcc_other _ _ _ ha
  have hamx : g.fs.mem a.loc = am a.loc := hK2 _ hno
  obtain ⟨-, p, hp, hpt, hpk⟩ := h.shr t hs
  obtain ⟨E1, E2, hE⟩ := List.append_of_mem hp
  have hnd := h.nodup
  rw [hE] at hnd
  have hadd : addTo t (g.hold t) a g.E = E1 ++ { p with accs := p.accs ++ [a] } :: E2 := by
    rw [hE]; exact addTo_split t _ a E1 E2 p hnd hpt hpk
  have hE2 : a.loc ∉ locs (flat E2) := by
    intro hx
    obtain ⟨q, hq, hxq⟩ := (mem_locs_flat E2 _).1 hx
    exact h.later t hs E1 p E2 hE hpt hpk q hq _ hxq hhold
  -- the new serial result
  obtain ⟨am', ham', hagr⟩ := runAccs_congr (fun y => y = a.loc) [a] g.fs.mem am mem' (by simp)
    (by intro y hy; subst hy; exact hamx) (by rw [runAccs_single]; exact ha)
  rw [runAccs_single] at ham'
  have hrun' : runAccs mem0 (flat (addTo t (g.hold t) a g.E)) = some am' := by
    rw [hadd]
    have e : flat (E1 ++ { p with accs := p.accs ++ [a] } :: E2) = (flat E1 ++ p.accs) ++ [a] ++ flat E2 := by
      simp
    rw [e, runAccs_insert _ _ _ hE2]
    have e2 : flat E1 ++ p.accs ++ flat E2 = flat g.E := by rw [hE]; simp
    rw [e2, hrun]; exact ham'
  have ham'o : ∀ y, y ≠ a.loc → am' y = am y := applyAcc_other _ _ _ ham'
  constructor
  · exact h.pinv
  · refine ⟨am', hrun', ?_, ?_⟩
    · intro y hy
      show mem' y = am' y
      by_cases hya : y = a.loc
      · subst hya; exact hagr _ rfl
      · rw [hmem y hya, ham'o y hya]; exact hK2 y hy
    · intro u
      obtain ⟨mu, hmu, hag⟩ := hK1 u
      obtain ⟨r', hr', hagr'⟩ := runAccs_congr (fun y => y ∈ locs (g.opn u)) (g.opn u) am am' mu (fun _ hx => hx)
        (by intro y hy; symm; apply ham'o; intro e; exact hno u (e ▸ hy)) hmu
      refine ⟨r', hr', ?_⟩
      intro y hy
      show r' y = mem' y
      rw [← hagr' y hy, hag y hy, hmem]
      intro e; exact hno u (e ▸ hy)
  · exact h.open_ok
  · exact h.open_guard
  · intro u hu
    obtain ⟨h1, q, hq, hqt, hqk⟩ := h.shr u hu
    refine ⟨h1, addF t (g.hold t) a q, ?_, by simpa using hqt, by simpa using hqk⟩
    show _ ∈ addTo t (g.hold t) a g.E
    rw [addTo_eq]; exact List.mem_map_of_mem hq
  · intro q' hq'
    change q' ∈ addTo t (g.hold t) a g.E at hq'
    rw [addTo_eq, List.mem_map] at hq'
    obtain ⟨q, hq, rfl⟩ := hq'
    simpa using h.keys q hq
  · show (addTo t (g.hold t) a g.E).Pairwise _
    rw [addTo_eq, List.pairwise_map]
    refine h.sorted.imp ?_
    intro p q hpq
    simpa using hpq
  · intro u hu F1 p' F2 hF hp't hp'k q' hq' y hy
    change addTo t (g.hold t) a g.E = F1 ++ p' :: F2 at hF
    rw [addTo_eq, List.map_eq_append_iff] at hF
    obtain ⟨D1, D2', hD, hD1, hD2⟩ := hF
    rw [List.map_eq_cons_iff] at hD2
    obtain ⟨p0, D2, hD2e, hp0, hD2m⟩ := hD2
    subst hD2e
    rw [← hD2m, List.mem_map] at hq'
    obtain ⟨q, hq, rfl⟩ := hq'
    have hp0t : p0.tid = u := by rw [← hp't, ← hp0]; simp
    have hp0k : p0.hold = g.hold u := by rw [← hp'k, ← hp0]; simp
    rcases addF_locs _ _ _ _ _ hy with hy' | ⟨hqt, hqk, hya⟩
    · exact h.later u hu D1 p0 D2 hD hp0t hp0k q hq y hy'
    · subst hya
      show g.fs.ps.holder _ ≠ some u
      rw [hhold]
      intro e
      have e' : t = u := Option.some.inj e
      subst e'
      have hnd' := h.nodup
      rw [hD, List.pairwise_append] at hnd'
      have := (List.pairwise_cons.1 hnd'.2.1).1 q hq
      exact this ⟨hp0t.trans hqt.symm, hp0k.trans hqk.symm⟩

end Cuckoo.Fine
