/-!
# The abstract specification: an association list with unique keys

This is the whole reference semantics the refinement theorems mention (short enough to read in a minute).
-/
namespace Cuckoo.Spec
variable {κ ν : Type}

/-- abstract map: list of pairs, keys pairwise distinct (the `Rel` relation carries the `Nodup`) -/
abbrev AMap (κ ν : Type) := List (κ × ν)

def AMap.lookup [DecidableEq κ] (m : AMap κ ν) (k : κ) : Option ν :=
  match m with
  | [] => none
  | (k', v) :: rest => if k' = k then some v else AMap.lookup rest k

def AMap.erase [DecidableEq κ] (m : AMap κ ν) (k : κ) : AMap κ ν := m.filter (fun p => p.1 ≠ k)

/-- replace the value of `k` (no effect if absent) -/
def AMap.set [DecidableEq κ] (m : AMap κ ν) (k : κ) (v : ν) : AMap κ ν :=
  m.map (fun p => if p.1 = k then (k, v) else p)

/-- add a pair for a key that is absent -/
def AMap.add (m : AMap κ ν) (k : κ) (v : ν) : AMap κ ν := (k, v) :: m

end Cuckoo.Spec
