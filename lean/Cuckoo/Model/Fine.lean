import Cuckoo.Model.Proto
/-!
# Fine-grained (data-access level) semantics of the locking protocol, and the episode serialization

`Proto.accept` only describes synchronisation events.  Here every *data access* (read / write of a memory
location) of a thread is an event of its own, interleaved arbitrarily with the accesses and the synchronisation
events of the other threads; an access of location `x` is allowed only when the protocol allows
`Ev.access t (G curSize x)`, i.e. the thread holds the stripe guarding `x` in the *current* lock array (and is
validated, or owns the table).

Rule T (two-phase): within one hold (maximal period during which the thread's `held` list is non-empty) a
thread does not acquire a lock after it has released one.  `Ev.append` (an owner appends a lock array whose locks
are born locked by it) acquires locks, hence it is subject to rule T too.  The real code does release one lock of a
hold and then keeps touching data under the locks it still holds (the third lock of `lock_three`), but it never
acquires (nor appends) again within that hold.

The ghost construction `gstep` builds, along an accepted trace, the *serialization*: the list `E` of committed
episodes in commit order (commit point of a hold = its first `release`) and the open (pre-commit) access log of every
thread.  An access made by a post-commit thread (it has released a lock but still holds others) is appended to the
episode of its current hold, *inside* `E`.  `Props/C01Red.lean` proves that the serial, episode-atomic execution
`runAccs mem0 (E.flatMap (·.accs))` succeeds (every read returns the value seen in the concurrent execution) and
ends in the memory of the concurrent execution.
-/
namespace Cuckoo.Fine
open Cuckoo.Proto

/-- a data access: location and the value read / written -/
inductive Acc (V : Type) where
  | read (x : Nat) (v : V)
  | write (x : Nat) (v : V)
deriving DecidableEq, Repr

def Acc.loc {V : Type} : Acc V → Nat
  | .read x _ => x
  | .write x _ => x

def Acc.isWrite {V : Type} : Acc V → Bool
  | .read _ _ => false
  | .write _ _ => true

/-- the locations touched / written by a list of accesses -/
def locs {V : Type} (L : List (Acc V)) : List Nat := L.map Acc.loc
def wlocs {V : Type} (L : List (Acc V)) : List Nat := (L.filter Acc.isWrite).map Acc.loc

/-- fine-grained events: a synchronisation event of the protocol, or a data access of thread `t` -/
inductive FEv (V : Type) where
  | sync (e : Ev)
  | data (t : Tid) (a : Acc V)

/-- memory update -/
def setM {V : Type} (m : Nat → V) (x : Nat) (v : V) : Nat → V := fun y => if y = x then v else m y

/-- flag update -/
def setB (f : Tid → Bool) (t : Tid) (b : Bool) : Tid → Bool := fun u => if u = t then b else f u

/-- fine state: protocol state, data memory, and per thread "has released a lock during its current hold" -/
structure FS (V : Type) where
  ps : PS
  mem : Nat → V
  shrunk : Tid → Bool

/-- the lock guarding location `x`: stripe `G curSize x` of the current lock array -/
def guard (G : Nat → Nat → Nat) (p : PS) (x : Nat) : LockId := ⟨p.curGen, G p.curSize x⟩

/-- may thread `t` touch location `x` now? (the protocol's `access` guard for the stripe of `x`) -/
def canAccess (G : Nat → Nat → Nat) (p : PS) (t : Tid) (x : Nat) : Bool :=
  (Proto.accept p (.access t (G p.curSize x))).isSome

/-- the synchronisation part of a fine step: the protocol must accept the event, and rule T -/
def syncStep {V : Type} (s : FS V) (e : Ev) : Option (FS V) :=
  match Proto.accept s.ps e with
  | none => none
  | some p' =>
    match e with
    | .acquire t _ => if s.shrunk t then none else some { s with ps := p' }
    | .append t _ => if s.shrunk t then none else some { s with ps := p' }
    | .release t _ => some { s with ps := p', shrunk := setB s.shrunk t (!(p'.th t).held.isEmpty) }
    | _ => some { s with ps := p' }

/-- the guarded fine-grained step: `none` = the event is not possible / violates the protocol -/
def accept {V : Type} [DecidableEq V] (G : Nat → Nat → Nat) (s : FS V) : FEv V → Option (FS V)
  | .sync e => syncStep s e
  | .data t (.read x v) => if canAccess G s.ps t x = true ∧ s.mem x = v then some s else none
  | .data t (.write x v) => if canAccess G s.ps t x = true then some { s with mem := setM s.mem x v } else none

def run {V : Type} [DecidableEq V] (G : Nat → Nat → Nat) (s : FS V) : List (FEv V) → Option (FS V)
  | [] => some s
  | e :: es => match accept G s e with
    | some s' => run G s' es
    | none => none

def init {V : Type} (hp n : Nat) (mem0 : Nat → V) : FS V :=
  { ps := Proto.init hp n, mem := mem0, shrunk := fun _ => false }

/-! ### atomic (serial) semantics -/

/-- one access executed on a memory: a read succeeds iff the memory holds the value that was read -/
def applyAcc {V : Type} [DecidableEq V] (m : Nat → V) : Acc V → Option (Nat → V)
  | .read x v => if m x = v then some m else none
  | .write x v => some (setM m x v)

def runAccs {V : Type} [DecidableEq V] (m : Nat → V) : List (Acc V) → Option (Nat → V)
  | [] => some m
  | a :: as => (applyAcc m a).bind fun m' => runAccs m' as

/-! ### the serialization (ghost construction) -/

/-- a committed episode: thread, the number of the hold (of that thread) it belongs to, its accesses -/
structure Ep (V : Type) where
  tid : Tid
  hold : Nat
  accs : List (Acc V)
deriving DecidableEq, Repr

/-- fine state + ghost components -/
structure GS (V : Type) where
  fs : FS V
  /-- committed episodes, in commit order -/
  E : List (Ep V)
  /-- open (pre-commit) access log of every thread -/
  opn : Tid → List (Acc V)
  /-- number of holds the thread has completed = the number of its current (or next) hold -/
  hold : Tid → Nat

def setL {V : Type} (f : Tid → List (Acc V)) (t : Tid) (l : List (Acc V)) : Tid → List (Acc V) :=
  fun u => if u = t then l else f u

def setN (f : Tid → Nat) (t : Tid) (n : Nat) : Tid → Nat := fun u => if u = t then n else f u

/-- append access `a` to the episode of hold `k` of thread `t` -/
def addTo {V : Type} (t : Tid) (k : Nat) (a : Acc V) (E : List (Ep V)) : List (Ep V) :=
  E.map fun p => if p.tid = t ∧ p.hold = k then { p with accs := p.accs ++ [a] } else p

/-- the ghost update that accompanies an accepted event (`g` = state before, `s'` = fine state after) -/
def ghost {V : Type} (g : GS V) (s' : FS V) : FEv V → GS V
  | .data t a =>
    if g.fs.shrunk t then { g with fs := s', E := addTo t (g.hold t) a g.E }   -- post-commit: into its own episode
    else { g with fs := s', opn := setL g.opn t (g.opn t ++ [a]) }            -- pre-commit: into its open log
  | .sync (.release t _) =>
    let E' := if g.fs.shrunk t then g.E else g.E ++ [⟨t, g.hold t, g.opn t⟩]   -- first release of the hold = commit
    let o' := if g.fs.shrunk t then g.opn else setL g.opn t []
    let h' := if (s'.ps.th t).held.isEmpty then setN g.hold t (g.hold t + 1) else g.hold   -- the hold ends
    { fs := s', E := E', opn := o', hold := h' }
  | .sync _ => { g with fs := s' }

def gstep {V : Type} [DecidableEq V] (G : Nat → Nat → Nat) (g : GS V) (e : FEv V) : Option (GS V) :=
  match accept G g.fs e with
  | none => none
  | some s' => some (ghost g s' e)

def grun {V : Type} [DecidableEq V] (G : Nat → Nat → Nat) (g : GS V) : List (FEv V) → Option (GS V)
  | [] => some g
  | e :: es => match gstep G g e with
    | some g' => grun G g' es
    | none => none

def ginit {V : Type} (hp n : Nat) (mem0 : Nat → V) : GS V :=
  { fs := init hp n mem0, E := [], opn := fun _ => [], hold := fun _ => 0 }

/-- the serialization of a trace: final fine state, committed episodes, open logs, hold counters -/
def serialize {V : Type} [DecidableEq V] (G : Nat → Nat → Nat) (hp n : Nat) (mem0 : Nat → V)
    (tr : List (FEv V)) : Option (GS V) :=
  grun G (ginit hp n mem0) tr

/-- the accesses of the serial execution: the committed episodes one after the other -/
def flat {V : Type} (E : List (Ep V)) : List (Acc V) := E.flatMap (·.accs)

/-- the access of event `e` if it is a data access of thread `t` made while the number of `t`'s current hold
satisfies `Q` -/
def evSel {V : Type} (t : Tid) (Q : Nat → Bool) (g : GS V) : FEv V → List (Acc V)
  | .data u a => if u = t ∧ Q (g.hold t) = true then [a] else []
  | .sync _ => []

/-- the data accesses of thread `t` in an accepted trace that are made while the number of `t`'s current hold
satisfies `Q` -/
def accsSel {V : Type} [DecidableEq V] (G : Nat → Nat → Nat) (t : Tid) (Q : Nat → Bool) (g : GS V) :
    List (FEv V) → List (Acc V)
  | [] => []
  | e :: es => match gstep G g e with
    | none => []
    | some g' => evSel t Q g e ++ accsSel G t Q g' es

/-- the data accesses of thread `t` made during its hold number `k` -/
def accsOfHold {V : Type} [DecidableEq V] (G : Nat → Nat → Nat) (t : Tid) (k : Nat) (g : GS V)
    (tr : List (FEv V)) : List (Acc V) :=
  accsSel G t (fun j => j == k) g tr

/-- the data accesses of thread `t` in a trace (purely syntactic) -/
def accsOf {V : Type} (t : Tid) : List (FEv V) → List (Acc V)
  | [] => []
  | .data u a :: es => if u = t then a :: accsOf t es else accsOf t es
  | .sync _ :: es => accsOf t es

end Cuckoo.Fine
