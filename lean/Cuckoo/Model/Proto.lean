/-!
# The locking protocol as a guarded transition system over synchronisation events

One `Ev` = one synchronisation event of the real code as reported by the `LIBCUCKOO_VERIF` hooks
(K3 replays every recorded trace through `accept`; a rejected event is a protocol violation of the code).
The guards are *local, syntactic* rules — what a thread may do given only its own history and the lock
table — and the theorems in `Props/C01.lean`, `C03.lean`, `C04.lean`, `C06.lean` show that every trace
obeying them is safe, for any number of threads, stripes, lock arrays and any schedule.

Rules (see DESIGN.md section 3.5 / 12):
* S  a thread takes the first lock of an episode only with a *sound snapshot*: its last hashpower load and its
     last read of the current lock array came after its last resize-counter load, or were made while it held a
     validated lock; the lock is taken in the array it saw;
* V  after the first lock the next counter load is the validation; only after a successful validation may it
     take further locks (ascending, same array) or touch buckets; after a failed one it must release;
* A  `lock_all` takes locks in ascending (array, index) order and owns the table once it holds every lock of the
     current array; arrays are appended (born locked) only by an owner;
* R  hashpower / bucket array / lock array change only under ownership, and the resize counter is advanced after
     the last such change and before any lock is released;
* E  a call ends holding no lock (only an active locked section keeps the table).
-/
namespace Cuckoo.Proto

abbrev Tid := Nat

/-- a lock: (index of the lock array in `all_locks_`, index in the array) — compared lexicographically -/
structure LockId where
  gen : Nat
  idx : Nat
deriving DecidableEq, Repr

instance : LT LockId := ⟨fun a b => a.gen < b.gen ∨ (a.gen = b.gen ∧ a.idx < b.idx)⟩
instance (a b : LockId) : Decidable (a < b) := by unfold LT.lt; unfold instLTLockId; simp only; infer_instance

inductive Ev
  | rcLoad (t : Tid)                 -- load of the resize counter
  | hpLoad (t : Tid)                 -- load of the table's hashpower
  | genLoad (t : Tid)                -- read of "the current lock array" (`all_locks_.back()`)
  | acquire (t : Tid) (l : LockId)   -- successful test_and_set
  | release (t : Tid) (l : LockId)   -- clear
  | access (t : Tid) (stripe : Nat)  -- a bucket (or its stripe's metadata) guarded by `stripe` of the current array is touched
  | allBegin (t : Tid)               -- lock_all entered
  | allEnd (t : Tid)                 -- lock_all returned
  | storeHp (t : Tid) (hp : Nat)     -- the bucket array / hashpower is replaced
  | append (t : Tid) (size : Nat)    -- a lock array is appended (born locked by `t`)
  | bumpRc (t : Tid)                 -- resize counter advanced
  | opEnd (t : Tid)                  -- a public call returns (`section = true`: it returns an active locked_table)
      (keepsTable : Bool)
  | sectionEnd (t : Tid)             -- unlock() of a locked_table has released everything
deriving Repr

/-- per-thread protocol state -/
structure TS where
  snapRc : Nat := 0
  snapHp : Nat := 0
  hpOk : Bool := false        -- the snapshot (snapRc, snapHp) was formed soundly (rule S)
  hpInHold : Bool := false    -- hashpower was loaded during the current validated hold
  snapGen : Nat := 0          -- the lock array last seen as current
  genOk : Bool := false       -- … seen soundly (after the counter load, or inside a validated hold)
  genInHold : Bool := false
  held : List LockId := []
  pendingVal : Bool := false  -- first lock taken, validation not yet done
  validated : Bool := false
  mustRelease : Bool := false -- validation failed
  inAll : Bool := false
  owner : Bool := false       -- holds every lock of the current array (lock_all completed / locked section)
  dirty : Bool := false       -- resized since the last counter bump
deriving Repr

structure PS where
  hp : Nat
  rc : Nat
  gens : List Nat               -- sizes of the lock arrays; the last one is current
  holder : LockId → Option Tid
  th : Tid → TS

def PS.curGen (s : PS) : Nat := s.gens.length - 1
def PS.curSize (s : PS) : Nat := s.gens.getLastD 0

def upd (f : Tid → TS) (t : Tid) (x : TS) : Tid → TS := fun u => if u = t then x else f u
def updH (f : LockId → Option Tid) (l : LockId) (x : Option Tid) : LockId → Option Tid := fun m => if m = l then x else f m

/-- `t` holds every lock of the current array -/
def PS.holdsAllCur (s : PS) (t : Tid) : Bool :=
  (List.range s.curSize).all fun i => s.holder ⟨s.curGen, i⟩ == some t

/-- the guarded step: `none` = the event violates the protocol -/
def accept (s : PS) : Ev → Option PS
  | .rcLoad t =>
    let x := s.th t
    if x.pendingVal then
      -- rule V: this is the validation
      if x.snapRc = s.rc then some { s with th := upd s.th t { x with pendingVal := false, validated := true } }
      else some { s with th := upd s.th t { x with pendingVal := false, mustRelease := true } }
    else
      some { s with th := upd s.th t { x with snapRc := s.rc, hpOk := x.hpOk && x.validated && x.hpInHold,
                                               genOk := x.genOk && x.validated && x.genInHold } }
  | .hpLoad t =>
    let x := s.th t
    if x.pendingVal then none
    else some { s with th := upd s.th t { x with snapHp := s.hp, hpOk := true, hpInHold := x.validated } }
  | .genLoad t =>
    let x := s.th t
    some { s with th := upd s.th t { x with snapGen := s.curGen, genOk := !x.pendingVal, genInHold := x.validated } }
  | .acquire t l =>
    let x := s.th t
    if s.holder l ≠ none then none                                   -- not free
    else if l.gen ≥ s.gens.length ∨ l.idx ≥ s.gens.getD l.gen 0 then none
    else if ¬ x.held.all (fun h => h < l) then none                    -- ascending order (rules V, A)
    else if x.mustRelease ∨ x.pendingVal then none
    else if x.inAll then
      some { s with holder := updH s.holder l (some t), th := upd s.th t { x with held := l :: x.held } }
    else if x.held.isEmpty then
      if x.hpOk ∧ x.genOk ∧ l.gen = x.snapGen then                     -- rule S
        some { s with holder := updH s.holder l (some t),
                      th := upd s.th t { x with held := [l], pendingVal := true, validated := false } }
      else none
    else if x.validated ∧ x.held.all (fun h => h.gen = l.gen) then
      some { s with holder := updH s.holder l (some t), th := upd s.th t { x with held := l :: x.held } }
    else none
  | .release t l =>
    let x := s.th t
    if s.holder l ≠ some t then none
    else if x.dirty then none                                          -- rule R
    else if x.pendingVal then none
    else
      let held := x.held.filter (· ≠ l)
      let x := { x with held := held }
      let x := if held.isEmpty then { x with validated := false, mustRelease := false, owner := false, hpInHold := false,
                                             genInHold := false } else
               { x with owner := false }
      some { s with holder := updH s.holder l none, th := upd s.th t x }
  | .access t stripe =>
    let x := s.th t
    if (x.validated ∨ x.owner) ∧ s.holder ⟨s.curGen, stripe⟩ = some t ∧ ¬ x.mustRelease then some s else none
  | .allBegin t =>
    let x := s.th t
    if x.held.isEmpty ∧ ¬ x.inAll then some { s with th := upd s.th t { x with inAll := true } } else none
  | .allEnd t =>
    let x := s.th t
    if x.inAll ∧ s.holdsAllCur t then some { s with th := upd s.th t { x with inAll := false, owner := true } } else none
  | .storeHp t hp =>
    let x := s.th t
    if x.owner then some { s with hp := hp, th := upd s.th t { x with dirty := true } } else none
  | .append t size =>
    let x := s.th t
    if x.owner ∧ 0 < size then
      let g := s.gens.length
      let newLocks := (List.range size).map (fun i => (⟨g, i⟩ : LockId))
      some { s with gens := s.gens ++ [size],
                    holder := fun l => if l.gen = g ∧ l.idx < size then some t else s.holder l,
                    th := upd s.th t { x with dirty := true, held := newLocks.reverse ++ x.held } }
    else none
  | .bumpRc t =>
    let x := s.th t
    if x.owner then some { s with rc := s.rc + 1, th := upd s.th t { x with dirty := false } } else none
  | .opEnd t keeps =>
    let x := s.th t
    if keeps then (if x.owner ∧ ¬ x.dirty then some s else none)
    else if x.held.isEmpty ∧ ¬ x.inAll then some s else none             -- rule E
  | .sectionEnd t =>
    let x := s.th t
    if x.held.isEmpty then some s else none

/-- a whole trace -/
def run (s : PS) : List Ev → Option PS
  | [] => some s
  | e :: es => match accept s e with
    | some s' => run s' es
    | none => none

/-- initial state: one lock array of `n` free locks -/
def init (hp n : Nat) : PS :=
  { hp := hp, rc := 0, gens := [n], holder := fun _ => none, th := fun _ => {} }

/-- index of the first rejected event, for the K3 monitor -/
def firstReject (s : PS) : List Ev → Nat → Option (Nat × Ev)
  | [], _ => none
  | e :: es, i => match accept s e with
    | some s' => firstReject s' es (i + 1)
    | none => some (i, e)

end Cuckoo.Proto
