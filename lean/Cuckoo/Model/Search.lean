import Cuckoo.Model.Core
/-!
# BFS slot search, cuckoo path decoding and path execution (`slot_search`,
`cuckoopath_search`, `cuckoopath_move`, `run_cuckoo`)

`locked = true` is `locked_table_mode` (no stripe is taken, nothing is migrated lazily).
Every hop re-validates the path record against the table, exactly as the C++ does, so these
functions are meaningful for *arbitrary* (stale) inputs — which is what the concurrent model needs.
-/
namespace Cuckoo.Model
open Cuckoo
variable {κ ν : Type}

def maxBfsPathLen : Nat := Gen.Consts.MAX_BFS_PATH_LEN
def pathcodeMod : Nat := 2 ^ Gen.Consts.pathcodeBits

/-- `b_slot` -/
structure BSlot where
  bucket : Nat
  pathcode : Nat
  depth : Nat
deriving Repr

/-- `MAX_CUCKOO_COUNT` for `S` slots per bucket (the formula of the source; T-B checks the values) -/
def maxCuckooCount (S : Nat) : Nat :=
  2 * (if S = 1 then maxBfsPathLen else (S ^ maxBfsPathLen - 1) / (S - 1))

/-- scan of one dequeued bucket: either an empty slot is found (the finished `b_slot`), or the
children to enqueue -/
def bfsScan (c : Cfg κ) (hp : Nat) (st : Store κ ν) (x : BSlot) : BSlot ⊕ List BSlot :=
  let start := x.pathcode % c.S
  let rec go (i fuel : Nat) (acc : List BSlot) : BSlot ⊕ List BSlot :=
    match fuel with
    | 0 => .inr acc.reverse
    | fuel + 1 =>
      let slot := (start + i) % c.S
      match st.get c.S x.bucket slot with
      | none => .inl { x with pathcode := (x.pathcode * c.S + slot) % pathcodeMod }
      | some sl =>
        let acc :=
          if x.depth < maxBfsPathLen - 1 then
            { bucket := Spec.altIndex hp sl.tag x.bucket,
              pathcode := (x.pathcode * c.S + slot) % pathcodeMod,
              depth := x.depth + 1 } :: acc
          else acc
        go (i + 1) fuel acc
  go 0 c.S []

/-- `slot_search`: returns the table (stripes it visited are migrated) and the found slot, if any -/
def slotSearch (c : Cfg κ) (locked : Bool) (hp : Nat) (t : Table κ ν) (i1 i2 : Nat) : Table κ ν × Option BSlot :=
  let rec go (fuel : Nat) (t : Table κ ν) (q : Array BSlot) (first : Nat) : Table κ ν × Option BSlot :=
    match fuel with
    | 0 => (t, none)
    | fuel + 1 =>
      match q[first]? with
      | none => (t, none)
      | some x =>
        let t := t.lockOneM c locked x.bucket
        match bfsScan c hp t.cur x with
        | .inl r => (t, some r)
        | .inr ch => go fuel t (q ++ ch.toArray) (first + 1)
  go (maxCuckooCount c.S + 1) t #[⟨i1, 0, 0⟩, ⟨i2, 1, 0⟩] 0

/-- `CuckooRecord` -/
structure PathRec where
  bucket : Nat
  slot : Nat
  hash : Nat      -- hv.hash of the key seen at search time
  tag : Nat       -- hv.partial
deriving Repr

/-- slot digits of a pathcode, most significant first, and the remaining start-bucket code -/
def decodeSlots (S : Nat) : Nat → Nat → List Nat → Nat × List Nat
  | 0, code, acc => (code, acc)
  | n + 1, code, acc => decodeSlots S n (code / S) (code % S :: acc)

/-- `cuckoopath_search` after `slot_search`: returns the path actually usable (`depth` may be
shorter than the BFS depth if an earlier slot turned out empty) -/
def buildPath [DecidableEq κ] (c : Cfg κ) (locked : Bool) (hp : Nat) (t : Table κ ν) (i1 i2 : Nat) (x : BSlot) :
    Table κ ν × List PathRec :=
  let (code, slots) := decodeSlots c.S (x.depth + 1) x.pathcode []
  let firstB := if code = 0 then i1 else i2
  let rec go (t : Table κ ν) (b : Nat) (slots : List Nat) (acc : List PathRec) : Table κ ν × List PathRec :=
    match slots with
    | [] => (t, acc.reverse)
    | s :: rest =>
      let t := t.lockOneM c locked b
      match t.cur.get c.S b s with
      | none => (t, (⟨b, s, 0, 0⟩ :: acc).reverse)     -- "we can terminate here"
      | some sl =>
        let h := c.hash sl.key
        let tg := Spec.partialKey h
        go t (Spec.altIndex hp tg b) rest (⟨b, s, h, tg⟩ :: acc)
  go t firstB slots []

/-- one hop of `cuckoopath_move`: move `from` into `to` if the three validations pass -/
def hop (c : Cfg κ) (t : Table κ ν) (fr to : PathRec) : Option (Table κ ν) :=
  match t.cur.get c.S to.bucket to.slot, t.cur.get c.S fr.bucket fr.slot with
  | none, some sl =>
    if c.hash sl.key = fr.hash then
      some { t with cur := (t.cur.set c.S to.bucket to.slot (some sl)).set c.S fr.bucket fr.slot none }
    else none
  | _, _ => none

/-- `cuckoopath_move`: `path` has `depth+1` records; returns whether the whole path was executed -/
def pathMove (c : Cfg κ) (locked : Bool) (t : Table κ ν) (i1 i2 : Nat) (path : List PathRec) : Table κ ν × Bool :=
  match path with
  | [] => (t, false)
  | [p0] =>
    let t := t.lockTwoM c locked i1 i2
    (t, !(t.cur.occ c.S p0.bucket p0.slot))
  | _ =>
    -- hops are executed from the end of the path towards its start
    let rec go (t : Table κ ν) (rev : List PathRec) : Table κ ν × Bool :=
      match rev with
      | to :: fr :: rest =>
        let t := if rest.isEmpty then t.lockThreeM c locked i1 i2 to.bucket
                 else t.lockTwoM c locked fr.bucket to.bucket
        match hop c t fr to with
        | none => (t, false)
        | some t' => if rest.isEmpty then (t', true) else go t' (fr :: rest)
      | _ => (t, true)
    go t path.reverse

/-- outcome of `run_cuckoo` -/
inductive CuckooOut
  | ok (b s : Nat)
  | full
  | fuel

/-- `run_cuckoo` (sequential: the resize counter cannot change under it) -/
def runCuckoo [DecidableEq κ] (c : Cfg κ) (locked : Bool) (t : Table κ ν) (i1 i2 : Nat) : Table κ ν × CuckooOut :=
  let hp := t.hp
  let rec go (fuel : Nat) (t : Table κ ν) : Table κ ν × CuckooOut :=
    match fuel with
    | 0 => (t, .fuel)
    | fuel + 1 =>
      match slotSearch c locked hp t i1 i2 with
      | (t, none) => (t, .full)
      | (t, some x) =>
        let (t, path) := buildPath c locked hp t i1 i2 x
        match pathMove c locked t i1 i2 path with
        | (t, true) =>
          match path.head? with
          | some p0 => (t, .ok p0.bucket p0.slot)
          | none => (t, .fuel)
        | (t, false) => go fuel t
  go 64 t

end Cuckoo.Model
