/-!
# Work splitting for helper threads (`parallel_exec`, `parallel_exec_noexcept`)

Tied to /repo by K1b (harness/k1_split.cc calls the real private member through the test-access friend with a
recording functor and compares the chunks with `splitWork`).
-/
namespace Cuckoo.Model

/-- `parallel_exec` / `parallel_exec_noexcept`: the range `[start, e)` is cut into `workers` chunks of
`(e - start) / (workers + 1)` indices for the helper threads; the calling thread takes what is left. -/
def splitWork.go (per e : Nat) : Nat → Nat → List (Nat × Nat)
  | 0, start => [(start, e)]
  | n + 1, start => (start, start + per) :: splitWork.go per e n (start + per)

def splitWork (s e workers : Nat) : List (Nat × Nat) :=
  splitWork.go ((e - s) / (workers + 1)) e workers s

def chunkIdx (c : Nat × Nat) : List Nat := List.range' c.1 (c.2 - c.1)

end Cuckoo.Model
