import Cuckoo.Model.Proto
/-!
# Retry bookkeeping layered over the protocol acceptor (liveness side of C04)

`Proto.accept` is a safety monitor: it allows a thread whose validation failed to try again with the very same
stale snapshot, for ever.  The real code never does that: after a failed validation (`hashpower_changed`) every
retry path starts over at `snapshot_and_lock_two` / `get_hashpower`-then-lock, i.e. it loads the resize counter
again before it takes the next first lock.  `stepL` adds exactly this rule (L) and counts failed validations; K3
replays every recorded trace through the product of `accept` and `stepL`.

The theorems in `Props/C04Live.lean` then bound the number of retries of every thread by the number of completed
resizes: an operation can be sent back only by a resize that finished in the meantime, never by ordinary
operations of other threads — so without an unbounded supply of resizes (each of which changes the table's
size) no call retries for ever.
-/
namespace Cuckoo.Proto

/-- liveness bookkeeping -/
structure LS where
  fails : Tid → Nat        -- failed validations so far
  needSnap : Tid → Bool    -- a validation failed and the resize counter has not been loaded since

def LS.init : LS := { fails := fun _ => 0, needSnap := fun _ => false }

def updN (f : Tid → Nat) (t : Tid) (x : Nat) : Tid → Nat := fun u => if u = t then x else f u
def updB (f : Tid → Bool) (t : Tid) (x : Bool) : Tid → Bool := fun u => if u = t then x else f u

/-- one event; `s` is the protocol state BEFORE the event; `none` = rule L violated -/
def stepL (s : PS) (l : LS) : Ev → Option LS
  | .rcLoad t =>
    let x := s.th t
    if x.pendingVal then
      if x.snapRc = s.rc then some l
      else some { fails := updN l.fails t (l.fails t + 1), needSnap := updB l.needSnap t true }
    else some { l with needSnap := updB l.needSnap t false }
  | .acquire t _ =>
    let x := s.th t
    -- rule L: the first lock of an episode is not taken on a snapshot that has already failed
    if x.held.isEmpty ∧ ¬ x.inAll ∧ l.needSnap t then none else some l
  | _ => some l

/-- the product run -/
def runL (s : PS) (l : LS) : List Ev → Option (PS × LS)
  | [] => some (s, l)
  | e :: es =>
    match accept s e, stepL s l e with
    | some s', some l' => runL s' l' es
    | _, _ => none

/-- number of completed resizes (counter bumps) in a trace -/
def bumps : List Ev → Nat
  | [] => 0
  | .bumpRc _ :: es => bumps es + 1
  | _ :: es => bumps es

end Cuckoo.Proto
