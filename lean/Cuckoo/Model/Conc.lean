import Cuckoo.Model.Inv
/-!
# Concurrent executions as interleavings of atomic critical sections

A *section* is what one thread does between taking a set of stripe locks and releasing them, applied to the
**current** table with whatever (possibly stale) local data the thread carries: its snapshot `(hpS, rcS)`, a cuckoo
path computed earlier, the key and value of its call.  The protocol theorems (Props/C01, C03) justify this granularity:
a validated thread works on the current hashpower and lock array and holds its stripes exclusively.

Every section below is built from the same primitive functions as the sequential replica (`Model/Core`, `Search`,
`Resize`, `Ops`), so the sequential operations are particular schedules of these sections (K2 ties those to the code).
A section returns `none` if the call it belongs to is not finished (internal step) or `some response` if this was the
call's last section.
-/
namespace Cuckoo.Model.Conc
open Cuckoo Cuckoo.Model
variable {κ ν : Type}

/-- what a finished call reports -/
inductive Resp (ν : Type)
  | bool (r : Res Bool) (calls : List (Call ν))
  | unit
deriving Inhabited

abbrev Section (κ ν : Type) := Table κ ν → Table κ ν × Option (Resp ν)

/-- taking one / two / three stripes in normal mode = migrating them lazily (lock_one, lock_two, lock_three) -/
def lockSec (c : Cfg κ) (bs : List Nat) : Section κ ν := fun t =>
  (match bs with
   | [b] => t.lockOne c b
   | [b1, b2] => t.lockTwo c b1 b2
   | [b1, b2, b3] => t.lockThree c b1 b2 b3
   | _ => t, none)

/-- the re-validation every section performs after its first lock.  The code compares the resize counter only; the
model compares the hashpower too — `Props/C01Conc.rc_check_implies_hp_check` shows the second test is implied -/
def valid (t : Table κ ν) (hpS rcS : Nat) : Bool := t.rc == rcS && t.hp == hpS

/-- one intermediate hop of `cuckoopath_move` (`lock_two(from, to)`, validation, the three checks, the move) -/
def hopSec (c : Cfg κ) (hpS rcS : Nat) (fr to : PathRec) : Section κ ν := fun t =>
  let t1 := t.lockTwo c fr.bucket to.bucket
  if valid t1 hpS rcS && to.bucket == Spec.altIndex hpS (Spec.partialKey fr.hash) fr.bucket && decide (to.slot < c.S) then
    match hop c t1 fr to with
    | some t2 => (t2, none)
    | none => (t1, none)
  else (t1, none)

/-- the functor application and optional erasure at an occupied cell (common tail of the final sections) -/
def applyFn (c : Cfg κ) (t : Table κ ν) (b s : Nat) (ctx : Option Ctx) (mayErase : Bool) (fn : ν → FnOut ν)
    (okRes : Bool) : Table κ ν × Resp ν :=
  match t.cur.get c.S b s with
  | none => (t, .bool (.ok okRes) [])
  | some sl =>
    let call : Call ν := ⟨ctx, sl.val⟩
    match fn sl.val with
    | .throw v' => (t.setVal c b s v', .bool (.err .fnThrow) [call])
    | .ret v' er =>
      let t := t.setVal c b s v'
      let t := if mayErase && er then t.delFrom c b s else t
      (t, .bool (.ok okRes) [call])

/-- the single section of find_fn / update_fn / erase_fn (lock_two on a fresh snapshot, lookup, functor) -/
def lookupSec [DecidableEq κ] (c : Cfg κ) (canErase : Bool) (k : κ) (fn : ν → FnOut ν) : Section κ ν := fun t =>
  let r := t.fnOp c canErase k fn
  (r.1, some (.bool r.2.res r.2.calls))

/-- completing an insertion at a free candidate slot `(b, s)`, or running the functor on the duplicate found by the
re-check: the tail of `uprase_fn` once `cuckoo_insert` has returned with both buckets locked -/
def finishInsert [DecidableEq κ] (c : Cfg κ) (t : Table κ ν) (k : κ) (v : ν) (ctxAware mayErase : Bool)
    (fn : Ctx → ν → FnOut ν) (pos : InsPos) : Table κ ν × Resp ν :=
  match pos with
  | .free b s =>
    let t := t.addTo c b s ⟨c.tag k, k, v⟩
    if ctxAware then applyFn c t b s (some .newlyInserted) mayErase (fn .newlyInserted) true
    else (t, .bool (.ok true) [])
  | .dup b s => applyFn c t b s (if ctxAware then some .alreadyExisted else none) mayErase (fn .alreadyExisted) false

/-- first section of an inserting call: lock_two on a fresh snapshot, the two bucket scans; finishes the call unless
both buckets are full (then the call goes on to search a cuckoo path, having only migrated its stripes) -/
def insertTrySec [DecidableEq κ] (c : Cfg κ) (k : κ) (v : ν) (ctxAware mayErase : Bool) (fn : Ctx → ν → FnOut ν) :
    Section κ ν := fun t =>
  let i1 := c.i1 t.hp k
  let i2 := c.i2 t.hp k
  let t1 := t.lockTwo c i1 i2
  match tryInsert c t1.cur i1 i2 k with
  | .pos p => let r := finishInsert c t1 k v ctxAware mayErase fn p; (r.1, some r.2)
  | .needCuckoo => (t1, none)

/-- last section of a displacing insertion: `lock_three(i1, i2, to)` (or `lock_two(i1,i2)` when the path has depth 0),
validation, the last hop, the duplicate re-check, `add_to_bucket`, the functor.  `fr` is the first record of the path
(a slot of bucket i1 or i2); `to = none` encodes depth 0. -/
def insertLastSec [DecidableEq κ] (c : Cfg κ) (hpS rcS : Nat) (k : κ) (v : ν) (ctxAware mayErase : Bool)
    (fn : Ctx → ν → FnOut ν) (fr : PathRec) (to : Option PathRec) : Section κ ν := fun t =>
  let i1 := c.i1 hpS k
  let i2 := c.i2 hpS k
  let t1 := match to with
    | some to => t.lockThree c i1 i2 to.bucket
    | none => t.lockTwo c i1 i2
  if !(valid t1 hpS rcS && (fr.bucket == i1 || fr.bucket == i2) && decide (fr.slot < c.S)) then (t1, none)
  else
    let moved : Option (Table κ ν) :=
      match to with
      | none => if t1.cur.occ c.S fr.bucket fr.slot then none else some t1
      | some to =>
        if to.bucket == Spec.altIndex hpS (Spec.partialKey fr.hash) fr.bucket && decide (to.slot < c.S) then hop c t1 fr to else none
    match moved with
    | none => (t1, none)           -- the path is no longer valid: locks are dropped, the search starts over
    | some t2 =>
      match cuckooFind c t2.cur i1 i2 k with
      | some (b, s) => let r := finishInsert c t2 k v ctxAware mayErase fn (.dup b s); (r.1, some r.2)
      | none => let r := finishInsert c t2 k v ctxAware mayErase fn (.free fr.bucket fr.slot); (r.1, some r.2)

/-- `cuckoo_fast_double` under all locks: internal (the inserting call retries afterwards) unless the expansion is
refused or fails, in which case the exception ends the call -/
def doubleSec [DecidableEq κ] (c : Cfg κ) (fuel curHp : Nat) : Section κ ν := fun t =>
  match fastDouble c false true fuel t curHp with
  | (t', .ok _) => (t', none)
  | (t', .err e) => (t', some (.bool (.err e) []))

/-- `rehash(n)` / `reserve(n)`: one section under all locks; always the call's last (it changes no contents) -/
def rehashSec [DecidableEq κ] (c : Cfg κ) (n : Nat) : Section κ ν := fun t => ((t.rehash c false n).1, some .unit)
def reserveSec [DecidableEq κ] (c : Cfg κ) (n : Nat) : Section κ ν := fun t => ((t.reserve c false n).1, some .unit)

/-- the locked part of `rehash(n)` / `reserve(n)` alone: `cuckoo_expand_simple(new_hp)` under all locks.  The public members
compare the request with the hashpower BEFORE taking the locks (an unlocked read); a request that differed from the
hashpower when it was issued therefore rebuilds the table even if, by the time it owns the locks, a locked section or another
resize has given the table exactly the requested size (found by the section replay K3(ii): `rehashSec` alone did not
reproduce such executions).  `rehashSec c n t = expandSec c n t` whenever `n ≠ t.hp`. -/
def expandSec [DecidableEq κ] (c : Cfg κ) (newHp : Nat) : Section κ ν := fun t =>
  ((expandSimple c false false (c.fuel t.cur.cells.size) t newHp).1, some .unit)

/-- `clear()` under all locks -/
def clearSec (c : Cfg κ) : Section κ ν := fun t => (t.clear c, some .unit)

/-- run a schedule: the sections in the order in which they take effect -/
def exec (t : Table κ ν) : List (Section κ ν) → Table κ ν × List (Option (Resp ν))
  | [] => (t, [])
  | f :: fs =>
    let r := f t
    let r' := exec r.1 fs
    (r'.1, r.2 :: r'.2)

end Cuckoo.Model.Conc
