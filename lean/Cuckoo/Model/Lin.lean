import Cuckoo.Spec.Map
/-!
# An executable linearizability checker (Wing–Gong search) over the abstract map

A *history* is the list of the calls of one concurrent execution of the real code: per call its thread, the global
stamps of its invocation and response, the operation with its arguments and the result it returned.  `check m0 h final`
decides whether the history is linearizable with respect to the abstract map `Spec.AMap Nat Nat` started at `m0` and
ending (as a finite map) in `final`.

`check` / `checkWitness` are the plain search; `checkFast` / `checkWitnessFast` the same search remembering the failed
configurations (use these in the driver: a rejected 24-call history takes 0.2 ms instead of up to 0.4 s);
`validWitness` re-validates a claimed linearization without any search.

This file contains definitions only (it is linked into the compiled driver); the theorems are in
`Props/C01Lin.lean`: `check_sound`, `check_complete`, `checkFast_sound`, `checkFast_complete`, `validWitness_sound`,
`applySpec_is_specOf`, `secRun_is_specRun`.
-/
namespace Cuckoo.Lin
open Cuckoo.Spec

/-- the permitted failures of an automatic / explicit expansion (`"E:lftl"`, `"E:maxhp"`, `"E:badalloc"`) -/
inductive LErr
  | lftl | maxhp | badalloc
deriving DecidableEq, Repr

/-- one call inside a `lock_table() … unlock()` section -/
inductive LtOp
  | insert (k v : Nat)
  | erase (k : Nat)
  | find (k : Nat)
  | clear
  | size
  | rehash (n : Nat)
  | reserve (n : Nat)
  /-- a call that neither reads nor changes the contents and answers `"ok"` -/
  | other
deriving DecidableEq, Repr

/-- what one call inside a section answered -/
inductive LtRes
  | bool (b : Bool)
  | val (v : Option Nat)
  | ok
  | size (n : Nat)
  /-- the call threw: the section ends here -/
  | fail (e : LErr)
deriving DecidableEq, Repr

/-- the calls of the concurrent harness -/
inductive LOp
  | find (k : Nat)
  | insert (k v : Nat)
  | ioa (k v : Nat)        -- insert_or_assign
  | update (k v : Nat)
  | erase (k : Nat)
  | upsert (k d : Nat)     -- upsert(k, v += d, d)
  | updatefn (k d : Nat)   -- update_fn(k, v += d)
  | erasefn (k d : Nat)    -- erase_fn(k, v == d)
  | rehash (n : Nat)
  | reserve (n : Nat)
  | clear
  | sec (body : List LtOp) -- lock_table(); body; unlock()  — one atomic step
deriving DecidableEq, Repr

/-- the observed result of a call -/
inductive LRes
  | val (v : Option Nat)   -- find: the value, or absent
  | bool (b : Bool)
  | ok
  | fail (e : LErr)
  | sec (rs : List LtRes)
deriving DecidableEq, Repr

/-- one call of a history -/
structure HOp where
  tid : Nat
  inv : Nat
  resp : Nat
  op : LOp
  res : LRes
deriving DecidableEq, Repr

/-- `some m'` iff the observed flag is the expected one -/
@[inline] def expect (b want : Bool) (m' : AMap Nat Nat) : Option (AMap Nat Nat) :=
  if b = want then some m' else none

/-- one call inside a section: `none` = the answer is impossible on this map -/
def ltStep (m : AMap Nat Nat) : LtOp → LtRes → Option (AMap Nat Nat)
  | .insert k v, .bool b => expect b (m.lookup k).isNone (if (m.lookup k).isNone then m.add k v else m)
  | .erase k, .bool b => expect b (m.lookup k).isSome (m.erase k)
  | .find k, .val r => if r = m.lookup k then some m else none
  | .clear, .ok => some []
  | .size, .size n => if n = m.length then some m else none
  | .rehash _, .ok => some m
  | .reserve _, .ok => some m
  | .other, .ok => some m
  | _, _ => none

/-- may this call end with one of the permitted failures (leaving the contents unchanged)? -/
def LtOp.mayFail : LtOp → Bool
  | .insert _ _ | .rehash _ | .reserve _ => true
  | _ => false

/-- a whole section: the calls are run in order; a call that throws ends the section (the remaining calls are not run) -/
def secRun (m : AMap Nat Nat) : List LtOp → List LtRes → Option (AMap Nat Nat)
  | [], [] => some m
  | op :: _, [.fail _] => if op.mayFail then some m else none
  | op :: ops, r :: rs =>
    match ltStep m op r with
    | some m' => secRun m' ops rs
    | none => none
  | _, _ => none

/-- **the sequential specification**: the map after the call, or `none` if the observed result is impossible on `m`.
Written with `AMap.lookup/set/erase/add` exactly as `Props.C01Conc.specOf` / `Props.C02.upraseSpec` are
(`applySpec_is_specOf`). -/
def applySpec (m : AMap Nat Nat) : LOp → LRes → Option (AMap Nat Nat)
  | .find k, .val r =>
    match m.lookup k with
    | some v => if r = some v then some (m.set k v) else none
    | none => if r = none then some m else none
  | .insert k v, .bool b =>
    match m.lookup k with
    | some old => expect b false (m.set k old)
    | none => expect b true (m.add k v)
  | .ioa k v, .bool b =>
    match m.lookup k with
    | some _ => expect b false (m.set k v)
    | none => expect b true (m.add k v)
  | .update k v, .bool b =>
    match m.lookup k with
    | some _ => expect b true (m.set k v)
    | none => expect b false m
  | .erase k, .bool b =>
    match m.lookup k with
    | some _ => expect b true (m.erase k)
    | none => expect b false m
  | .upsert k d, .bool b =>
    match m.lookup k with
    | some old => expect b false (m.set k (old + d))
    | none => expect b true (m.add k d)
  | .updatefn k d, .bool b =>
    match m.lookup k with
    | some old => expect b true (m.set k (old + d))
    | none => expect b false m
  | .erasefn k d, .bool b =>
    match m.lookup k with
    | some old => expect b true (if old == d then m.erase k else m.set k old)
    | none => expect b false m
  | .insert _ _, .fail _ => some m
  | .ioa _ _, .fail _ => some m
  | .upsert _ _, .fail _ => some m
  | .rehash _, .ok => some m
  | .rehash _, .fail _ => some m
  | .reserve _, .ok => some m
  | .reserve _, .fail _ => some m
  | .clear, .ok => some []
  | .sec body, .sec rs => secRun m body rs
  | _, _ => none

/-- run a sequence of calls on the abstract map -/
def runSpec (m : AMap Nat Nat) : List HOp → Option (AMap Nat Nat)
  | [] => some m
  | o :: rest =>
    match applySpec m o.op o.res with
    | some m' => runSpec m' rest
    | none => none

/-- equality of two association lists as finite maps: every key of either has the same `lookup` in both -/
def sameMap (a b : AMap Nat Nat) : Bool :=
  a.all (fun p => b.lookup p.1 == a.lookup p.1) && b.all (fun p => a.lookup p.1 == b.lookup p.1)

/-- the least response stamp of `q :: qs` -/
def minResp (q : HOp) (qs : List HOp) : Nat := qs.foldl (fun a p => min a p.resp) q.resp

/-- try every pending call as the next one.  `pre` (reversed) are the pending calls already tried, `post` those still
to try; a call may go next iff it was invoked no later than every pending response (`o.inv ≤ lim`) and its result
agrees with the specification; `k` continues with the remaining pending calls. -/
def tryEach (k : AMap Nat Nat → List HOp → Option (List HOp)) (m : AMap Nat Nat) (lim : Nat) :
    List HOp → List HOp → Option (List HOp)
  | _, [] => none
  | pre, o :: post =>
    let r :=
      if o.inv ≤ lim then
        match applySpec m o.op o.res with
        | some m' => k m' (pre.reverseAux post)
        | none => none
      else none
    match r with
    | some w => some (o :: w)
    | none => tryEach k m lim (o :: pre) post

/-- the Wing–Gong search: `pending` are the calls not yet linearized, `m` the current map; `fuel ≥ pending.length` -/
def search (final : AMap Nat Nat) : Nat → AMap Nat Nat → List HOp → Option (List HOp)
  | _, m, [] => if sameMap m final then some [] else none
  | 0, _, _ :: _ => none
  | fuel + 1, m, q :: qs => tryEach (search final fuel) m (minResp q qs) [] (q :: qs)

/-- the linearization found, if any -/
def checkWitness (m0 : AMap Nat Nat) (h : List HOp) (final : AMap Nat Nat) : Option (List HOp) :=
  search final h.length m0 h

/-- is the history linearizable? -/
def check (m0 : AMap Nat Nat) (h : List HOp) (final : AMap Nat Nat) : Bool :=
  (checkWitness m0 h final).isSome

/-! ### the same search with a cache of failed configurations

A configuration is (pending calls, current map).  The pending list always keeps the order of the history, so equal sets
of pending calls are equal lists.  A configuration from which the search failed is remembered and never explored
again: the number of explored configurations is then bounded by the number of distinct configurations (the product of
the per-thread positions times the reachable maps) instead of the number of interleavings. -/

/-- configurations known to have no linearization -/
abbrev Cache := List (List HOp × AMap Nat Nat)

def tryEachM (k : AMap Nat Nat → List HOp → Cache → Option (List HOp) × Cache) (m : AMap Nat Nat) (lim : Nat) :
    List HOp → List HOp → Cache → Option (List HOp) × Cache
  | _, [], c => (none, c)
  | pre, o :: post, c =>
    if o.inv ≤ lim then
      match applySpec m o.op o.res with
      | some m' =>
        match k m' (pre.reverseAux post) c with
        | (some w, c') => (some (o :: w), c')
        | (none, c') => tryEachM k m lim (o :: pre) post c'
      | none => tryEachM k m lim (o :: pre) post c
    else tryEachM k m lim (o :: pre) post c

def searchM (final : AMap Nat Nat) : Nat → AMap Nat Nat → List HOp → Cache → Option (List HOp) × Cache
  | _, m, [], c => (if sameMap m final then some [] else none, c)
  | 0, _, _ :: _, c => (none, c)
  | fuel + 1, m, q :: qs, c =>
    if c.contains (q :: qs, m) then (none, c)
    else
      match tryEachM (searchM final fuel) m (minResp q qs) [] (q :: qs) c with
      | (some w, c') => (some w, c')
      | (none, c') => (none, (q :: qs, m) :: c')

/-- the linearization found by the memoizing search, if any -/
def checkWitnessFast (m0 : AMap Nat Nat) (h : List HOp) (final : AMap Nat Nat) : Option (List HOp) :=
  (searchM final h.length m0 h []).1

/-- is the history linearizable? (memoizing search) -/
def checkFast (m0 : AMap Nat Nat) (h : List HOp) (final : AMap Nat Nat) : Bool :=
  (checkWitnessFast m0 h final).isSome

/-- every call is invoked before it responds -/
def wellFormedB (h : List HOp) : Bool := h.all (fun o => o.inv < o.resp)

/-- `order` respects real time: no call comes after one that was invoked after it responded -/
def realTimeB : List HOp → Bool
  | [] => true
  | o :: rest => rest.all (fun q => o.inv ≤ q.resp) && realTimeB rest

/-- re-validation of a claimed linearization `order` of `h` (independent of the search): a permutation of `h`,
respecting real time, that runs on the specification to `final` -/
def validWitness (m0 : AMap Nat Nat) (h order : List HOp) (final : AMap Nat Nat) : Bool :=
  order.isPerm h && realTimeB order &&
  (match runSpec m0 order with
   | some m => sameMap m final
   | none => false)

end Cuckoo.Lin
