import Cuckoo.Model.Ops
/-!
# The table invariant, the abstraction to a key→value map, and an executable twin of the invariant

`Inv` is the statement the proofs use; `checkInv` is a Bool-valued re-implementation that the driver
evaluates on every state it reaches (K2 self-check), so a wrong invariant shows up before any proof.
-/
namespace Cuckoo.Model
open Cuckoo
variable {κ ν : Type}

/-- stripe of bucket `b` has not been migrated yet -/
def Table.unmigB (c : Cfg κ) (t : Table κ ν) (b : Nat) : Bool :=
  match t.locks[c.lockInd b]? with
  | some lk => !lk.migrated
  | none => false

/-- a position of the *live view*: a cell of the current array, or a cell of the old array -/
inductive Loc
  | cur (b s : Nat)
  | old (b s : Nat)
deriving DecidableEq, Repr

/-- content of a live position: any cell of the current array; a cell of the old array only while its
stripe has not been migrated -/
def Table.at (c : Cfg κ) (t : Table κ ν) : Loc → Option (Slot κ ν)
  | .cur b s => t.cur.get c.S b s
  | .old b s =>
    match t.old with
    | some o => if t.unmigB c b then o.get c.S b s else none
    | none => none

def Table.Live (c : Cfg κ) (t : Table κ ν) (sl : Slot κ ν) : Prop := ∃ p, t.at c p = some sl

/-- sum of the per-stripe element counters -/
def Table.sumCnt (t : Table κ ν) : Int := t.locks.foldl (fun s l => s + l.cnt) (0 : Int)

/-- the table represents the association list `m` (keys unique): same pairs, and the counters sum to
its length -/
structure Rel (c : Cfg κ) (t : Table κ ν) (m : List (κ × ν)) : Prop where
  pairs : ∀ k v, (k, v) ∈ m ↔ ∃ tag, t.Live c ⟨tag, k, v⟩
  nodup : (m.map Prod.fst).Nodup
  count : t.sumCnt = (m.length : Int)

/-- a store is well formed for hashpower `hp`: right size, every element in one of its two candidate
buckets with its own tag -/
structure Store.WF (c : Cfg κ) (st : Store κ ν) : Prop where
  size : st.cells.size = 2 ^ st.hp * c.S
  place : ∀ b s sl, st.get c.S b s = some sl →
    sl.tag = c.tag sl.key ∧ (b = c.i1 st.hp sl.key ∨ b = c.i2 st.hp sl.key)

/-- number of un-migrated stripes -/
def Table.nUnmig (t : Table κ ν) : Nat := (t.locks.toList.filter (fun l => !l.migrated)).length

/-- number of live elements (executable; used by `checkInv` only) -/
def Table.liveCount (c : Cfg κ) (t : Table κ ν) : Nat :=
  t.cur.count +
  match t.old with
  | none => 0
  | some o =>
    (List.range o.cells.size).foldl (fun n i =>
      match o.cells.getD i none, t.locks[c.lockInd (i / c.S)]? with
      | some _, some lk => if lk.migrated then n else n + 1
      | _, _ => n) 0

structure Inv (c : Cfg κ) (t : Table κ ν) : Prop where
  S_pos : 0 < c.S
  M_pow : ∃ m, c.M = 2 ^ m
  /-- I1: sizes -/
  cur_wf : t.cur.WF c
  locks_pow : ∃ j, t.locks.size = 2 ^ j
  locks_le : t.locks.size ≤ c.M
  locks_ge : min (2 ^ t.hp) c.M ≤ t.locks.size
  /-- I3: migration bookkeeping -/
  rem_eq : t.rem = t.nUnmig
  pending : 0 < t.rem → ∃ o, t.old = some o ∧ o.WF c ∧ o.hp + 1 = t.hp ∧ c.M ≤ 2 ^ o.hp ∧ t.locks.size = c.M
  /-- I4: buckets of un-migrated stripes are still empty in the current array -/
  unmig_empty : ∀ b s, t.unmigB c b = true → t.cur.get c.S b s = none
  /-- I5: every key occurs at exactly one live position -/
  uniq : ∀ p p' sl sl', t.at c p = some sl → t.at c p' = some sl' → sl.key = sl'.key → p = p'
  /-- I7: the hashpower respects the configured maximum -/
  limit : t.mhp = noMaxHp ∨ t.hp ≤ t.mhp

/-! ### executable twin -/

def Store.wfB [DecidableEq κ] (c : Cfg κ) (st : Store κ ν) : Bool :=
  st.cells.size == 2 ^ st.hp * c.S &&
  (List.range st.cells.size).all fun i =>
    match st.cells.getD i none with
    | none => true
    | some sl =>
      let b := i / c.S
      sl.tag == c.tag sl.key && (b == c.i1 st.hp sl.key || b == c.i2 st.hp sl.key)

def isPow2 (n : Nat) : Bool := n > 0 && (List.range 65).any (fun j => n == 2 ^ j)

/-- keys of the live view, in order -/
def Table.liveKeys (c : Cfg κ) (t : Table κ ν) : List κ :=
  (t.cur.cells.toList.filterMap (fun x => x.map (·.key))) ++
  match t.old with
  | none => []
  | some o =>
    (List.range o.cells.size).filterMap fun i =>
      match o.cells.getD i none, t.locks[c.lockInd (i / c.S)]? with
      | some sl, some lk => if lk.migrated then none else some sl.key
      | _, _ => none

def nodupB [DecidableEq κ] : List κ → Bool
  | [] => true
  | x :: xs => !xs.contains x && nodupB xs

def Table.checkInv [DecidableEq κ] (c : Cfg κ) (t : Table κ ν) : List String :=
  let bad (b : Bool) (s : String) : List String := if b then [] else [s]
  bad (c.S > 0) "S_pos" ++
  bad (isPow2 c.M) "M_pow" ++
  bad (t.cur.wfB c) "cur_wf" ++
  bad (isPow2 t.locks.size) "locks_pow" ++
  bad (t.locks.size ≤ c.M) "locks_le" ++
  bad (min (2 ^ t.hp) c.M ≤ t.locks.size) "locks_ge" ++
  bad (t.rem == t.nUnmig) "rem_eq" ++
  bad (t.rem == 0 ||
        match t.old with
        | some o => o.wfB c && o.hp + 1 == t.hp && c.M ≤ 2 ^ o.hp && t.locks.size == c.M
        | none => false) "pending" ++
  bad ((List.range t.cur.cells.size).all fun i =>
        match t.cur.cells.getD i none, t.locks[c.lockInd (i / c.S)]? with
        | some _, some lk => lk.migrated
        | some _, none => false
        | none, _ => true) "unmig_empty" ++
  bad (nodupB (t.liveKeys c)) "uniq" ++
  bad (t.sumCnt == (t.liveCount c : Int)) "count" ++
  bad (t.mhp == noMaxHp || t.hp ≤ t.mhp) "limit"

end Cuckoo.Model
