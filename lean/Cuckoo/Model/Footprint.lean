import Cuckoo.Model.Conc
/-!
# Write footprint of a critical section (definition only, no proofs)

`WritesWithin c L t t'`: the table `t'` differs from `t` only inside the stripes `L` (indices into the current lock
array, `lock_ind(b) = b mod kMaxNumLocks`) and in the two migration scalars every lock holder may touch.
This is the model-side hypothesis of the two-phase-locking reduction (`Props/C01Red.lean`): every data access of a
lock-hold touches only locations guarded by a stripe the thread holds.
-/
namespace Cuckoo.Model
open Cuckoo
variable {κ ν : Type}

/-- `t'` differs from `t` only inside the stripes `L`:

* `cells`   – every cell of the current bucket array whose bucket belongs to another stripe is unchanged;
* `locks`   – the element counter and the migrated flag of every other stripe are unchanged;
* `nlocks`, `hp`, `csize`, `rc`, `gens`, `cfg` – the size of the lock array, the hashpower, the size of the bucket array,
  the resize counter, the superseded lock arrays and the settings are unchanged;
* `old`, `rem` – the old bucket array is never rewritten, only released (`none`, together with `rem = 0`, by the holder
  that migrates the last stripe); the number of un-migrated stripes only decreases
  (`num_remaining_lazy_rehash_locks_` is an atomic counter, `old_buckets_` is deallocated by whoever brings it to 0). -/
structure WritesWithin (c : Cfg κ) (L : List Nat) (t t' : Table κ ν) : Prop where
  cells  : ∀ b s, c.lockInd b ∉ L → t'.cur.get c.S b s = t.cur.get c.S b s
  locks  : ∀ l, l ∉ L → t'.locks[l]? = t.locks[l]?
  nlocks : t'.locks.size = t.locks.size
  hp     : t'.hp = t.hp
  csize  : t'.cur.cells.size = t.cur.cells.size
  rc     : t'.rc = t.rc
  gens   : t'.oldGens = t.oldGens
  cfg    : t'.mlf = t.mlf ∧ t'.mhp = t.mhp ∧ t'.workers = t.workers
  old    : t'.old = t.old ∨ (t'.old = none ∧ t'.rem = 0)
  rem    : t'.rem ≤ t.rem

/-- the stripes the last section of a displacing insertion takes: `lock_two(i1, i2)` for a path of depth 0,
`lock_three(i1, i2, to)` otherwise — computed from the *snapshot* hashpower `hpS` -/
def Conc.lastStripes (c : Cfg κ) (hpS : Nat) (k : κ) (to : Option PathRec) : List Nat :=
  match to with
  | none => [c.lockInd (c.i1 hpS k), c.lockInd (c.i2 hpS k)]
  | some to => [c.lockInd (c.i1 hpS k), c.lockInd (c.i2 hpS k), c.lockInd to.bucket]

end Cuckoo.Model
