/-!
# The file format of the C wrapper (`<table>_locked_table_write` / `<table>_read`), byte level

`write`: the element count as a `size_t` (8 bytes, little endian), then for every stored pair the raw bytes of the
key (`kw` bytes) followed by the raw bytes of the value (`vw` bytes), in iteration order.
`read`: one `fread` for the count, then `count` times one `fread` for a key and one for a value; any short read
makes the reader fail (it frees what it built and returns NULL — modelled as `none`).
-/
namespace Cuckoo.CFile

abbrev Byte := Nat

/-- little-endian encoding of `n` in `w` bytes -/
def encode : Nat → Nat → List Byte
  | 0, _ => []
  | w + 1, n => (n % 256) :: encode w (n / 256)

def decode : List Byte → Nat
  | [] => 0
  | b :: rest => b + 256 * decode rest

/-- `fread` of exactly `n` bytes: `none` on a short read -/
def take? (n : Nat) (bs : List Byte) : Option (List Byte × List Byte) :=
  if n ≤ bs.length then some (bs.take n, bs.drop n) else none

def writePairs (kw vw : Nat) : List (Nat × Nat) → List Byte
  | [] => []
  | (k, v) :: rest => encode kw k ++ encode vw v ++ writePairs kw vw rest

/-- the image of a table holding `ps` (in iteration order) -/
def write (kw vw : Nat) (ps : List (Nat × Nat)) : List Byte := encode 8 ps.length ++ writePairs kw vw ps

def readPairs (kw vw : Nat) : Nat → List Byte → Option (List (Nat × Nat))
  | 0, _ => some []
  | n + 1, bs =>
    match take? kw bs with
    | none => none
    | some (kb, r1) =>
      match take? vw r1 with
      | none => none
      | some (vb, r2) =>
        match readPairs kw vw n r2 with
        | none => none
        | some ps => some ((decode kb, decode vb) :: ps)

/-- the reader: `none` = NULL -/
def read (kw vw : Nat) (bs : List Byte) : Option (List (Nat × Nat)) :=
  match take? 8 bs with
  | none => none
  | some (hb, rest) => readPairs kw vw (decode hb) rest

end Cuckoo.CFile
