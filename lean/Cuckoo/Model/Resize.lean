import Cuckoo.Model.Search
/-!
# Insertion loop and the three resize paths (`cuckoo_insert_loop`, `cuckoo_insert`,
`cuckoo_fast_double`, `cuckoo_expand_simple`, `maybe_resize_locks`)

An operation returns the table it leaves behind *and* either a value or the exception it raised:
an exception never discards the state changes made before it (lazy migration, displacement).
-/
namespace Cuckoo.Model
open Cuckoo
variable {κ ν : Type}

/-- value or exception -/
inductive Res (α : Type)
  | ok (a : α)
  | err (e : Err)
deriving Repr

/-- where `cuckoo_insert_loop` ended -/
inductive InsPos
  | free (b s : Nat)     -- status ok: an empty slot in one of the two candidate buckets
  | dup (b s : Nat)      -- failure_key_duplicated
deriving Repr

/-- `maybe_resize_locks` -/
def Table.maybeResizeLocks (c : Cfg κ) (t : Table κ ν) (newBucketCount : Nat) : Table κ ν :=
  if t.locks.size < c.M ∧ t.locks.size < newBucketCount then
    let n := min c.M newBucketCount
    let fresh : Array Lock := Array.replicate (n - t.locks.size) ⟨0, true⟩
    { t with locks := t.locks ++ fresh, oldGens := t.oldGens ++ [t.locks.size] }
  else t

/-- `check_resize_validity` (the `hashpower() != orig_hp` clause is decided by the caller) -/
def Table.checkResize (c : Cfg κ) (t : Table κ ν) (auto : Bool) (newHp : Nat) : Option Err :=
  if t.mhp ≠ noMaxHp ∧ newHp > t.mhp then some .maxHpExceeded
  else if auto && t.lfBelow c then some .loadFactorTooLow
  else none

/-- every occupied cell of a store in index order -/
def Store.elems (st : Store κ ν) : List (Slot κ ν) := st.cells.toList.filterMap id

/-- first phase of `cuckoo_insert`: the two bucket scans -/
inductive TryIns
  | pos (p : InsPos)
  | needCuckoo

def tryInsert [DecidableEq κ] (c : Cfg κ) (st : Store κ ν) (i1 i2 : Nat) (k : κ) : TryIns :=
  match scanForInsert c st i1 k with
  | .dup s => .pos (.dup i1 s)
  | .free r1 =>
    match scanForInsert c st i2 k with
    | .dup s => .pos (.dup i2 s)
    | .free r2 =>
      match r1, r2 with
      | some s, _ => .pos (.free i1 s)
      | none, some s => .pos (.free i2 s)
      | none, none => .needCuckoo

/-- one iteration of the loop of `cuckoo_expand_simple` that inserts every element into the temporary
map (`new_map.insert`, normal mode); `ins` is the insertion loop on the temporary map -/
def rebuildStep (c : Cfg κ) (ins : Table κ ν → κ → Table κ ν × Res InsPos)
    (acc : Table κ ν × Res Unit) (sl : Slot κ ν) : Table κ ν × Res Unit :=
  match acc with
  | (nm, .err e) => (nm, .err e)
  | (nm, .ok _) =>
    match ins nm sl.key with
    | (nm, .err e) => (nm, .err e)
    | (nm, .ok (.dup _ _)) => (nm, .ok ())          -- cannot happen: keys are unique
    | (nm, .ok (.free b s)) => (nm.addTo c b s ⟨c.tag sl.key, sl.key, sl.val⟩, .ok ())

mutual

/-- `cuckoo_insert_loop` preceded by `snapshot_and_lock_two` -/
def insertLoop [DecidableEq κ] (c : Cfg κ) (locked : Bool) : Nat → Table κ ν → κ → Table κ ν × Res InsPos
  | 0, t, _ => (t, .err .fuel)
  | fuel + 1, t, k =>
    let hp := t.hp
    let i1 := c.i1 hp k
    let i2 := c.i2 hp k
    let t := t.lockTwoM c locked i1 i2
    match tryInsert c t.cur i1 i2 k with
    | .pos p => (t, .ok p)
    | .needCuckoo =>
      match runCuckoo c locked t i1 i2 with
      | (t, .ok b s) =>
        -- the duplicate re-check after the locks were dropped
        match cuckooFind c t.cur i1 i2 k with
        | some (b', s') => (t, .ok (.dup b' s'))
        | none => (t, .ok (.free b s))
      | (t, .fuel) => (t, .err .fuel)
      | (t, .full) =>
        match fastDouble c locked true fuel t hp with
        | (t, .err e) => (t, .err e)
        | (t, .ok _) => insertLoop c locked fuel t k

/-- `cuckoo_fast_double<TABLE_MODE, AUTO_RESIZE>(current_hp)` -/
def fastDouble [DecidableEq κ] (c : Cfg κ) (locked auto : Bool) : Nat → Table κ ν → Nat → Table κ ν × Res Bool
  | 0, t, _ => (t, .err .fuel)
  | fuel + 1, t, curHp =>
    if !c.nothrowMove then expandSimple c locked auto fuel t (curHp + 1)
    else
      let newHp := curHp + 1
      match t.checkResize c auto newHp with
      | some e => (t, .err e)
      | none =>
        if t.hp ≠ curHp then (t, .ok false)       -- failure_under_expansion
        else
          let t := t.migrateAll c
          if newHp > c.hpLimit then (t, .err .badAlloc)
          else
            let t := t.maybeResizeLocks c (2 ^ newHp)
            let old := t.cur
            let t := { t with old := some old, cur := Store.mk' c.S newHp }
            let t :=
              if 2 ^ old.hp < c.M then
                let rec mv (n b : Nat) (cur : Store κ ν) : Store κ ν :=
                  match n with
                  | 0 => cur
                  | n + 1 => mv n (b + 1) (moveBucket c old cur b)
                ({ t with cur := mv (2 ^ old.hp) 0 t.cur }).setRem 0
              else
                let t := { t with locks := t.locks.map (fun l => { l with migrated := false }),
                                  rem := t.locks.size }
                if locked then t.migrateAll c else t
            ({ t with rc := t.rc + 1 }, .ok true)

/-- `cuckoo_expand_simple<TABLE_MODE, AUTO_RESIZE>(new_hp)` (helper threads: none) -/
def expandSimple [DecidableEq κ] (c : Cfg κ) (locked auto : Bool) : Nat → Table κ ν → Nat → Table κ ν × Res Bool
  | 0, t, _ => (t, .err .fuel)
  | fuel + 1, t, newHp =>
    let _ := locked
    match t.checkResize c auto newHp with
    | some e => (t, .err e)
    | none =>
      let t := t.migrateAll c
      if newHp > c.hpLimit then (t, .err .badAlloc)
      else
        -- the temporary map follows this map's policy: no load-factor threshold for an explicit resize,
        -- the same maximum hashpower
        let nm : Table κ ν := { (Table.init c (2 ^ newHp * c.S)) with
                                workers := t.workers, mlf := if auto then t.mlf else 0.0, mhp := t.mhp }
        match t.cur.elems.foldl (rebuildStep c (insertLoop c false fuel)) (nm, .ok ()) with
        | (_, .err e) => (t, .err e)
        | (nm, .ok _) =>
          let nm := nm.migrateAll c
          let t := t.maybeResizeLocks c (2 ^ nm.hp)
          ({ t with cur := nm.cur, rc := t.rc + 1 }, .ok true)

end

/-- fuel that suffices for every nesting the code can reach below the allocation limit -/
def Cfg.fuel (c : Cfg κ) (_n : Nat) : Nat := 4 * (c.hpLimit + 2) + 8

end Cuckoo.Model
