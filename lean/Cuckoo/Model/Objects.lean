import Cuckoo.Model.Inv
/-!
# Several tables: copy, move, swap, assignment

In the functional model a table is a value, so a (member-wise) copy is the value itself and is independent of its
source by construction.  What has content is *which members* the special members transfer: the defaulted copy/move
members transfer all of them; `swap` is written out by hand in the C++ source.
-/
namespace Cuckoo.Model
variable {κ ν : Type}

/-- copy construction / copy assignment: every member (buckets, old buckets, all lock arrays with counters and flags,
lazy-migration counter, settings, resize counter) -/
def Table.copy (t : Table κ ν) : Table κ ν := t

/-- `swap` as repaired: the complete state is exchanged -/
def swapTables (a b : Table κ ν) : Table κ ν × Table κ ν := (b, a)

/-- `swap` as shipped (finding F6): `old_buckets_` and the lazy-migration counter stay behind -/
def swapShipped (a b : Table κ ν) : Table κ ν × Table κ ν :=
  ({ b with old := a.old, rem := a.rem }, { a with old := b.old, rem := b.rem })

/-! ## Allocators

A table object = a table value + the allocator instance it allocates with (allocators compare by identity `alloc`).
`Policy` = the three propagation traits of `std::allocator_traits`.  The defaulted copy/move members and `swap`
delegate to `bucket_container` (which implements the propagation rules by hand) and to `std::list`; the
allocator-extended constructors are written out in `cuckoohash_map.hh`: with an allocator that differs from the
source's they cannot adopt the source's list of lock arrays and rebuild only the current array
(`add_locks_from_other`) — the superseded generations are not carried over. -/

structure Policy where
  pocca : Bool   -- propagate_on_container_copy_assignment
  pocma : Bool   -- propagate_on_container_move_assignment
  pocs : Bool    -- propagate_on_container_swap
deriving Repr, DecidableEq

structure Obj (κ ν : Type) where
  t : Table κ ν
  alloc : Nat

/-- what an allocator-extended constructor keeps of the lock-array history -/
def Table.rebased (t : Table κ ν) (sameAlloc : Bool) : Table κ ν :=
  if sameAlloc then t else { t with oldGens := [] }

/-- `cuckoohash_map(const cuckoohash_map&)`: `select_on_container_copy_construction` of the source's allocator -/
def Obj.copyCtor (s : Obj κ ν) : Obj κ ν := ⟨s.t.copy, s.alloc⟩
/-- `cuckoohash_map(const cuckoohash_map&, const Allocator&)` -/
def Obj.copyCtorA (s : Obj κ ν) (a : Nat) : Obj κ ν := ⟨s.t.copy.rebased (a == s.alloc), a⟩
/-- `cuckoohash_map(cuckoohash_map&&)` -/
def Obj.moveCtor (s : Obj κ ν) : Obj κ ν := ⟨s.t, s.alloc⟩
/-- `cuckoohash_map(cuckoohash_map&&, const Allocator&)`: element-wise move when the allocators differ -/
def Obj.moveCtorA (s : Obj κ ν) (a : Nat) : Obj κ ν := ⟨s.t.rebased (a == s.alloc), a⟩
/-- copy assignment `d = s` -/
def Obj.copyAssign (p : Policy) (d s : Obj κ ν) : Obj κ ν := ⟨s.t.copy, if p.pocca then s.alloc else d.alloc⟩
/-- move assignment `d = std::move(s)` (element-wise when the allocator neither propagates nor is equal) -/
def Obj.moveAssign (p : Policy) (d s : Obj κ ν) : Obj κ ν := ⟨s.t, if p.pocma then s.alloc else d.alloc⟩
/-- `a.swap(b)`; defined by the standard only when the allocators propagate or are equal -/
def Obj.swapOK (p : Policy) (a b : Obj κ ν) : Bool := p.pocs || a.alloc == b.alloc
def Obj.swap (p : Policy) (a b : Obj κ ν) : Obj κ ν × Obj κ ν :=
  (⟨(swapTables a.t b.t).1, if p.pocs then b.alloc else a.alloc⟩,
   ⟨(swapTables a.t b.t).2, if p.pocs then a.alloc else b.alloc⟩)

end Cuckoo.Model
