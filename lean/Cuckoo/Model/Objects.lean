import Cuckoo.Model.Inv
/-!
# Several tables: copy, move, swap, assignment

In the functional model a table is a value, so a (member-wise) copy is the value itself and is independent of its
source by construction.  What has content is *which members* the special members transfer: the defaulted copy/move
members transfer all of them; `swap` is written out by hand in the C++ source.
-/
namespace Cuckoo.Model
variable {κ ν : Type}

/-- copy construction / copy assignment: every member (buckets, old buckets, all lock arrays with counters and flags,
lazy-migration counter, settings, resize counter) -/
def Table.copy (t : Table κ ν) : Table κ ν := t

/-- `swap` as repaired: the complete state is exchanged -/
def swapTables (a b : Table κ ν) : Table κ ν × Table κ ν := (b, a)

/-- `swap` as shipped (finding F6): `old_buckets_` and the lazy-migration counter stay behind -/
def swapShipped (a b : Table κ ν) : Table κ ν × Table κ ν :=
  ({ b with old := a.old, rem := a.rem }, { a with old := b.old, rem := b.rem })

end Cuckoo.Model
