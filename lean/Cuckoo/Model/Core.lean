import Cuckoo.Arith.Spec
import Cuckoo.Gen.Consts
/-!
# Executable model of the sequential table algorithm — state and primitives

One `Table` mirrors the data members of `cuckoohash_map`:
`cur`/`old` = `buckets_`/`old_buckets_`, `locks` = the current (last) lock array with its
per-stripe element counters and migrated flags, `oldGens` = sizes of the superseded lock arrays,
`rem` = `num_remaining_lazy_rehash_locks_`, `rc` = `resize_counter_`.
Core Lean only (the driver links this file).
-/
namespace Cuckoo.Model
open Cuckoo

/-- one occupied slot: partial tag, key, value -/
structure Slot (κ ν : Type) where
  tag : Nat
  key : κ
  val : ν
deriving Repr

/-- a bucket array: `2^hp` buckets of `S` slots, row-major -/
structure Store (κ ν : Type) where
  hp : Nat
  cells : Array (Option (Slot κ ν))

/-- per-stripe metadata kept inside each spinlock -/
structure Lock where
  cnt : Int
  migrated : Bool
deriving Repr, DecidableEq

/-- exceptions the C++ code can raise -/
inductive Err
  | maxHpExceeded      -- libcuckoo::maximum_hashpower_exceeded
  | loadFactorTooLow   -- libcuckoo::load_factor_too_low
  | badAlloc           -- std::bad_alloc
  | invalidArg         -- std::invalid_argument
  | outOfRange         -- std::out_of_range
  | fnThrow            -- exception thrown by a user functor
  | fuel               -- model fuel exhausted (never expected; reported as a divergence)
deriving Repr, DecidableEq

/-- static configuration of a table type -/
structure Cfg (κ : Type) where
  S : Nat                  -- SLOT_PER_BUCKET
  M : Nat                  -- kMaxNumLocks (a power of two)
  hash : κ → Nat           -- the user's hash function (arbitrary)
  simple : Bool            -- is_simple(): lookups skip the tag comparison
  nothrowMove : Bool       -- is_data_nothrow_move_constructible(): fast double allowed
  hpLimit : Nat            -- bucket arrays of more than 2^hpLimit buckets cannot be allocated

structure Table (κ ν : Type) where
  cur : Store κ ν
  old : Option (Store κ ν)   -- none = deallocated
  locks : Array Lock
  oldGens : List Nat
  rem : Nat
  rc : Nat
  mlf : Float
  mhp : Nat
  workers : Nat

variable {κ ν : Type}

/-! ### stores -/

def Store.mk' (S hp : Nat) : Store κ ν := ⟨hp, Array.replicate (2 ^ hp * S) none⟩

def Store.nb (st : Store κ ν) : Nat := 2 ^ st.hp

def Store.get (S : Nat) (st : Store κ ν) (b s : Nat) : Option (Slot κ ν) :=
  if s < S then (st.cells.getD (b * S + s) none) else none

def Store.occ (S : Nat) (st : Store κ ν) (b s : Nat) : Bool := (st.get S b s).isSome

def Store.set (S : Nat) (st : Store κ ν) (b s : Nat) (v : Option (Slot κ ν)) : Store κ ν :=
  { st with cells := st.cells.setIfInBounds (b * S + s) v }

/-- number of occupied cells -/
def Store.count (st : Store κ ν) : Nat := st.cells.foldl (fun n c => if c.isSome then n + 1 else n) 0

/-! ### hashing -/

def Cfg.tag (c : Cfg κ) (k : κ) : Nat := Spec.partialKey (c.hash k)
def Cfg.i1 (c : Cfg κ) (hp : Nat) (k : κ) : Nat := Spec.indexHash hp (c.hash k)
def Cfg.i2 (c : Cfg κ) (hp : Nat) (k : κ) : Nat := Spec.altIndex hp (c.tag k) (c.i1 hp k)
def Cfg.lockInd (c : Cfg κ) (b : Nat) : Nat := Spec.lockInd c.M b

/-! ### table accessors -/

def Table.hp (t : Table κ ν) : Nat := t.cur.hp

/-- `size()`: the sum of the per-stripe counters (clamped like the `static_cast<size_type>`) -/
def Table.size (t : Table κ ν) : Nat := (t.locks.foldl (fun s l => s + l.cnt) (0 : Int)).toNat

def Table.capacity (c : Cfg κ) (t : Table κ ν) : Nat := 2 ^ t.hp * c.S

def lfOf (size cap : Nat) : Float := Float.ofNat size / Float.ofNat cap

/-- `load_factor() < minimum_load_factor()` -/
def Table.lfBelow (c : Cfg κ) (t : Table κ ν) : Bool := lfOf t.size (t.capacity c) < t.mlf

def defaultMlf : Float := Float.ofBits (UInt64.ofNat Gen.Consts.DEFAULT_MINIMUM_LOAD_FACTOR_bits)
def noMaxHp : Nat := Gen.Consts.NO_MAXIMUM_HASHPOWER

/-- the constructor `cuckoohash_map(n)` -/
def Table.init (c : Cfg κ) (n : Nat) : Table κ ν :=
  let hp := Spec.reserveCalc c.S n
  { cur := Store.mk' c.S hp
    old := some (Store.mk' c.S 0)
    locks := Array.replicate (min (2 ^ hp) c.M) ⟨0, true⟩
    oldGens := []
    rem := 0
    rc := 0
    mlf := defaultMlf
    mhp := noMaxHp
    workers := 0 }

/-- adjust the element counter of the stripe that guards bucket `b` -/
def Table.bump (c : Cfg κ) (t : Table κ ν) (b : Nat) (d : Int) : Table κ ν :=
  let l := c.lockInd b
  { t with locks := t.locks.modify l (fun x => { x with cnt := x.cnt + d }) }

/-- `add_to_bucket` -/
def Table.addTo (c : Cfg κ) (t : Table κ ν) (b s : Nat) (sl : Slot κ ν) : Table κ ν :=
  ({ t with cur := t.cur.set c.S b s (some sl) }).bump c b 1

/-- `del_from_bucket` -/
def Table.delFrom (c : Cfg κ) (t : Table κ ν) (b s : Nat) : Table κ ν :=
  ({ t with cur := t.cur.set c.S b s none }).bump c b (-1)

/-- `num_remaining_lazy_rehash_locks(n)`: storing 0 deallocates the old array -/
def Table.setRem (t : Table κ ν) (n : Nat) : Table κ ν :=
  if n = 0 then { t with rem := 0, old := none } else { t with rem := n }

/-! ### migration (`move_bucket`, `rehash_lock`) -/

/-- `move_bucket`: split old bucket `b` into `b` and `b + 2^oldhp` of the current array -/
def moveBucket (c : Cfg κ) (old : Store κ ν) (cur : Store κ ν) (b : Nat) : Store κ ν :=
  let ohp := old.hp
  let nhp := cur.hp
  let nb := b + 2 ^ ohp
  let rec go (s : Nat) (fuel : Nat) (newSlot : Nat) (cur : Store κ ν) : Store κ ν :=
    match fuel with
    | 0 => cur
    | fuel + 1 =>
      match old.get c.S b s with
      | none => go (s + 1) fuel newSlot cur
      | some sl =>
        let oi := c.i1 ohp sl.key
        let oa := c.i2 ohp sl.key
        let ni := c.i1 nhp sl.key
        let na := c.i2 nhp sl.key
        if (b = oi ∧ ni = nb) ∨ (b = oa ∧ na = nb) then
          go (s + 1) fuel (newSlot + 1) (cur.set c.S nb newSlot (some sl))
        else
          go (s + 1) fuel newSlot (cur.set c.S b s (some sl))
  go 0 c.S 0 cur

/-- all old buckets guarded by stripe `l`: `l, l+M, l+2M, …` -/
def migrateBuckets (c : Cfg κ) (old : Store κ ν) (l : Nat) : Nat → Nat → Store κ ν → Store κ ν
  | 0, _, cur => cur
  | n + 1, b, cur => migrateBuckets c old l n (b + c.M) (moveBucket c old cur b)

/-- `rehash_lock<IS_LAZY>(l)` -/
def Table.rehashLock (c : Cfg κ) (t : Table κ ν) (l : Nat) (lazy : Bool) : Table κ ν :=
  match t.locks[l]? with
  | none => t
  | some lk =>
    if lk.migrated then t
    else
      match t.old with
      | none => t   -- cannot happen under the invariant (an un-migrated stripe implies an allocated old array)
      | some old =>
        let n := (2 ^ old.hp + c.M - 1 - l) / c.M    -- #{b | b ≡ l (mod M), b < 2^old.hp}
        let cur := migrateBuckets c old l n l t.cur
        let t := { t with cur := cur, locks := t.locks.modify l (fun x => { x with migrated := true }) }
        if lazy then
          if t.rem = 1 then { t with rem := 0, old := none } else { t with rem := t.rem - 1 }
        else t

/-- taking the stripe of bucket `b` in normal mode migrates it lazily -/
def Table.lockOne (c : Cfg κ) (t : Table κ ν) (b : Nat) : Table κ ν :=
  t.rehashLock c (c.lockInd b) true

def Table.lockTwo (c : Cfg κ) (t : Table κ ν) (b1 b2 : Nat) : Table κ ν :=
  let l1 := c.lockInd b1
  let l2 := c.lockInd b2
  let (l1, l2) := if l2 < l1 then (l2, l1) else (l1, l2)
  (t.rehashLock c l1 true).rehashLock c l2 true

def Table.lockThree (c : Cfg κ) (t : Table κ ν) (b1 b2 b3 : Nat) : Table κ ν :=
  let l0 := c.lockInd b1
  let l1 := c.lockInd b2
  let l2 := c.lockInd b3
  let (l1, l2) := if l2 < l1 then (l2, l1) else (l1, l2)
  let (l0, l2) := if l2 < l0 then (l2, l0) else (l0, l2)
  let (l0, l1) := if l1 < l0 then (l1, l0) else (l0, l1)
  ((t.rehashLock c l0 true).rehashLock c l1 true).rehashLock c l2 true

/-- migrate every stripe (not lazily) and release the old array: the loop at the start of
`cuckoo_fast_double`, and `rehash_with_workers` -/
def Table.migrateAll (c : Cfg κ) (t : Table κ ν) : Table κ ν :=
  let rec go (n : Nat) (l : Nat) (t : Table κ ν) : Table κ ν :=
    match n with
    | 0 => t
    | n + 1 => go n (l + 1) (t.rehashLock c l false)
  (go t.locks.size 0 t).setRem 0

/-- in locked-table mode nothing is locked or migrated -/
def Table.lockTwoM (c : Cfg κ) (locked : Bool) (t : Table κ ν) (b1 b2 : Nat) : Table κ ν :=
  if locked then t else t.lockTwo c b1 b2
def Table.lockOneM (c : Cfg κ) (locked : Bool) (t : Table κ ν) (b : Nat) : Table κ ν :=
  if locked then t else t.lockOne c b
def Table.lockThreeM (c : Cfg κ) (locked : Bool) (t : Table κ ν) (b1 b2 b3 : Nat) : Table κ ν :=
  if locked then t else t.lockThree c b1 b2 b3

/-! ### bucket scans -/

/-- `try_read_from_bucket`: the first slot holding `k` -/
def findInBucket [DecidableEq κ] (c : Cfg κ) (st : Store κ ν) (b : Nat) (k : κ) : Option Nat :=
  let tag := c.tag k
  let rec go (s fuel : Nat) : Option Nat :=
    match fuel with
    | 0 => none
    | fuel + 1 =>
      match st.get c.S b s with
      | some sl => if (c.simple || tag == sl.tag) && decide (sl.key = k) then some s else go (s + 1) fuel
      | none => go (s + 1) fuel
  go 0 c.S

/-- `cuckoo_find` -/
def cuckooFind [DecidableEq κ] (c : Cfg κ) (st : Store κ ν) (i1 i2 : Nat) (k : κ) : Option (Nat × Nat) :=
  match findInBucket c st i1 k with
  | some s => some (i1, s)
  | none =>
    match findInBucket c st i2 k with
    | some s => some (i2, s)
    | none => none

/-- result of `try_find_insert_bucket` -/
inductive InsScan
  | dup (s : Nat)
  | free (s : Option Nat)    -- the LAST empty slot, if any

def scanForInsert [DecidableEq κ] (c : Cfg κ) (st : Store κ ν) (b : Nat) (k : κ) : InsScan :=
  let tag := c.tag k
  let rec go (s fuel : Nat) (free : Option Nat) : InsScan :=
    match fuel with
    | 0 => .free free
    | fuel + 1 =>
      match st.get c.S b s with
      | some sl =>
        if (c.simple || tag == sl.tag) && decide (sl.key = k) then .dup s else go (s + 1) fuel free
      | none => go (s + 1) fuel (some s)
  go 0 c.S none

end Cuckoo.Model
