import Cuckoo.Model.Resize
/-!
# The public operations, in normal mode and inside a `locked_table`
-/
namespace Cuckoo.Model
open Cuckoo
variable {κ ν : Type}

/-- `UpsertContext` -/
inductive Ctx
  | newlyInserted
  | alreadyExisted
deriving Repr, DecidableEq

/-- what a user functor did: the value it leaves, whether it asks for erasure; or it threw (its
partial effect on the value stays) -/
inductive FnOut (ν : Type)
  | ret (v : ν) (erase : Bool)
  | throw (v : ν)

/-- record of one functor invocation: the context it received (uprase/upsert only) and the value it saw -/
structure Call (ν : Type) where
  ctx : Option Ctx
  seen : ν
deriving Repr

/-- result of an operation: value or exception, plus the functor invocations it made -/
structure Out (α ν : Type) where
  res : Res α
  calls : List (Call ν) := []
  /-- the key/value arguments were moved into the table (C16: only a successful insertion consumes them) -/
  consumed : Bool := false

def Table.setVal (c : Cfg κ) (t : Table κ ν) (b s : Nat) (v : ν) : Table κ ν :=
  match t.cur.get c.S b s with
  | some sl => { t with cur := t.cur.set c.S b s (some { sl with val := v }) }
  | none => t

/-- `snapshot_and_lock_two` + `cuckoo_find` -/
def Table.locate [DecidableEq κ] (c : Cfg κ) (locked : Bool) (t : Table κ ν) (k : κ) :
    Table κ ν × Option (Nat × Nat) :=
  let i1 := c.i1 t.hp k
  let i2 := c.i2 t.hp k
  let t := t.lockTwoM c locked i1 i2
  (t, cuckooFind c t.cur i1 i2 k)

/-- `find_fn` / `update_fn` / `erase_fn` with functor `fn`; `canErase` = erase_fn -/
def Table.fnOp [DecidableEq κ] (c : Cfg κ) (canErase : Bool) (t : Table κ ν) (k : κ) (fn : ν → FnOut ν) :
    Table κ ν × Out Bool ν :=
  match t.locate c false k with
  | (t, none) => (t, { res := .ok false })
  | (t, some (b, s)) =>
    match t.cur.get c.S b s with
    | none => (t, { res := .ok false })
    | some sl =>
      let call : Call ν := ⟨none, sl.val⟩
      match fn sl.val with
      | .throw v => (t.setVal c b s v, { res := .err .fnThrow, calls := [call] })
      | .ret v er =>
        let t := t.setVal c b s v
        let t := if canErase && er then t.delFrom c b s else t
        (t, { res := .ok true, calls := [call] })

/-- `find(key)` returning the value (throws `out_of_range`) -/
def Table.findVal [DecidableEq κ] (c : Cfg κ) (t : Table κ ν) (k : κ) : Table κ ν × Res ν :=
  match t.locate c false k with
  | (t, none) => (t, .err .outOfRange)
  | (t, some (b, s)) =>
    match t.cur.get c.S b s with
    | none => (t, .err .outOfRange)
    | some sl => (t, .ok sl.val)

/-- `uprase_fn(key, fn, val)`. `ctxAware` = the functor accepts an `UpsertContext`;
`mayErase = false` is `upsert` (the functor's result is ignored) -/
def Table.uprase [DecidableEq κ] (c : Cfg κ) (locked : Bool) (t : Table κ ν) (k : κ) (v : ν)
    (ctxAware mayErase : Bool) (fn : Ctx → ν → FnOut ν) : Table κ ν × Out Bool ν × Option (Nat × Nat) :=
  match insertLoop c locked (c.fuel t.cur.cells.size) t k with
  | (t, .err e) => (t, { res := .err e }, none)
  | (t, .ok pos) =>
    let (t, b, s, ctx) :=
      match pos with
      | .free b s => (t.addTo c b s ⟨c.tag k, k, v⟩, b, s, Ctx.newlyInserted)
      | .dup b s => (t, b, s, Ctx.alreadyExisted)
    let inserted := ctx == .newlyInserted
    if ctxAware || ctx == .alreadyExisted then
      match t.cur.get c.S b s with
      | none => (t, { res := .ok inserted, consumed := inserted }, some (b, s))
      | some sl =>
        let call : Call ν := ⟨if ctxAware then some ctx else none, sl.val⟩
        match fn ctx sl.val with
        | .throw v' => (t.setVal c b s v', { res := .err .fnThrow, calls := [call], consumed := inserted }, some (b, s))
        | .ret v' er =>
          let t := t.setVal c b s v'
          let t := if mayErase && er then t.delFrom c b s else t
          (t, { res := .ok inserted, calls := [call], consumed := inserted }, some (b, s))
    else (t, { res := .ok inserted, consumed := inserted }, some (b, s))

/-- `rehash(n)` / `locked_table::rehash(n)` -/
def Table.rehash [DecidableEq κ] (c : Cfg κ) (locked : Bool) (t : Table κ ν) (n : Nat) : Table κ ν × Res Bool :=
  if n = t.hp then (t, .ok false)
  else expandSimple c locked false (c.fuel t.cur.cells.size) t n

/-- `reserve(n)` -/
def Table.reserve [DecidableEq κ] (c : Cfg κ) (locked : Bool) (t : Table κ ν) (n : Nat) : Table κ ν × Res Bool :=
  let newHp := Spec.reserveCalc c.S n
  if newHp = t.hp then (t, .ok false)
  else expandSimple c locked false (c.fuel t.cur.cells.size) t newHp

/-- `cuckoo_clear` (under all locks) -/
def Table.clear (c : Cfg κ) (t : Table κ ν) : Table κ ν :=
  let t := { t with cur := Store.mk' c.S t.hp }
  let t := t.setRem 0
  { t with locks := t.locks.map (fun _ => ⟨0, true⟩) }

/-- `minimum_load_factor(mlf)` -/
def Table.setMlf (t : Table κ ν) (m : Float) : Table κ ν × Res Unit :=
  if m < 0.0 then (t, .err .invalidArg)
  else if m > 1.0 then (t, .err .invalidArg)
  else ({ t with mlf := m }, .ok ())

/-- `maximum_hashpower(mhp)` -/
def Table.setMhp (t : Table κ ν) (m : Nat) : Table κ ν × Res Unit :=
  if t.hp > m then (t, .err .invalidArg) else ({ t with mhp := m }, .ok ())

/-- `lock_table()`: all locks are taken and pending migration is finished -/
def Table.lockTable (c : Cfg κ) (t : Table κ ν) : Table κ ν := t.migrateAll c

/-! ### `locked_table` iterators: a position is (bucket index, slot) -/

abbrev Pos := Nat × Nat

def Store.endPos (st : Store κ ν) : Pos := (2 ^ st.hp, 0)

/-- first occupied cell at flat index ≥ `i`, as a position; `endPos` if none -/
def Store.firstFrom (S : Nat) (st : Store κ ν) (i : Nat) : Pos :=
  let n := 2 ^ st.hp * S
  let rec go (i fuel : Nat) : Pos :=
    match fuel with
    | 0 => st.endPos
    | fuel + 1 =>
      if i ≥ n then st.endPos
      else if (st.cells.getD i none).isSome then (i / S, i % S) else go (i + 1) fuel
  go i (n + 1 - i)

/-- last occupied cell at flat index < `i` (the caller guarantees one exists, as C++ requires) -/
def Store.lastBefore (S : Nat) (st : Store κ ν) (i : Nat) : Pos :=
  let rec go (i : Nat) : Pos :=
    match i with
    | 0 => (0, 0)
    | j + 1 => if (st.cells.getD j none).isSome then (j / S, j % S) else go j
  go i

def Store.flat (S : Nat) (p : Pos) : Nat := p.1 * S + p.2

/-- the private iterator constructor: stay if at the end or on an element, else step forward -/
def Store.itAt (S : Nat) (st : Store κ ν) (p : Pos) : Pos :=
  if p = st.endPos then p else st.firstFrom S (Store.flat S p)

def Store.itBegin (S : Nat) (st : Store κ ν) : Pos := st.itAt S (0, 0)
def Store.itNext (S : Nat) (st : Store κ ν) (p : Pos) : Pos := st.firstFrom S (Store.flat S p + 1)
def Store.itPrev (S : Nat) (st : Store κ ν) (p : Pos) : Pos := st.lastBefore S (Store.flat S p)

/-- the positions visited by `for (it = begin(); it != end(); ++it)` -/
def Store.traverse (S : Nat) (st : Store κ ν) : List Pos :=
  let rec go (p : Pos) (fuel : Nat) (acc : List Pos) : List Pos :=
    match fuel with
    | 0 => acc.reverse
    | fuel + 1 => if p = st.endPos then acc.reverse else go (st.itNext S p) fuel (p :: acc)
  go (st.itBegin S) (st.cells.size + 1) []

/-- the positions visited by `for (it = end(); it != begin(); ) { --it; … }` -/
def Store.traverseBack (S : Nat) (st : Store κ ν) : List Pos :=
  let b := st.itBegin S
  let rec go (p : Pos) (fuel : Nat) (acc : List Pos) : List Pos :=
    match fuel with
    | 0 => acc.reverse
    | fuel + 1 => if p = b then acc.reverse else let q := st.itPrev S p; go q fuel (q :: acc)
  go st.endPos (st.cells.size + 1) []

/-- `locked_table::insert(key, val)` -/
def Table.ltInsert [DecidableEq κ] (c : Cfg κ) (t : Table κ ν) (k : κ) (v : ν) : Table κ ν × Res (Pos × Bool) :=
  match insertLoop c true (c.fuel t.cur.cells.size) t k with
  | (t, .err e) => (t, .err e)
  | (t, .ok (.free b s)) =>
    let t := t.addTo c b s ⟨c.tag k, k, v⟩
    (t, .ok (t.cur.itAt c.S (b, s), true))
  | (t, .ok (.dup b s)) => (t, .ok (t.cur.itAt c.S (b, s), false))

/-- `locked_table::erase(iterator)` -/
def Table.ltEraseAt (c : Cfg κ) (t : Table κ ν) (p : Pos) : Table κ ν × Pos :=
  let t := t.delFrom c p.1 p.2
  (t, t.cur.itAt c.S p)

/-- `locked_table::find(key)` as a position -/
def Table.ltFind [DecidableEq κ] (c : Cfg κ) (t : Table κ ν) (k : κ) : Pos :=
  match (t.locate c true k).2 with
  | some (b, s) => t.cur.itAt c.S (b, s)
  | none => t.cur.endPos

/-- `locked_table::erase(key)` -/
def Table.ltErase [DecidableEq κ] (c : Cfg κ) (t : Table κ ν) (k : κ) : Table κ ν × Nat :=
  match (t.locate c true k).2 with
  | some (b, s) => (t.delFrom c b s, 1)
  | none => (t, 0)

/-- `locked_table::count(key)` -/
def Table.ltCount [DecidableEq κ] (c : Cfg κ) (t : Table κ ν) (k : κ) : Nat :=
  if t.ltFind c k = t.cur.endPos then 0 else 1

/-- `locked_table::at(key)`: the mapped value, or `std::out_of_range` -/
def Table.ltAt [DecidableEq κ] (c : Cfg κ) (t : Table κ ν) (k : κ) : Res ν :=
  let p := t.ltFind c k
  if p = t.cur.endPos then .err .outOfRange
  else match t.cur.get c.S p.1 p.2 with
    | some sl => .ok sl.val
    | none => .err .outOfRange

/-- `locked_table::equal_range(key)`: `[find(key), next)`, or `(end, end)` -/
def Table.ltEqualRange [DecidableEq κ] (c : Cfg κ) (t : Table κ ν) (k : κ) : Pos × Pos :=
  let p := t.ltFind c k
  if p = t.cur.endPos then (p, p) else (p, t.cur.itNext c.S p)

/-- `locked_table::operator[](key)`: `insert(key, mapped_type())` and a reference to the mapped value -/
def Table.ltIndex [DecidableEq κ] (c : Cfg κ) (t : Table κ ν) (k : κ) (dflt : ν) : Table κ ν × Res (Pos × Bool) :=
  t.ltInsert c k dflt

/-! ### stream serialization (`operator<<`, `operator>>`) — logical content of the stream -/

structure Wire (κ ν : Type) where
  hp : Nat
  cells : Array (Option (Slot κ ν))
  size : Nat
  mlf : Float
  mhp : Nat

def Table.write (t : Table κ ν) : Wire κ ν := ⟨t.hp, t.cur.cells, t.size, t.mlf, t.mhp⟩

/-- `operator>>` into an (active) locked table; `bump` = whether the resize counter is advanced -/
def Table.read (c : Cfg κ) (bump : Bool) (t : Table κ ν) (s : Wire κ ν) : Table κ ν × Res Unit :=
  let t := { t with cur := ⟨s.hp, s.cells⟩ }
  let t := t.maybeResizeLocks c (2 ^ s.hp)
  let t := { t with locks := t.locks.map (fun (l : Lock) => { l with cnt := 0 }) }
  let t := if s.size > 0 then { t with locks := t.locks.modify 0 (fun (l : Lock) => { l with cnt := (s.size : Int) }) } else t
  let t := if bump then { t with rc := t.rc + 1 } else t
  match t.setMlf s.mlf with
  | (t, .err e) => (t, .err e)
  | (t, .ok _) => t.setMhp s.mhp

end Cuckoo.Model
