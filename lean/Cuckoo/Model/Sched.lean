import Cuckoo.Model.Conc
/-!
# The schedule of a sequential operation

`Model/Conc.lean` cuts the concurrent operations into atomic critical sections; `Model/Core … Ops` is the sequential
replica that the differential harness (K2) ties to the code.  This file *computes*, for a sequential inserting call,
the list of sections it consists of, by mirroring the recursion of `insertLoop` / `runCuckoo` / `slotSearch` /
`buildPath` / `pathMove` / `fastDouble` (normal mode, `locked = false`).  Definitions only; `Props/C01Sched.lean`
proves that running the list with `Conc.exec` reproduces the sequential operation (table and response).

The single-section operations (`fnOp`, `rehash`, `reserve`, `clear`) need no definition here: their schedule is the
one-element list of their section.
-/
namespace Cuckoo.Model.Sched
open Cuckoo Cuckoo.Model Cuckoo.Model.Conc
variable {κ ν : Type}

/-- `slot_search`: one `lock_one` section per bucket dequeued by the BFS (mirrors `slotSearch.go`) -/
def slotSearchSched (c : Cfg κ) (hp : Nat) : Nat → Table κ ν → Array BSlot → Nat → List (Section κ ν)
  | 0, _, _, _ => []
  | fuel + 1, t, q, first =>
    match q[first]? with
    | none => []
    | some x =>
      lockSec c [x.bucket] ::
        (match bfsScan c hp (t.lockOne c x.bucket).cur x with
         | .inl _ => []
         | .inr ch => slotSearchSched c hp fuel (t.lockOne c x.bucket) (q ++ ch.toArray) (first + 1))

/-- `cuckoopath_search`: one `lock_one` section per record read (mirrors `buildPath.go`) -/
def buildPathSchedGo (c : Cfg κ) (hp : Nat) : Table κ ν → Nat → List Nat → List (Section κ ν)
  | _, _, [] => []
  | t, b, s :: rest =>
    lockSec c [b] ::
      (match (t.lockOne c b).cur.get c.S b s with
       | none => []
       | some sl => buildPathSchedGo c hp (t.lockOne c b) (Spec.altIndex hp (Spec.partialKey (c.hash sl.key)) b) rest)

def buildPathSched (c : Cfg κ) (hp : Nat) (t : Table κ ν) (i1 i2 : Nat) (x : BSlot) : List (Section κ ν) :=
  buildPathSchedGo c hp t (if (decodeSlots c.S (x.depth + 1) x.pathcode []).1 = 0 then i1 else i2)
    (decodeSlots c.S (x.depth + 1) x.pathcode []).2

section ins
variable [DecidableEq κ] (c : Cfg κ) (k : κ) (v : ν) (ctxAware mayErase : Bool) (fn : Ctx → ν → FnOut ν)

/-- hops of `cuckoopath_move`, from the end of the path (mirrors `pathMove.go`; `rev` is the reversed path).  Every hop
but the last is a `hopSec`; the last one is part of `insertLastSec` (lock_three, hop, re-check, add, functor).  A failed
hop ends the list (the attempt is abandoned). -/
def pathMoveSchedGo (hp rc : Nat) : Table κ ν → List PathRec → List (Section κ ν)
  | _, [] => []
  | t, to :: tl =>
    match tl with
    | [] => []
    | fr :: rest =>
      if rest.isEmpty then [insertLastSec c hp rc k v ctxAware mayErase fn fr (some to)]
      else
        hopSec c hp rc fr to ::
          (match hop c (t.lockTwo c fr.bucket to.bucket) fr to with
           | none => []
           | some t' => pathMoveSchedGo hp rc t' tl)

/-- `cuckoopath_move` (mirrors `pathMove`) -/
def pathMoveSched (hp rc : Nat) (t : Table κ ν) (path : List PathRec) : List (Section κ ν) :=
  match path with
  | [] => []
  | [p0] => [insertLastSec c hp rc k v ctxAware mayErase fn p0 none]
  | _ => pathMoveSchedGo c k v ctxAware mayErase fn hp rc t path.reverse

/-- what follows a `needCuckoo` answer of the first section (mirrors `runCuckoo.go` and the `.full` branch of
`insertLoop`).  `hp`, `rc`: the snapshot; `dfuel`: the fuel handed to `fastDouble`; `restart`: the schedule of the
whole insertion on the grown table. -/
def cuckooSched (hp rc dfuel : Nat) (restart : Table κ ν → List (Section κ ν)) :
    Nat → Table κ ν → List (Section κ ν)
  | 0, _ => []
  | fuel + 1, t =>
    slotSearchSched c hp (maxCuckooCount c.S + 1) t #[⟨c.i1 hp k, 0, 0⟩, ⟨c.i2 hp k, 1, 0⟩] 0 ++
    match slotSearch c false hp t (c.i1 hp k) (c.i2 hp k) with
    | (t1, none) =>
      doubleSec c dfuel hp ::
        (match fastDouble c false true dfuel t1 hp with
         | (t2, .ok _) => restart t2
         | (_, .err _) => [])
    | (t1, some x) =>
      buildPathSched c hp t1 (c.i1 hp k) (c.i2 hp k) x ++
      (pathMoveSched c k v ctxAware mayErase fn hp rc (buildPath c false hp t1 (c.i1 hp k) (c.i2 hp k) x).1
          (buildPath c false hp t1 (c.i1 hp k) (c.i2 hp k) x).2 ++
       match pathMove c false (buildPath c false hp t1 (c.i1 hp k) (c.i2 hp k) x).1 (c.i1 hp k) (c.i2 hp k)
           (buildPath c false hp t1 (c.i1 hp k) (c.i2 hp k) x).2 with
       | (_, true) => []
       | (t3, false) => cuckooSched hp rc dfuel restart fuel t3)

/-- the schedule of `insertLoop c false fuel t k` followed by the tail of `uprase_fn` -/
def insSched : Nat → Table κ ν → List (Section κ ν)
  | 0, _ => []
  | fuel + 1, t =>
    insertTrySec c k v ctxAware mayErase fn ::
      (match tryInsert c (t.lockTwo c (c.i1 t.hp k) (c.i2 t.hp k)).cur (c.i1 t.hp k) (c.i2 t.hp k) k with
       | .pos _ => []
       | .needCuckoo =>
         cuckooSched c k v ctxAware mayErase fn t.hp t.rc fuel (insSched fuel) 64
           (t.lockTwo c (c.i1 t.hp k) (c.i2 t.hp k)))

end ins

/-- **the schedule of the sequential `t.uprase c false k v ctxAware mayErase fn`** -/
def upraseSched [DecidableEq κ] (c : Cfg κ) (t : Table κ ν) (k : κ) (v : ν) (ctxAware mayErase : Bool)
    (fn : Ctx → ν → FnOut ν) : List (Section κ ν) :=
  insSched c k v ctxAware mayErase fn (c.fuel t.cur.cells.size) t

end Cuckoo.Model.Sched
