import Cuckoo.Proofs.LinSpec
import Cuckoo.Proofs.LinMemo
/-!
# C01 (oracle) — the executable linearizability checker is sound and complete, and its specification is `specOf`

`Model/Lin.lean` is an executable Wing–Gong search (`check`, `checkWitness`) over recorded histories of the real code.
Here:

* `Linearizable m0 h final` : some permutation of the history respects real time and runs on the abstract map from
  `m0` to a map equal (as a finite map) to `final`;
* `check_sound` / `check_complete` : `check m0 h final = true` iff `Linearizable m0 h final` (completeness for histories
  in which every call is invoked before it responds, `WellFormed` — decidable, `wellFormedB`);
* `checkFast_sound` / `checkFast_complete` / `checkFast_eq_check` : the same for the memoizing search (the one the
  driver runs: it never explores a failed configuration twice);
* `checkWitness_sound`, `validWitness_sound` : the linearization returned is one; so is any order accepted by the
  search-independent re-validation;
* `applySpec_is_specOf` : the per-call specification the checker uses is exactly the sequential specification
  `C01Conc.specOf` of the corresponding model call (same next map, the response projected to what the harness records);
  `linRun_gives_runSpec` : hence the linearization `C01Conc.conc_linearizable` produces is a `runSpec` run;
* `secRun_is_specRun` : a section is a `C02.specRun` in locked mode.
-/
namespace Cuckoo.Props.C01Lin
open Cuckoo Cuckoo.Model Cuckoo.Spec Cuckoo.Model.Conc Cuckoo.Lin

/-- the order respects real time: a call that responded before another was invoked comes first -/
def RealTime (order : List HOp) : Prop :=
  ∀ (i j : Nat) (hi : i < j) (hj : j < order.length), ¬ (order[j].resp < (order[i]'(Nat.lt_trans hi hj)).inv)

/-- **linearizability** of the history `h` from the map `m0` to the final contents `final` -/
def Linearizable (m0 : AMap Nat Nat) (h : List HOp) (final : AMap Nat Nat) : Prop :=
  ∃ order, order.Perm h ∧ RealTime order ∧ ∃ m, runSpec m0 order = some m ∧ sameMap m final = true

/-- every call is invoked before it responds (the harness stamps are global event indices) -/
def WellFormed (h : List HOp) : Prop := ∀ o ∈ h, o.inv < o.resp

theorem wellFormedB_iff (h : List HOp) : wellFormedB h = true ↔ WellFormed h := by
  simp [wellFormedB, WellFormed]

instance (h : List HOp) : Decidable (WellFormed h) := decidable_of_iff _ (wellFormedB_iff h)

/-- `sameMap` is equality as finite maps -/
theorem sameMap_spec (a b : AMap Nat Nat) : sameMap a b = true ↔ ∀ k, a.lookup k = b.lookup k :=
  Aux.sameMap_iff a b

private theorem realTime_iff (order : List HOp) : RealTime order ↔ Aux.RT order := by
  unfold RealTime Aux.RT
  rw [List.pairwise_iff_getElem]
  constructor
  · intro h i j hi hj hij
    exact Nat.le_of_not_lt (h i j hij hj)
  · intro h i j hij hj
    exact Nat.not_lt_of_le (h i j (Nat.lt_trans hij hj) hj hij)

/-- the order the search returns is a linearization -/
theorem checkWitness_sound (m0 : AMap Nat Nat) (h : List HOp) (final : AMap Nat Nat) (order : List HOp)
    (hc : checkWitness m0 h final = some order) :
    order.Perm h ∧ RealTime order ∧ ∃ m, runSpec m0 order = some m ∧ sameMap m final = true := by
  obtain ⟨a, b, c⟩ := Aux.search_sound final h.length m0 h order hc
  exact ⟨a, (realTime_iff order).mpr b, c⟩

/-- **soundness**: an accepted history is linearizable -/
theorem check_sound (m0 : AMap Nat Nat) (h : List HOp) (final : AMap Nat Nat)
    (hc : check m0 h final = true) : Linearizable m0 h final := by
  unfold check at hc
  cases hw : checkWitness m0 h final with
  | none => rw [hw] at hc; cases hc
  | some order => exact ⟨order, checkWitness_sound m0 h final order hw⟩

/-- **completeness**: a linearizable (well-formed) history is accepted -/
theorem check_complete (m0 : AMap Nat Nat) (h : List HOp) (final : AMap Nat Nat) (hwf : WellFormed h)
    (hl : Linearizable m0 h final) : check m0 h final = true := by
  obtain ⟨order, a, b, c⟩ := hl
  exact Aux.search_complete final h.length m0 h order (Nat.le_refl _) (fun o ho => Nat.le_of_lt (hwf o ho))
    ⟨a, (realTime_iff order).mp b, c⟩

/-- the checker decides linearizability -/
theorem check_iff (m0 : AMap Nat Nat) (h : List HOp) (final : AMap Nat Nat) (hwf : WellFormed h) :
    check m0 h final = true ↔ Linearizable m0 h final :=
  ⟨check_sound m0 h final, check_complete m0 h final hwf⟩

/-! ### the memoizing search -/

theorem checkWitnessFast_sound (m0 : AMap Nat Nat) (h : List HOp) (final : AMap Nat Nat) (order : List HOp)
    (hc : checkWitnessFast m0 h final = some order) :
    order.Perm h ∧ RealTime order ∧ ∃ m, runSpec m0 order = some m ∧ sameMap m final = true := by
  unfold checkWitnessFast at hc
  rcases hs : searchM final h.length m0 h [] with ⟨r, c⟩
  rw [hs] at hc
  simp only at hc
  subst hc
  obtain ⟨a, b, d⟩ := Aux.searchM_sound final h.length m0 h [] c order hs
  exact ⟨a, (realTime_iff order).mpr b, d⟩

theorem checkFast_sound (m0 : AMap Nat Nat) (h : List HOp) (final : AMap Nat Nat)
    (hc : checkFast m0 h final = true) : Linearizable m0 h final := by
  unfold checkFast at hc
  cases hw : checkWitnessFast m0 h final with
  | none => rw [hw] at hc; cases hc
  | some order => exact ⟨order, checkWitnessFast_sound m0 h final order hw⟩

theorem checkFast_complete (m0 : AMap Nat Nat) (h : List HOp) (final : AMap Nat Nat) (hwf : WellFormed h)
    (hl : Linearizable m0 h final) : checkFast m0 h final = true := by
  obtain ⟨order, a, b, d⟩ := hl
  unfold checkFast checkWitnessFast
  rcases hs : searchM final h.length m0 h [] with ⟨r, c⟩
  obtain ⟨_, hn⟩ := Aux.searchM_spec final h.length m0 h [] r c (Nat.le_refl _)
    (fun o ho => Nat.le_of_lt (hwf o ho)) (fun e he => by cases he) hs
  cases r with
  | some w => rfl
  | none => exact absurd ⟨order, a, (realTime_iff order).mp b, d⟩ (hn rfl)

theorem checkFast_iff (m0 : AMap Nat Nat) (h : List HOp) (final : AMap Nat Nat) (hwf : WellFormed h) :
    checkFast m0 h final = true ↔ Linearizable m0 h final :=
  ⟨checkFast_sound m0 h final, checkFast_complete m0 h final hwf⟩

/-- both searches give the same verdict -/
theorem checkFast_eq_check (m0 : AMap Nat Nat) (h : List HOp) (final : AMap Nat Nat) (hwf : WellFormed h) :
    checkFast m0 h final = check m0 h final := by
  have := (checkFast_iff m0 h final hwf).trans (check_iff m0 h final hwf).symm
  cases h1 : checkFast m0 h final <;> cases h2 : check m0 h final <;> simp_all

/-- the search-independent re-validation accepts exactly the linearizations -/
theorem validWitness_sound (m0 : AMap Nat Nat) (h order : List HOp) (final : AMap Nat Nat) :
    validWitness m0 h order final = true ↔
      (order.Perm h ∧ RealTime order ∧ ∃ m, runSpec m0 order = some m ∧ sameMap m final = true) := by
  rw [Aux.validWitness_iff, realTime_iff]; rfl

/-- **the checker's specification is the specification of the refinement theorems**: for every call that is not a
section, the observed result `r` is possible on `m` and leads to `m'` iff the sequential specification `specOf` of the
model call `callOf op` allows a response that the harness records as `r` (`Projects`) and leads to the same `m'` -/
theorem applySpec_is_specOf (m m' : AMap Nat Nat) (op : LOp) (call : C01Conc.Call Nat Nat) (r : LRes)
    (hc : callOf op = some call) :
    applySpec m op r = some m' ↔ ∃ resp, C01Conc.specOf m call resp m' ∧ Projects op resp r :=
  Aux.spec_all m m' op call r hc

/-- every call but a section is a model call -/
theorem callOf_isSome (op : LOp) : (callOf op).isSome = true ∨ ∃ body, op = .sec body := by
  cases op <;> simp [callOf]

/-- a schedule whose final sections run on the abstract map (`C01Conc.linRun`, the conclusion of
`C01Conc.conc_linearizable`) is a run of the checker's specification: `evs` are the scheduled sections, each with the
history call it belongs to, the model call, and its response if it is the call's final section -/
theorem linRun_gives_runSpec (evs : List (HOp × C01Conc.Call Nat Nat × Option (Resp Nat))) (m m' : AMap Nat Nat)
    (hcall : ∀ e ∈ evs, callOf e.1.op = some e.2.1)
    (hproj : ∀ e ∈ evs, ∀ resp, e.2.2 = some resp → Projects e.1.op resp e.1.res)
    (hrun : C01Conc.linRun m (evs.map (·.2.1)) (evs.map (·.2.2)) m') :
    runSpec m ((evs.filter (·.2.2.isSome)).map (·.1)) = some m' :=
  Aux.linRun_runSpec evs m m' hcall hproj hrun

/-! ### sections -/

/-- a section is specified by running its calls in order -/
theorem applySpec_sec (m : AMap Nat Nat) (body : List LtOp) (rs : List LtRes) :
    applySpec m (.sec body) (.sec rs) = secRun m body rs := rfl

/-- **a section is a locked-mode run of `C02.specRun`**: for a body of calls that are operations of `C02.Op`
(`insert`, `erase`, `clear`, `rehash`, `reserve`), the answers `rs` are possible on `m` and lead to `m'` iff the
executed part of the body (`SecObs`: all of it, or up to the first call that threw), bracketed by `lockTable` /
`unlock`, is a `specRun` from `m` to `m'` whose observations the harness records as `rs` -/
theorem secRun_is_specRun (m m' : AMap Nat Nat) (body : List LtOp) (rs : List LtRes)
    (hb : ∀ op ∈ body, (ltToOp op).isSome = true) :
    secRun m body rs = some m' ↔
      ∃ ops obs, SecObs body rs ops obs ∧
        C02.specRun false m (.lockTable :: ops ++ [.unlock]) (.unit (.ok ()) :: obs ++ [.unit (.ok ())]) m' :=
  Aux.secRun_specRun m m' body rs hb

/-- the read-only calls of a section (not operations of `C02.Op`) answer from the current map and leave it unchanged:
`find` the `lookup`, `size` the number of pairs (`C05.size_eq_card`) -/
theorem ltStep_find (m m' : AMap Nat Nat) (k : Nat) (r : LtRes) :
    ltStep m (.find k) r = some m' ↔ r = .val (m.lookup k) ∧ m' = m := Aux.ltStep_find m m' k r

theorem ltStep_size (m m' : AMap Nat Nat) (r : LtRes) :
    ltStep m .size r = some m' ↔ r = .size m.length ∧ m' = m := Aux.ltStep_size m m' r

theorem ltStep_other (m m' : AMap Nat Nat) (r : LtRes) :
    ltStep m .other r = some m' ↔ r = .ok ∧ m' = m := Aux.ltStep_other m m' r

/-! ### examples (k = 5, v = 7) -/

/-- two threads, sequentially consistent and in real-time order -/
example : check [] [⟨0, 0, 1, .insert 5 7, .bool true⟩, ⟨1, 2, 3, .find 5, .val (some 7)⟩,
    ⟨0, 4, 6, .erase 5, .bool true⟩, ⟨1, 5, 7, .insert 5 9, .bool true⟩] [(5, 9)] = true := by decide

/-- the classic non-linearizable history: T0's insert returns, THEN T1's find starts and misses the key -/
example : check [] [⟨0, 0, 1, .insert 5 7, .bool true⟩, ⟨1, 2, 3, .find 5, .val none⟩] [(5, 7)] = false := by decide

/-- the same answers are fine when the calls overlap (the find is linearized first) -/
example : check [] [⟨0, 0, 2, .insert 5 7, .bool true⟩, ⟨1, 1, 3, .find 5, .val none⟩] [(5, 7)] = true := by decide

example : checkWitness [] [⟨0, 0, 2, .insert 5 7, .bool true⟩, ⟨1, 1, 3, .find 5, .val none⟩] [(5, 7)] =
    some [⟨1, 1, 3, .find 5, .val none⟩, ⟨0, 0, 2, .insert 5 7, .bool true⟩] := by decide

/-- a stale read: the update to 8 completed before the find started, yet the find returns the old value 7 -/
example : check [(5, 7)] [⟨0, 0, 1, .update 5 8, .bool true⟩, ⟨1, 2, 3, .find 5, .val (some 7)⟩] [(5, 8)] = false := by
  decide

/-- a lost update: two overlapping `upsert (+1)` both applied, final value must be 2 -/
example : check [] [⟨0, 0, 2, .upsert 5 1, .bool true⟩, ⟨1, 1, 3, .upsert 5 1, .bool false⟩] [(5, 1)] = false := by decide
example : check [] [⟨0, 0, 2, .upsert 5 1, .bool true⟩, ⟨1, 1, 3, .upsert 5 1, .bool false⟩] [(5, 2)] = true := by decide

/-- the final contents are compared as finite maps (order irrelevant) -/
example : check [] [⟨0, 0, 1, .insert 1 1, .bool true⟩, ⟨0, 2, 3, .insert 2 2, .bool true⟩] [(1, 1), (2, 2)] = true := by
  decide

/-- a section is one atomic step: inside it the inserted key is seen, the size is exact; an overlapping `find` sees
either everything or nothing of it -/
example : check [] [⟨0, 0, 5, .sec [.insert 5 7, .find 5, .size, .erase 5, .insert 6 1],
      .sec [.bool true, .val (some 7), .size 1, .bool true, .bool true]⟩,
    ⟨1, 1, 4, .find 6, .val none⟩] [(6, 1)] = true := by decide

/-- … but it cannot observe the middle of the section (key 5 is present only inside it) -/
example : check [] [⟨0, 0, 5, .sec [.insert 5 7, .erase 5], .sec [.bool true, .bool true]⟩,
    ⟨1, 1, 4, .find 5, .val (some 7)⟩] [] = false := by decide

/-- a failed automatic expansion leaves the map unchanged -/
example : check [] [⟨0, 0, 1, .insert 5 7, .fail .maxhp⟩, ⟨1, 2, 3, .find 5, .val none⟩] [] = true := by decide

/-- the memoizing search on the same histories -/
example : checkFast [] [⟨0, 0, 1, .insert 5 7, .bool true⟩, ⟨1, 2, 3, .find 5, .val none⟩] [(5, 7)] = false := by decide
example : checkFast [] [⟨0, 0, 2, .insert 5 7, .bool true⟩, ⟨1, 1, 3, .find 5, .val none⟩] [(5, 7)] = true := by decide

/-- a call inside a section throws: the section ends there, the earlier calls have taken effect -/
example : check [] [⟨0, 0, 1, .sec [.insert 5 7, .insert 6 1, .erase 5], .sec [.bool true, .fail .lftl]⟩] [(5, 7)] = true := by
  decide

end Cuckoo.Props.C01Lin
