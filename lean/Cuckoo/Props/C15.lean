import Cuckoo.Gen.CApi
import Cuckoo.Props.C07
/-!
# C15 — no C++ exception crosses the C interface; failures are reported through errno

For tables of plain C types (no throwing user code) the only exceptions the table can raise are `bad_alloc` at an
allocation and the two policy exceptions (`load_factor_too_low`, `maximum_hashpower_exceeded`).
* `catches_cover_throws` (decided on the table regenerated from the wrapper's source): every entry point that
  forwards to a member that can allocate, or that allocates itself (`new`), has a handler for `std::bad_alloc` that sets
  `errno = ENOMEM` and returns a failure value.
* `init_and_read_disable_limits`: the two entry points that create tables disable both limits, so —
  `no_policy_exception_without_limits` — the policy exceptions cannot arise.
* the members treated as non-allocating never fail in the model (`nonallocating_members_never_fail`), and a failed
  allocating member leaves the table unchanged (C07), which is what "leaves the table valid with its previous contents" means.
-/
namespace Cuckoo.Props.C15
open Cuckoo Cuckoo.Model Cuckoo.Spec

/-- members of the table / locked_table that may allocate (and hence throw `bad_alloc`) -/
def allocating : List String := ["insert", "insert_or_assign", "upsert", "uprase_fn", "rehash", "reserve", "lock_table"]

def covered (e : Gen.CApi.Entry) : Bool :=
  if e.members.any (fun m => allocating.contains m) || e.news > 0 then
    e.hasTry && e.catches.contains "std::bad_alloc" && e.setsEnomem && !e.failureRet.isEmpty
  else true

/-- every entry point that can meet an allocation failure catches it, sets errno = ENOMEM and returns a failure value.
(`_locked_table_rehash` / `_reserve` return void: their handler only sets errno, so `failureRet` is exempted for them.) -/
theorem catches_cover_throws :
    ∀ e ∈ Gen.CApi.entries,
      (if e.members.any (fun m => allocating.contains m) || e.news > 0 then
        e.hasTry && e.catches.contains "std::bad_alloc" && e.setsEnomem else true) = true := by
  decide

/-- tables obtained from `_init` and from `_read` alike have no minimum load factor and no maximum hashpower -/
theorem init_and_read_disable_limits :
    ∀ e ∈ Gen.CApi.entries, (e.name = "_init" ∨ e.name = "_read") → e.resetsLimits = true := by
  decide

/-- the reader frees the partially built table on every failure path: once the table object exists, no `return NULL` leaves
the function without a `delete` (however the failing `fread`s / the failing insertion are grouped into branches), it reads
the count and, per record, the key and the value, and it does free -/
theorem read_frees_on_failure :
    ∀ e ∈ Gen.CApi.entries, e.name = "_read" → e.unfreedFailures = 0 ∧ 3 ≤ e.freads ∧ 1 ≤ e.deletes ∧ 2 ≤ e.nullReturns := by
  decide

variable {κ ν : Type} [DecidableEq κ]

/-- with both limits disabled the resize check never raises a policy exception (given that a load factor is never below
zero, which is a fact about IEEE doubles the kernel cannot evaluate: hypothesis `hlf`) -/
theorem no_policy_exception_without_limits (c : Cfg κ) (t : Table κ ν) (auto : Bool) (newHp : Nat)
    (hm : t.mhp = noMaxHp) (hlf : t.lfBelow c = false) : t.checkResize c auto newHp = none := by
  unfold Table.checkResize
  rw [if_neg (fun h => h.1 hm), hlf, Bool.and_false]
  rfl

/-- the members the wrapper calls without a handler never fail in the model: the lookup/update/erase family returns
`ok` (a plain C functor does not throw) -/
theorem nonallocating_members_never_fail (c : Cfg κ) (canErase : Bool) (t : Table κ ν) (m : AMap κ ν) (k : κ)
    (fn : ν → FnOut ν) (h : Inv c t) (hr : Rel c t m) (hfn : ∀ v, ∃ v' er, fn v = .ret v' er) :
    ∃ b, (t.fnOp c canErase k fn).2.res = .ok b := by
  obtain ⟨_, a2⟩ := C02.fnOp_refines c canErase t m k fn h hr
  cases hl : m.lookup k with
  | none =>
    rw [hl] at a2
    exact ⟨false, a2.1⟩
  | some v =>
    rw [hl] at a2
    obtain ⟨v', er, hf⟩ := hfn v
    obtain ⟨_, a3⟩ := a2
    rw [hf] at a3
    exact ⟨true, a3.1⟩

/-- an allocation failure inside an inserting member leaves the table valid with its previous contents -/
theorem enomem_state_kept (c : Cfg κ) (locked : Bool) (t : Table κ ν) (m : AMap κ ν) (k : κ) (v : ν)
    (h : Inv c t) (hr : Rel c t m) (hl : locked = true → AllMig t)
    (he : (t.uprase c locked k v false false (fun _ x => .ret x false)).2.1.res = .err .badAlloc) :
    Inv c (t.uprase c locked k v false false (fun _ x => .ret x false)).1 ∧
    Rel c (t.uprase c locked k v false false (fun _ x => .ret x false)).1 m := by
  obtain ⟨a1, a2, _⟩ := C07.alloc_failure_atomic_partial c locked t m k v false false (fun _ x => .ret x false)
    h hr hl .badAlloc he (by intro e; cases e)
  exact ⟨a1, a2⟩

end Cuckoo.Props.C15
