import Cuckoo.Model.CFile
import Cuckoo.Gen.CApi
import Cuckoo.Props.C02
import Cuckoo.Proofs.CFileLemmas
/-!
# C14 — the C wrapper behaves exactly like the C++ table it wraps

* **Forwarding**: `Gen/CApi.lean` is regenerated from `libcuckoo-c/cuckoo_table_template.cc` on every run (text scan
  cross-checked against clang's AST).  `capi_forwards` states that every entry point calls exactly the C++ member(s)
  the interface documents for it (the table `spec` below is that documentation, entry by entry); the behaviour of
  those members is C02/C09/C17.  K6 drives all entry points in lock step with a C++ table and compares every return
  value, out-parameter and the contents.
* **File format** (`Model/CFile.lean`, byte level): reading a written file gives back the same pairs; reading
  **every** proper prefix of a written file fails (NULL).
-/
namespace Cuckoo.Props.C14
open Cuckoo Cuckoo.CFile

/-- the documented mapping: entry point ↦ C++ members it must forward to (iterator/box operations forward to nothing).
`_read` builds its table like `_init` (both limits disabled — finding F7, cf. `C15.init_and_read_disable_limits`) and then
inserts the decoded pairs -/
def spec : List (String × List String) := [
  ("_init", ["maximum_hashpower", "minimum_load_factor"]), ("_read", ["insert", "maximum_hashpower", "minimum_load_factor"]), ("_free", []),
  ("_hashpower", ["hashpower"]), ("_bucket_count", ["bucket_count"]), ("_empty", ["empty"]), ("_size", ["size"]),
  ("_capacity", ["capacity"]), ("_load_factor", ["load_factor"]),
  ("_find_fn", ["find_fn"]), ("_update_fn", ["update_fn"]), ("_upsert", ["upsert"]), ("_erase_fn", ["erase_fn"]),
  ("_find", ["find"]), ("_contains", ["contains"]), ("_update", ["update"]), ("_insert", ["insert"]),
  ("_insert_or_assign", ["insert_or_assign"]), ("_erase", ["erase"]), ("_rehash", ["rehash"]), ("_reserve", ["reserve"]),
  ("_clear", ["clear"]), ("_lock_table", []),
  ("_locked_table_free", []), ("_locked_table_unlock", ["unlock"]), ("_locked_table_is_active", ["is_active"]),
  ("_locked_table_hashpower", ["hashpower"]), ("_locked_table_bucket_count", ["bucket_count"]),
  ("_locked_table_empty", ["empty"]), ("_locked_table_size", ["size"]), ("_locked_table_capacity", ["capacity"]),
  ("_locked_table_load_factor", ["load_factor"]),
  ("_locked_table_begin", ["begin"]), ("_locked_table_cbegin", ["cbegin"]), ("_locked_table_end", ["end"]),
  ("_locked_table_cend", ["cend"]), ("_iterator_free", []), ("_const_iterator_free", []),
  ("_locked_table_clear", ["clear"]), ("_locked_table_insert", ["insert"]), ("_locked_table_erase_it", ["erase"]),
  ("_locked_table_erase_const_it", ["erase"]), ("_locked_table_erase", ["erase"]), ("_locked_table_find", ["find"]),
  ("_locked_table_find_const", ["find"]), ("_locked_table_rehash", ["rehash"]), ("_locked_table_reserve", ["reserve"]),
  ("_locked_table_write", ["begin", "end", "size"]),   -- the loop over the elements (a range-based for is begin()/end())
  ("_iterator_set", []), ("_const_iterator_set", []),
  ("_locked_table_set_begin", ["begin"]), ("_locked_table_set_cbegin", ["cbegin"]),
  ("_locked_table_set_end", ["end"]), ("_locked_table_set_cend", ["cend"]),
  ("_iterator_equal", []), ("_const_iterator_equal", []), ("_iterator_key", []), ("_const_iterator_key", []),
  ("_iterator_mapped", []), ("_const_iterator_mapped", []), ("_iterator_increment", []), ("_const_iterator_increment", []),
  ("_iterator_decrement", []), ("_const_iterator_decrement", [])]

/-- every entry point of the current source forwards to exactly the documented members, and there is no undocumented
entry point -/
theorem capi_forwards : Gen.CApi.entries.map (fun e => (e.name, e.members)) = spec := by
  decide

/-- the writer emits one count and one record per pair, nothing else: the image length is determined by the count -/
theorem write_length (kw vw : Nat) (ps : List (Nat × Nat)) : (write kw vw ps).length = 8 + ps.length * (kw + vw) := by
  unfold write
  rw [List.length_append, encode_length, writePairs_length]

/-- **file round trip**: reading a written file yields the same pairs in the same order (for keys/values that fit their
widths and a count that fits a size_t) -/
theorem file_roundtrip (kw vw : Nat) (ps : List (Nat × Nat)) (hlen : ps.length < 256 ^ 8)
    (hfit : ∀ p ∈ ps, p.1 < 256 ^ kw ∧ p.2 < 256 ^ vw) : read kw vw (write kw vw ps) = some ps := by
  unfold CFile.read write
  rw [take?_append 8 _ _ (encode_length 8 _)]
  simp only [decode_encode 8 _ hlen]
  have h := readPairs_writePairs kw vw ps [] hfit
  rw [List.append_nil] at h
  exact h

/-- **truncation**: reading any proper prefix of a written file fails cleanly (the reader returns NULL) — for every
truncation point of every serialized table -/
theorem truncated_file_rejected (kw vw : Nat) (ps : List (Nat × Nat)) (hlen : ps.length < 256 ^ 8) (hw : 0 < kw + vw)
    (n : Nat) (hn : n < (write kw vw ps).length) : read kw vw ((write kw vw ps).take n) = none := by
  have _ := hw
  unfold write at hn
  rw [List.length_append, encode_length] at hn
  unfold CFile.read write
  by_cases h8 : n < 8
  · rw [take?_short 8 _ (by rw [List.length_take]; omega)]
  · rw [take_append_ge _ _ _ (by rw [encode_length]; omega), encode_length,
      take?_append 8 _ _ (encode_length 8 _)]
    simp only [decode_encode 8 _ hlen]
    exact readPairs_truncated kw vw ps (n - 8) (by omega)

/-- the table built by the reader from a complete file represents exactly the written pairs: inserting the decoded
pairs one by one into a fresh table (what `_read` does) yields a table whose abstract contents are those pairs, provided
no insertion fails -/
theorem read_builds_same_table [DecidableEq Nat] (c : Model.Cfg Nat) (hS : 0 < c.S) (hM : ∃ j, c.M = 2 ^ j)
    (ps : List (Nat × Nat)) (hnd : (ps.map Prod.fst).Nodup) (n : Nat) :
    let ops : List (C02.Op Nat Nat) := ps.map (fun p => C02.Op.uprase p.1 p.2 false false (fun _ v => .ret v false))
    ∃ m', C02.specRun false [] ops (C02.run c ⟨(Model.Table.init c n : Model.Table Nat Nat), false⟩ ops).2 m' ∧
      C02.Good c (C02.run c ⟨(Model.Table.init c n : Model.Table Nat Nat), false⟩ ops).1 m' := by
  intro ops
  have _ := hnd
  exact C02.seq_refines_from_init c n hS hM ops

/-! non-vacuity -/
example : read 4 4 (write 4 4 [(1, 10), (70000, 20)]) = some [(1, 10), (70000, 20)] := by decide
example : read 4 4 ((write 4 4 [(1, 10), (70000, 20)]).take 23) = none := by decide

end Cuckoo.Props.C14
