import Cuckoo.Proofs.ProtoInv
/-!
# C06 — an active locked_table owns the table exclusively and hands it back intact (protocol part)

A locked section is the span during which its thread is `owner` in the protocol model (from the end of
`lock_all` to its first release).  During that span no other thread is validated, can become validated, or can
touch a bucket; every change of the table's shape inside the section (growth, shrinking, stream extraction) must
be followed by a counter bump before the first release, so every operation parked on a lock fails its validation
afterwards and restarts from the state the section left.  The sequential content of the section (it finishes the
pending migration on creation, its operations refine the map) is C02 (`lockTable_refines`, `ltInsert_refines`, …)
and C12 for stream extraction.
-/
namespace Cuckoo.Props.C06
open Cuckoo.Proto

/-- while a section is active nobody else is inside a validated critical section -/
theorem section_excludes_others (s : PS) (h : Reach s) (z t : Tid) (hz : (s.th z).owner = true) (hne : t ≠ z) :
    (s.th t).validated = false := by
  have _ := hne
  cases hv : (s.th t).validated with
  | false => rfl
  | true => exact ((reach_inv s h).owner_not_val hz hv).elim

/-- and nobody else can pass validation while it is active: a counter load of another thread never validates it -/
theorem no_validation_during_section (s s' : PS) (h : Reach s) (z t : Tid) (hz : (s.th z).owner = true) (hne : t ≠ z)
    (ha : accept s (.rcLoad t) = some s') : (s'.th t).validated = false := by
  have _ := hne
  have hi := reach_inv s h
  simp only [accept] at ha
  split at ha
  next hp =>
    split at ha
    next hrc => exact (hi.owner_not_pend hz hp hrc).elim
    next hrc =>
      cases ha
      simp only [upd_same]
      obtain ⟨l, -, hv, -⟩ := hi.pend t hp
      exact hv
  next hp =>
    cases ha
    simp only [upd_same]
    cases hv : (s.th t).validated with
    | false => rfl
    | true => exact (hi.owner_not_val hz hv).elim

/-- the owner cannot give up a lock between a change of the table's shape and the counter bump -/
theorem no_release_while_dirty (s : PS) (t : Tid) (l : LockId) (hd : (s.th t).dirty = true) :
    accept s (.release t l) = none := by
  simp only [accept, hd, if_true]
  split <;> rfl

/-- hence an operation that took its snapshot before the section's last resize re-validates and restarts:
its snapshot counter differs from the current one once the section has released anything -/
theorem parked_ops_revalidate (s s' : PS) (h : Reach s) (t : Tid) (hp : (s.th t).pendingVal = true) (hold : (s.th t).snapRc < s.rc)
    (ha : accept s (.rcLoad t) = some s') : (s'.th t).mustRelease = true ∧ (s'.th t).validated = false := by
  have hst : (s.th t).snapRc ≠ s.rc := by omega
  simp only [accept, hp, hst, if_true, if_false] at ha
  cases ha
  simp only [upd_same, true_and]
  obtain ⟨l, -, hv, -⟩ := (reach_inv s h).pend t hp
  exact hv

/-- growth inside the section never releases ownership: after appending an array the owner still owns the table -/
theorem growth_keeps_ownership (s s' : PS) (h : Reach s) (t : Tid) (n : Nat) (ha : accept s (.append t n) = some s') :
    (s'.th t).owner = true ∧ s'.holdsAllCur t = true := by
  have hi' := accept_inv s s' _ (reach_inv s h) ha
  have ho : (s'.th t).owner = true := by
    simp only [accept] at ha
    split at ha
    next hg =>
      cases ha
      simp only [upd_same]; exact hg.1
    · cases ha
  exact ⟨ho, (holdsGen_cur_iff s' hi'.gens_ne t).1 (hi'.owner_all t ho).1⟩

/-- only an owner changes the hashpower, the bucket array or the lock arrays -/
theorem only_owner_resizes (s s' : PS) (t : Tid) (e : Ev)
    (he : (∃ v, e = .storeHp t v) ∨ (∃ n, e = .append t n) ∨ e = .bumpRc t) (ha : accept s e = some s') :
    (s.th t).owner = true := by
  rcases he with ⟨v, rfl⟩ | ⟨n, rfl⟩ | rfl
  · simp only [accept] at ha
    split at ha
    next hg => exact hg
    · cases ha
  · simp only [accept] at ha
    split at ha
    next hg => exact hg.1
    · cases ha
  · simp only [accept] at ha
    split at ha
    next hg => exact hg
    · cases ha

/-! non-vacuity: a section that grows the lock array, resizes, bumps and releases; the parked reader restarts -/
example : (run (init 1 2)
    [.rcLoad 1, .hpLoad 1, .genLoad 1,
     .allBegin 0, .acquire 0 ⟨0,0⟩, .acquire 0 ⟨0,1⟩, .allEnd 0, .append 0 4, .storeHp 0 2, .bumpRc 0,
     .release 0 ⟨0,0⟩, .release 0 ⟨0,1⟩, .release 0 ⟨1,0⟩, .release 0 ⟨1,1⟩, .release 0 ⟨1,2⟩, .release 0 ⟨1,3⟩, .sectionEnd 0,
     .acquire 1 ⟨0,1⟩, .rcLoad 1, .release 1 ⟨0,1⟩]).isSome = true := by decide
/-- a section that replaces the table without advancing the counter cannot release (finding F2) -/
example : (run (init 1 2)
    [.allBegin 0, .acquire 0 ⟨0,0⟩, .acquire 0 ⟨0,1⟩, .allEnd 0, .storeHp 0 2, .release 0 ⟨0,0⟩]).isSome = false := by decide

end Cuckoo.Props.C06
