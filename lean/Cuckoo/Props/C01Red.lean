import Cuckoo.Proofs.FineAux9
/-!
# C01Red — reduction: under the locking protocol every lock-hold ("episode") is atomic

`Model/Fine.lean` refines the protocol's transition system to single data accesses: threads read and write memory
locations one at a time, arbitrarily interleaved, a location being touched only under the stripe lock that guards it
in the current lock array (`Proto.accept … (.access …)`), and a hold being two-phase (rule T: no `acquire`/`append`
after the first `release` of the hold).  The theorems below say that such an execution is *serializable with each
hold atomic*: executing the committed episodes one after the other, in the order of their commit points (first
release), every read returns exactly the value the thread saw in the concurrent execution, the final memory is the
memory of the concurrent execution, and every thread performs exactly its own sequence of accesses, hold by hold.
This is the two-phase-locking argument that the other property files use as "a lock-protected block is atomic".

`serialize G hp n mem0 tr = some g` : `tr` is accepted from the initial state (`n` locks, memory `mem0`) and `g`
carries the final fine state `g.fs`, the committed episodes `g.E` (commit order), the open logs `g.opn`, and the
hold counters `g.hold`.
-/
namespace Cuckoo.Props.C01Red
open Cuckoo.Proto Cuckoo.Fine

variable {V : Type} [DecidableEq V]

/-- the ghost construction never blocks: every trace accepted by `Fine.run` has a serialization, with the same state -/
theorem serialize_total (G : Nat → Nat → Nat) (hp n : Nat) (mem0 : Nat → V) (tr : List (FEv V)) (s : FS V)
    (h : Fine.run G (Fine.init hp n mem0) tr = some s) : ∃ g, serialize G hp n mem0 tr = some g ∧ g.fs = s :=
  grun_fs tr (ginit hp n mem0) s h

theorem serialize_run (G : Nat → Nat → Nat) (hp n : Nat) (mem0 : Nat → V) (tr : List (FEv V)) (g : GS V)
    (h : serialize G hp n mem0 tr = some g) : Fine.run G (Fine.init hp n mem0) tr = some g.fs :=
  grun_run tr (ginit hp n mem0) g h

theorem serialize_inv (G : Nat → Nat → Nat) (hp n : Nat) (hn : 0 < n) (mem0 : Nat → V) (tr : List (FEv V)) (g : GS V)
    (h : serialize G hp n mem0 tr = some g) : FInv G mem0 g :=
  grun_inv tr _ g (ginit_inv G hp n hn mem0) h

/-- **1.** The serial execution of the committed episodes, each atomic, in commit order, succeeds — every read
returns the value that was read in the concurrent execution — and its final memory agrees with the concurrent memory
on every location that no pre-commit (open) log has written. -/
theorem episodes_serializable (G : Nat → Nat → Nat) (hp n : Nat) (hn : 0 < n) (mem0 : Nat → V) (tr : List (FEv V))
    (g : GS V) (h : serialize G hp n mem0 tr = some g) :
    ∃ am, runAccs mem0 (g.E.flatMap (·.accs)) = some am ∧ ∀ x, (∀ t, x ∉ wlocs (g.opn t)) → am x = g.fs.mem x := by
  have hi := serialize_inv G hp n hn mem0 tr g h
  obtain ⟨am, hrun, hK2, hK1⟩ := hi.ser
  refine ⟨am, hrun, ?_⟩
  intro x hx
  by_cases hex : ∃ t, x ∈ locs (g.opn t)
  · obtain ⟨t, ht⟩ := hex
    obtain ⟨mt, hmt, hag⟩ := hK1 t
    rw [← hag x ht]
    exact (runAccs_unwritten _ _ _ hmt x (hx t)).symm
  · exact (hK2 x (fun t ht => hex ⟨t, ht⟩)).symm

/-- … moreover each open log is itself consistent: executed after the committed episodes it reads what its thread
read, and produces the concurrent memory on the locations it touches -/
theorem open_log_consistent (G : Nat → Nat → Nat) (hp n : Nat) (hn : 0 < n) (mem0 : Nat → V) (tr : List (FEv V))
    (g : GS V) (h : serialize G hp n mem0 tr = some g) (t : Tid) :
    ∃ mt, runAccs mem0 (g.E.flatMap (·.accs) ++ g.opn t) = some mt ∧ ∀ x ∈ locs (g.opn t), mt x = g.fs.mem x := by
  have hi := serialize_inv G hp n hn mem0 tr g h
  obtain ⟨am, hrun, -, hK1⟩ := hi.ser
  obtain ⟨mt, hmt, hag⟩ := hK1 t
  refine ⟨mt, ?_, hag⟩
  have : runAccs mem0 (g.E.flatMap (·.accs)) = some am := hrun
  rw [runAccs_append, this]; exact hmt

/-- **2.** When all open logs are empty the serial execution ends in exactly the concurrent memory … -/
theorem quiescent_memory_eq_open_empty (G : Nat → Nat → Nat) (hp n : Nat) (hn : 0 < n) (mem0 : Nat → V) (tr : List (FEv V))
    (g : GS V) (h : serialize G hp n mem0 tr = some g) (hq : ∀ t, g.opn t = []) :
    runAccs mem0 (g.E.flatMap (·.accs)) = some g.fs.mem := by
  obtain ⟨am, hrun, hag⟩ := episodes_serializable G hp n hn mem0 tr g h
  rw [hrun]
  congr 1
  funext x
  apply hag
  intro t; rw [hq t]; simp [wlocs]

/-- … in particular when no thread holds a lock -/
theorem quiescent_memory_eq (G : Nat → Nat → Nat) (hp n : Nat) (hn : 0 < n) (mem0 : Nat → V) (tr : List (FEv V))
    (g : GS V) (h : serialize G hp n mem0 tr = some g) (hq : ∀ t, (g.fs.ps.th t).held = []) :
    runAccs mem0 (g.E.flatMap (·.accs)) = some g.fs.mem := by
  apply quiescent_memory_eq_open_empty G hp n hn mem0 tr g h
  intro t
  have hi := serialize_inv G hp n hn mem0 tr g h
  cases ho : g.opn t with
  | nil => rfl
  | cons a L =>
    exact absurd (hq t) (may_touch_held hi.pinv (hi.open_ok t (by rw [ho]; simp)).1)

/-- **3.** Every thread makes, in the serialization, exactly the accesses it made in the concurrent execution — same
locations, same values read and written, same order: its episodes in `E`, in order, followed by its open log. -/
theorem thread_view_preserved (G : Nat → Nat → Nat) (hp n : Nat) (hn : 0 < n) (mem0 : Nat → V) (tr : List (FEv V))
    (g : GS V) (h : serialize G hp n mem0 tr = some g) (t : Tid) :
    (g.E.filter fun p => decide (p.tid = t)).flatMap (·.accs) ++ g.opn t = accsOf t tr := by
  have hv := viewQ_run (G := G) (mem0 := mem0) t (fun _ => true) tr _ g (ginit_inv G hp n hn mem0) h
  rw [accsSel_true t tr _ g h] at hv
  simpa [viewQ, selE, flat, ginit] using hv

/-- **4.** An episode is one hold of one thread.  (a) The episodes of a thread are numbered by its holds, in order
(so a key `(thread, hold)` occurs at most once); (b) an episode belongs to a past hold, or to the current hold of a
thread that has committed and still holds a lock; (c) for every thread `t` and hold number `k`, the episode `(t,k)` —
or, before the commit, the open log — consists of exactly the accesses that `t` made during its `k`-th hold. -/
theorem episode_is_one_hold (G : Nat → Nat → Nat) (hp n : Nat) (hn : 0 < n) (mem0 : Nat → V) (tr : List (FEv V))
    (g : GS V) (h : serialize G hp n mem0 tr = some g) :
    (g.E.Pairwise fun p q => p.tid = q.tid → p.hold < q.hold) ∧
    (∀ p ∈ g.E, p.hold < g.hold p.tid ∨
      (p.hold = g.hold p.tid ∧ g.fs.shrunk p.tid = true ∧ (g.fs.ps.th p.tid).held ≠ [])) ∧
    (∀ t k, (g.E.filter fun p => decide (p.tid = t) && p.hold == k).flatMap (·.accs) ++
        (if g.hold t = k then g.opn t else []) = accsOfHold G t k (ginit hp n mem0) tr) := by
  have hi := serialize_inv G hp n hn mem0 tr g h
  refine ⟨hi.sorted, ?_, ?_⟩
  · intro p hp
    rcases hi.keys p hp with h1 | h1
    · exact Or.inl h1
    · exact Or.inr ⟨h1.1, h1.2, (hi.shr _ h1.2).1⟩
  · intro t k
    have hv := viewQ_run (G := G) (mem0 := mem0) t (fun j => j == k) tr _ g (ginit_inv G hp n hn mem0) h
    simpa [viewQ, selE, flat, ginit, accsOfHold] using hv

/-- … hence a committed episode is literally the list of accesses of its thread during that one hold -/
theorem episode_accs (G : Nat → Nat → Nat) (hp n : Nat) (hn : 0 < n) (mem0 : Nat → V) (tr : List (FEv V))
    (g : GS V) (h : serialize G hp n mem0 tr = some g) (p : Ep V) (hp' : p ∈ g.E) :
    p.accs = accsOfHold G p.tid p.hold (ginit hp n mem0) tr := by
  have hi := serialize_inv G hp n hn mem0 tr g h
  obtain ⟨-, -, h3⟩ := episode_is_one_hold G hp n hn mem0 tr g h
  rw [← h3 p.tid p.hold]
  have hopn : (if g.hold p.tid = p.hold then g.opn p.tid else []) = [] := by
    split
    next he =>
      rcases hi.keys p hp' with h1 | h1
      · omega
      · exact hi.open_nil_of_shrunk h1.2
    · rfl
  rw [hopn, List.append_nil]
  obtain ⟨E1, E2, hE⟩ := List.append_of_mem hp'
  have hnd := hi.nodup
  rw [hE] at hnd
  rw [List.pairwise_append] at hnd
  obtain ⟨-, h2, h3'⟩ := hnd
  rw [List.pairwise_cons] at h2
  have e1 : E1.filter (fun q => decide (q.tid = p.tid) && q.hold == p.hold) = [] := by
    rw [List.filter_eq_nil_iff]
    intro q hq hh
    simp only [Bool.and_eq_true, decide_eq_true_eq, beq_iff_eq] at hh
    exact h3' q hq p (List.mem_cons_self ..) hh
  have e2 : E2.filter (fun q => decide (q.tid = p.tid) && q.hold == p.hold) = [] := by
    rw [List.filter_eq_nil_iff]
    intro q hq hh
    simp only [Bool.and_eq_true, decide_eq_true_eq, beq_iff_eq] at hh
    exact h2.1 q hq ⟨hh.1.symm, hh.2.symm⟩
  rw [hE, List.filter_append, List.filter_cons, e1, e2]
  simp

/-- **5.** The commit order respects real time: if, at some point of the trace (after `tr1`), hold `k` of thread `t`
has ended and hold `j` of thread `u` has not begun, then the episode of the former precedes the episode of the
latter in `E` (whenever both get committed). -/
theorem commit_order_respects_real_time (G : Nat → Nat → Nat) (hp n : Nat) (hn : 0 < n) (mem0 : Nat → V)
    (tr1 tr2 : List (FEv V)) (g1 g2 : GS V)
    (h1 : serialize G hp n mem0 tr1 = some g1) (h2 : serialize G hp n mem0 (tr1 ++ tr2) = some g2)
    (t k u j : Nat) (hA : k < g1.hold t)
    (hB : g1.hold u ≤ j) (hB' : g1.hold u = j → (g1.fs.ps.th u).held = [])
    (p q : Ep V) (hp' : p ∈ g2.E) (hpt : p.tid = t) (hpk : p.hold = k)
    (hq' : q ∈ g2.E) (hqt : q.tid = u) (hqk : q.hold = j) :
    ∃ A B C, g2.E = A ++ p :: (B ++ q :: C) := by
  have hi1 := serialize_inv G hp n hn mem0 tr1 g1 h1
  have h12 : grun G g1 tr2 = some g2 := by
    have := h2
    simp only [serialize] at this h1
    rw [grun_append, h1] at this
    exact this
  obtain ⟨-, rest, hkeys, hrest⟩ := keys_run tr2 g1 g2 h12
  simp only [keysOf] at hkeys
  rw [List.map_eq_append_iff] at hkeys
  obtain ⟨Ea, Eb, hE, hEa, hEb⟩ := hkeys
  have hpa : p ∈ Ea := by
    rw [hE, List.mem_append] at hp'
    rcases hp' with hp' | hp'
    · exact hp'
    · have : (p.tid, p.hold) ∈ rest := by rw [← hEb]; exact List.mem_map_of_mem hp'
      have := hrest _ this
      simp only [hpt, hpk] at this
      omega
  have hqb : q ∈ Eb := by
    rw [hE, List.mem_append] at hq'
    rcases hq' with hq' | hq'
    · have : (q.tid, q.hold) ∈ g1.E.map fun p => (p.tid, p.hold) := by rw [← hEa]; exact List.mem_map_of_mem hq'
      rw [List.mem_map] at this
      obtain ⟨q0, hq0, hq0k⟩ := this
      simp only [Prod.mk.injEq] at hq0k
      rcases hi1.keys q0 hq0 with h3 | h3
      · rw [hq0k.1, hq0k.2, hqt, hqk] at h3; omega
      · rw [hq0k.1, hq0k.2, hqt, hqk] at h3
        exact absurd (hB' h3.1.symm) (hi1.shr u h3.2).1
    · exact hq'
  obtain ⟨A, B1, hA'⟩ := List.append_of_mem hpa
  obtain ⟨B2, C, hB2⟩ := List.append_of_mem hqb
  exact ⟨A, B1 ++ B2, C, by rw [hE, hA', hB2]; simp⟩

/-! ### non-vacuity

Four stripes, location `x` guarded by stripe `x % size`, memory initially `0`.  In `tr1` thread 0 takes locks 1 and 2,
reads and writes location 1, thread 1 takes lock 3 and writes location 3; thread 0 then *releases lock 1 (commit) and
keeps writing location 2 under lock 2*, thread 1 commits, thread 0 reads location 2 again (this late read is inserted
into thread 0's episode, in the middle of `E`, before thread 1's episode) and ends its hold. -/

def G0 : Nat → Nat → Nat := fun s x => x % s
def pre (t : Tid) : List (FEv Nat) := [.sync (.rcLoad t), .sync (.hpLoad t), .sync (.genLoad t)]
def show4 (m : Option (Nat → Nat)) : Option (List Nat) := m.map fun m => [m 0, m 1, m 2, m 3]

def tr1 : List (FEv Nat) :=
  pre 0 ++ [.sync (.acquire 0 ⟨0,1⟩), .sync (.rcLoad 0), .sync (.acquire 0 ⟨0,2⟩), .data 0 (.read 1 0), .data 0 (.write 1 5)] ++
  pre 1 ++ [.sync (.acquire 1 ⟨0,3⟩), .sync (.rcLoad 1), .data 1 (.write 3 7),
    .sync (.release 0 ⟨0,1⟩), .data 0 (.write 2 9), .sync (.release 1 ⟨0,3⟩), .data 0 (.read 2 9), .sync (.release 0 ⟨0,2⟩)]

example : (serialize G0 3 4 (fun _ => 0) tr1).map (·.E) =
    some [⟨0, 0, [.read 1 0, .write 1 5, .write 2 9, .read 2 9]⟩, ⟨1, 0, [.write 3 7]⟩] := by decide
example : show4 ((serialize G0 3 4 (fun _ => 0) tr1).map (·.fs.mem)) = some [0, 5, 9, 7] := by decide
example : show4 (((serialize G0 3 4 (fun _ => 0) tr1).map (·.E)).bind fun E => runAccs (fun _ => 0) (flat E)) =
    some [0, 5, 9, 7] := by decide

/-- a table owner (`lock_all`) writes, appends a lock array (the guard of every location changes), writes again,
releases everything; a second thread then reads under a lock of the new array -/
def tr2 : List (FEv Nat) :=
  [.sync (.allBegin 0), .sync (.acquire 0 ⟨0,0⟩), .sync (.acquire 0 ⟨0,1⟩), .sync (.allEnd 0),
   .data 0 (.write 1 4), .sync (.append 0 3), .sync (.storeHp 0 4), .sync (.bumpRc 0), .data 0 (.read 1 4),
   .data 0 (.write 2 6), .sync (.release 0 ⟨0,0⟩), .sync (.release 0 ⟨0,1⟩), .sync (.release 0 ⟨1,0⟩),
   .sync (.release 0 ⟨1,1⟩), .sync (.release 0 ⟨1,2⟩), .sync (.opEnd 0 false)] ++
  pre 1 ++ [.sync (.acquire 1 ⟨1,2⟩), .sync (.rcLoad 1), .data 1 (.read 2 6), .sync (.release 1 ⟨1,2⟩)]

example : (serialize G0 3 2 (fun _ => 0) tr2).map (·.E) =
    some [⟨0, 0, [.write 1 4, .read 1 4, .write 2 6]⟩, ⟨1, 0, [.read 2 6]⟩] := by decide

/-- rejected by rule T: an acquire after a release within one hold (the protocol alone accepts it) -/
def trBadT : List Ev :=
  [.rcLoad 0, .hpLoad 0, .genLoad 0, .acquire 0 ⟨0,1⟩, .rcLoad 0, .acquire 0 ⟨0,2⟩, .release 0 ⟨0,1⟩, .acquire 0 ⟨0,3⟩]
example : (Proto.run (Proto.init 3 4) trBadT).isSome = true := by decide
example : (Fine.run G0 (Fine.init 3 4 (fun _ => (0 : Nat))) (trBadT.map .sync)).isSome = false := by decide

/-- rejected: an access without the lock (thread 1 writes location 1, whose stripe is held by thread 0) -/
example : (Fine.run G0 (Fine.init 3 4 (fun _ => (0 : Nat)))
    (pre 0 ++ [.sync (.acquire 0 ⟨0,1⟩), .sync (.rcLoad 0)] ++ pre 1 ++
      [.sync (.acquire 1 ⟨0,3⟩), .sync (.rcLoad 1), .data 1 (.write 1 8)])).isSome = false := by decide
/-- … whereas under its own lock it is accepted -/
example : (Fine.run G0 (Fine.init 3 4 (fun _ => (0 : Nat)))
    (pre 0 ++ [.sync (.acquire 0 ⟨0,1⟩), .sync (.rcLoad 0)] ++ pre 1 ++
      [.sync (.acquire 1 ⟨0,3⟩), .sync (.rcLoad 1), .data 1 (.write 3 8)])).isSome = true := by decide
/-- rejected: a read event carrying a value that is not in memory -/
example : (Fine.run G0 (Fine.init 3 4 (fun _ => (0 : Nat)))
    (pre 0 ++ [.sync (.acquire 0 ⟨0,1⟩), .sync (.rcLoad 0), .data 0 (.read 1 3)])).isSome = false := by decide
/-- rejected: an access before the validation of the first lock -/
example : (Fine.run G0 (Fine.init 3 4 (fun _ => (0 : Nat)))
    (pre 0 ++ [.sync (.acquire 0 ⟨0,1⟩), .data 0 (.read 1 0)])).isSome = false := by decide

end Cuckoo.Props.C01Red
