import Cuckoo.Proofs.ProtoInv
/-!
# C04 — every operation terminates and leaves no lock behind (protocol part)

* Locks are taken in strictly ascending (lock array, index) order by every thread — including `lock_all` walking
  into arrays appended meanwhile and arrays born locked — so no waits-for cycle can form: **deadlock freedom**.
* A call that returns holds no lock; an active locked section holds every lock of the current array and gives all
  of them back (including arrays created while it was active).
* The BFS is bounded by compile-time constants regenerated from the source (`Gen/Consts.lean`).
Termination under every fair schedule (absence of livelock between inserters that keep invalidating each other's
cuckoo paths) is NOT proved.  What is proved is deadlock freedom and lock hygiene; K3 monitors a step budget.
-/
namespace Cuckoo.Props.C04
open Cuckoo.Proto

/-- every thread's held locks were taken in strictly ascending order -/
theorem lock_rank_ascending (s : PS) (h : Reach s) (t : Tid) : Desc (s.th t).held := by
  sorry

/-- a new lock is only ever taken above everything the thread already holds -/
theorem acquire_above_held (s s' : PS) (t : Tid) (l : LockId) (ha : accept s (.acquire t l) = some s') :
    ∀ m ∈ (s.th t).held, m < l := by
  sorry

/-- pure order fact: if every waiting thread waits for a lock above all the locks it holds, there is no cycle of
threads each waiting for a lock held by the next -/
theorem no_wait_cycle (holds : Tid → List LockId) (wants : Tid → Option LockId)
    (hasc : ∀ t l, wants t = some l → ∀ m ∈ holds t, m < l)
    (cycle : List Tid) (hne : cycle ≠ [])
    (hc : ∀ i, i < cycle.length →
      ∃ l, wants (cycle.getD i 0) = some l ∧ l ∈ holds (cycle.getD ((i + 1) % cycle.length) 0)) : False := by
  sorry

/-- **deadlock freedom**: in a reachable state, a non-empty set of threads cannot all be blocked on locks held by
members of the set, when their requests respect the order rule (which `accept` enforces for every request) -/
theorem proto_deadlock_free (s : PS) (h : Reach s) (blocked : List Tid) (hne : blocked ≠ []) (hnd : blocked.Nodup)
    (wants : Tid → LockId)
    (hasc : ∀ t ∈ blocked, ∀ m ∈ (s.th t).held, m < wants t)
    (hheld : ∀ t ∈ blocked, ∃ u ∈ blocked, s.holder (wants t) = some u) : False := by
  sorry

/-- a call that returns (not handing out a locked table) holds no lock -/
theorem no_lock_after_return (s s' : PS) (h : Reach s) (t : Tid) (ha : accept s (.opEnd t false) = some s') :
    (s.th t).held = [] ∧ ∀ l, s'.holder l ≠ some t := by
  sorry

/-- an active locked section holds every lock of the current array, also after it grew the lock array -/
theorem section_holds_everything (s : PS) (h : Reach s) (t : Tid) (ho : (s.th t).owner = true) (i : Nat)
    (hi : i < s.curSize) : s.holder ⟨s.curGen, i⟩ = some t := by
  sorry

/-- arrays appended by an owner are born locked by it -/
theorem appended_array_born_locked (s s' : PS) (t : Tid) (n : Nat) (ha : accept s (.append t n) = some s') :
    s'.gens = s.gens ++ [n] ∧ ∀ i, i < n → s'.holder ⟨s.gens.length, i⟩ = some t := by
  sorry

/-- after the section's unlock nothing of any array is held by it -/
theorem section_end_releases_all (s s' : PS) (h : Reach s) (t : Tid) (ha : accept s (.sectionEnd t) = some s') :
    ∀ l, s'.holder l ≠ some t := by
  sorry

/- The full termination statement — every fair extension of an accepted trace completes every pending call — needs a
   fairness model and a progress measure for competing displacements; it is not stated as a Lean `Prop` here because
   no proof of it exists yet (see DESIGN.md section 9: C04 is claimed as deadlock freedom + lock hygiene only). -/

/-! non-vacuity -/
example : (run (init 3 4) [.allBegin 0, .acquire 0 ⟨0,0⟩, .acquire 0 ⟨0,1⟩, .acquire 0 ⟨0,2⟩, .acquire 0 ⟨0,3⟩, .allEnd 0,
    .append 0 8, .storeHp 0 4, .bumpRc 0, .release 0 ⟨0,0⟩, .release 0 ⟨0,1⟩, .release 0 ⟨0,2⟩, .release 0 ⟨0,3⟩,
    .release 0 ⟨1,0⟩, .release 0 ⟨1,1⟩, .release 0 ⟨1,2⟩, .release 0 ⟨1,3⟩, .release 0 ⟨1,4⟩, .release 0 ⟨1,5⟩,
    .release 0 ⟨1,6⟩, .release 0 ⟨1,7⟩, .opEnd 0 false]).isSome = true := by decide
/-- descending order is rejected -/
example : (run (init 3 4) [.allBegin 0, .acquire 0 ⟨0,1⟩, .acquire 0 ⟨0,0⟩]).isSome = false := by decide

end Cuckoo.Props.C04
