import Cuckoo.Proofs.ProtoInv
/-!
# C04 — every operation terminates and leaves no lock behind (protocol part)

* Locks are taken in strictly ascending (lock array, index) order by every thread — including `lock_all` walking
  into arrays appended meanwhile and arrays born locked — so no waits-for cycle can form: **deadlock freedom**.
* A call that returns holds no lock; an active locked section holds every lock of the current array and gives all
  of them back (including arrays created while it was active).
* The BFS is bounded by compile-time constants regenerated from the source (`Gen/Consts.lean`).
Termination under every fair schedule (absence of livelock between inserters that keep invalidating each other's
cuckoo paths) is NOT proved.  What is proved is deadlock freedom and lock hygiene; K3 monitors a step budget.
-/
namespace Cuckoo.Props.C04
open Cuckoo.Proto

/-- every thread's held locks were taken in strictly ascending order -/
theorem lock_rank_ascending (s : PS) (h : Reach s) (t : Tid) : Desc (s.th t).held := by
  exact (desc_iff_pairwise _).2 ((reach_inv s h).held_desc t)

/-- a new lock is only ever taken above everything the thread already holds -/
theorem acquire_above_held (s s' : PS) (t : Tid) (l : LockId) (ha : accept s (.acquire t l) = some s') :
    ∀ m ∈ (s.th t).held, m < l := by
  simp only [accept] at ha
  split at ha
  · cases ha
  split at ha
  · cases ha
  split at ha
  · cases ha
  next hasc =>
    have := Classical.not_not.1 hasc
    simpa [List.all_eq_true] using this

/-- pure order fact: if every waiting thread waits for a lock above all the locks it holds, there is no cycle of
threads each waiting for a lock held by the next -/
theorem no_wait_cycle (holds : Tid → List LockId) (wants : Tid → Option LockId)
    (hasc : ∀ t l, wants t = some l → ∀ m ∈ holds t, m < l)
    (cycle : List Tid) (hne : cycle ≠ [])
    (hc : ∀ i, i < cycle.length →
      ∃ l, wants (cycle.getD i 0) = some l ∧ l ∈ holds (cycle.getD ((i + 1) % cycle.length) 0)) : False := by
  have hn : 0 < cycle.length := List.length_pos_iff.2 hne
  let w : Nat → LockId := fun i => (wants (cycle.getD (i % cycle.length) 0)).getD ⟨0, 0⟩
  have hw : ∀ i, w i < w (i + 1) := by
    intro i
    obtain ⟨l, hl, hmem⟩ := hc (i % cycle.length) (Nat.mod_lt _ hn)
    obtain ⟨l', hl', -⟩ := hc ((i + 1) % cycle.length) (Nat.mod_lt _ hn)
    have e : (i % cycle.length + 1) % cycle.length = (i + 1) % cycle.length := by
      rw [Nat.add_mod, Nat.mod_mod, ← Nat.add_mod]
    rw [e] at hmem
    have := hasc _ l' hl' l hmem
    show (wants (cycle.getD (i % cycle.length) 0)).getD ⟨0, 0⟩ < (wants (cycle.getD ((i + 1) % cycle.length) 0)).getD ⟨0, 0⟩
    rw [hl, hl']; exact this
  have h1 := chain_lt w hw (cycle.length - 1)
  have e : cycle.length - 1 + 1 = cycle.length := by omega
  rw [e] at h1
  have e2 : w cycle.length = w 0 := by
    show (wants (cycle.getD (cycle.length % cycle.length) 0)).getD ⟨0, 0⟩ = (wants (cycle.getD (0 % cycle.length) 0)).getD ⟨0, 0⟩
    rw [Nat.mod_self, Nat.zero_mod]
  rw [e2] at h1
  exact LockId.lt_irrefl _ h1

/-- **deadlock freedom**: in a reachable state, a non-empty set of threads cannot all be blocked on locks held by
members of the set, when their requests respect the order rule (which `accept` enforces for every request) -/
theorem proto_deadlock_free (s : PS) (h : Reach s) (blocked : List Tid) (hne : blocked ≠ []) (hnd : blocked.Nodup)
    (wants : Tid → LockId)
    (hasc : ∀ t ∈ blocked, ∀ m ∈ (s.th t).held, m < wants t)
    (hheld : ∀ t ∈ blocked, ∃ u ∈ blocked, s.holder (wants t) = some u) : False := by
  have _ := hnd
  have hi := reach_inv s h
  obtain ⟨t₀, ht₀, hmax⟩ := exists_maximal wants blocked hne
  obtain ⟨u, hu, hhold⟩ := hheld t₀ ht₀
  have hm : wants t₀ ∈ (s.th u).held := (hi.held_iff u _).2 hhold
  exact hmax u hu (hasc u hu _ hm)

/-- a call that returns (not handing out a locked table) holds no lock -/
theorem no_lock_after_return (s s' : PS) (h : Reach s) (t : Tid) (ha : accept s (.opEnd t false) = some s') :
    (s.th t).held = [] ∧ ∀ l, s'.holder l ≠ some t := by
  simp only [accept, Bool.false_eq_true, if_false] at ha
  split at ha
  next hg =>
    cases ha
    have he : (s.th t).held = [] := List.isEmpty_iff.1 hg.1
    exact ⟨he, ((reach_inv s h).held_nil_iff t).1 he⟩
  · cases ha

/-- an active locked section holds every lock of the current array, also after it grew the lock array -/
theorem section_holds_everything (s : PS) (h : Reach s) (t : Tid) (ho : (s.th t).owner = true) (i : Nat)
    (hi : i < s.curSize) : s.holder ⟨s.curGen, i⟩ = some t := by
  have hI := reach_inv s h
  exact (hI.owner_all t ho).1 i (by rw [curSize_eq s hI.gens_ne]; exact hi)

/-- arrays appended by an owner are born locked by it -/
theorem appended_array_born_locked (s s' : PS) (t : Tid) (n : Nat) (ha : accept s (.append t n) = some s') :
    s'.gens = s.gens ++ [n] ∧ ∀ i, i < n → s'.holder ⟨s.gens.length, i⟩ = some t := by
  simp only [accept] at ha
  split at ha
  next hg =>
    cases ha
    refine ⟨rfl, ?_⟩
    intro i hi
    simp [hi]
  · cases ha

/-- after the section's unlock nothing of any array is held by it -/
theorem section_end_releases_all (s s' : PS) (h : Reach s) (t : Tid) (ha : accept s (.sectionEnd t) = some s') :
    ∀ l, s'.holder l ≠ some t := by
  simp only [accept] at ha
  split at ha
  next hg =>
    cases ha
    exact ((reach_inv s h).held_nil_iff t).1 (List.isEmpty_iff.1 hg)
  · cases ha

/- The full termination statement — every fair extension of an accepted trace completes every pending call — needs a
   fairness model and a progress measure for competing displacements; it is not stated as a Lean `Prop` here because
   no proof of it exists yet (see DESIGN.md section 9: C04 is claimed as deadlock freedom + lock hygiene only). -/

/-! non-vacuity -/
example : (run (init 3 4) [.allBegin 0, .acquire 0 ⟨0,0⟩, .acquire 0 ⟨0,1⟩, .acquire 0 ⟨0,2⟩, .acquire 0 ⟨0,3⟩, .allEnd 0,
    .append 0 8, .storeHp 0 4, .bumpRc 0, .release 0 ⟨0,0⟩, .release 0 ⟨0,1⟩, .release 0 ⟨0,2⟩, .release 0 ⟨0,3⟩,
    .release 0 ⟨1,0⟩, .release 0 ⟨1,1⟩, .release 0 ⟨1,2⟩, .release 0 ⟨1,3⟩, .release 0 ⟨1,4⟩, .release 0 ⟨1,5⟩,
    .release 0 ⟨1,6⟩, .release 0 ⟨1,7⟩, .opEnd 0 false]).isSome = true := by decide
/-- descending order is rejected -/
example : (run (init 3 4) [.allBegin 0, .acquire 0 ⟨0,1⟩, .acquire 0 ⟨0,0⟩]).isSome = false := by decide

end Cuckoo.Props.C04
