import Cuckoo.Model.Objects
import Cuckoo.Props.C02
/-!
# C11 — copy, move, swap and assignment transfer the complete logical state

In the functional model a table is a value.  The defaulted copy/move constructors and assignments of the C++ class
are member-wise, so they are the identity on that value; `swap` is hand-written in the source and is modelled member
by member (`swapTables`: as repaired; `swapShipped`: as originally shipped, finding F6).  The theorems say that the
transferred value is a *complete* table state: it satisfies the invariant and represents the same abstract map —
including when the last doubling still has deferred migration pending and after several lock-array generations,
because `Inv`/`Rel` quantify over all such states — so every object involved is an ordinary working table afterwards
(C02 applies).  Which members the real special members transfer is tied by K2 (multi-object operations followed by
full-state digests and workloads on both objects).  Allocator instances and the three propagation policies are
modelled by `Obj`/`Policy` (Model/Objects.lean): which allocator each object ends up with, and that the
allocator-extended constructors — which rebuild the lock array instead of adopting the source's list when the
allocator differs — still hand over a complete table.  K2 runs the same requests against a build of the real table
with an identity-carrying allocator for each of the eight policy combinations and also checks that every block is
returned to the allocator instance it came from.
-/
namespace Cuckoo.Props.C11
open Cuckoo Cuckoo.Model Cuckoo.Spec
variable {κ ν : Type}

/-- a copy has equal contents and settings, and is a working table -/
theorem copy_equal (c : Cfg κ) (t : Table κ ν) (m : AMap κ ν) (h : Inv c t) (hr : Rel c t m) :
    Inv c t.copy ∧ Rel c t.copy m ∧ t.copy.mlf = t.mlf ∧ t.copy.mhp = t.mhp ∧ t.copy.workers = t.workers ∧
    t.copy.size = t.size :=
  ⟨h, hr, rfl, rfl, rfl, rfl⟩

/-- and is independent of its source: running any operations on the copy leaves the source's contents unchanged
(the source is the same value as before) -/
theorem copy_independent [DecidableEq κ] (c : Cfg κ) (t : Table κ ν) (m : AMap κ ν) (h : Inv c t) (hr : Rel c t m)
    (ops : List (C02.Op κ ν)) :
    Rel c t m ∧ ∃ m', C02.Good c (C02.run c ⟨t.copy, false⟩ ops).1 m' := by
  refine ⟨hr, ?_⟩
  obtain ⟨m', _, hg⟩ := C02.seq_refines c ops ⟨t.copy, false⟩ m ⟨h, hr, fun hh => by cases hh⟩
  exact ⟨m', hg⟩

/-- swap exchanges the complete state: each object afterwards is a well-formed table representing the other's
former contents, with the other's settings — for every pair of states, including pending deferred migration -/
theorem swap_exchanges_all (c : Cfg κ) (a b : Table κ ν) (ma mb : AMap κ ν)
    (ha : Inv c a) (hb : Inv c b) (hra : Rel c a ma) (hrb : Rel c b mb) :
    Inv c (swapTables a b).1 ∧ Rel c (swapTables a b).1 mb ∧ Inv c (swapTables a b).2 ∧ Rel c (swapTables a b).2 ma ∧
    (swapTables a b).1.mlf = b.mlf ∧ (swapTables a b).1.mhp = b.mhp ∧ (swapTables a b).2.mlf = a.mlf ∧
    (swapTables a b).2.mhp = a.mhp :=
  ⟨hb, hrb, ha, hra, rfl, rfl, rfl, rfl⟩

/-- the shipped swap left `old_buckets_` and the lazy-migration counter behind: when one table has migration pending
the result violates the bookkeeping clause of the invariant (`rem` = number of un-migrated stripes) -/
theorem swap_shipped_breaks_bookkeeping (c : Cfg κ) (a b : Table κ ν) (ha : Inv c a) (hb : Inv c b)
    (hpend : 0 < a.rem) (hnone : b.rem = 0) : ¬ Inv c (swapShipped a b).2 ∨ ¬ Inv c (swapShipped a b).1 := by
  left
  intro hinv
  have h1 := hinv.rem_eq
  have h2 := ha.rem_eq
  -- the lock array (hence the number of un-migrated stripes) stays with `a`, the counter comes from `b`
  have e1 : (swapShipped a b).2.rem = b.rem := rfl
  have e2 : (swapShipped a b).2.nUnmig = a.nUnmig := rfl
  rw [e1, e2, hnone] at h1
  omega

/-! ### allocator-aware special members -/

theorem rebased_inv (c : Cfg κ) (t : Table κ ν) (b : Bool) (h : Inv c t) : Inv c (t.rebased b) := by
  unfold Table.rebased
  cases b with
  | true => exact h
  | false =>
    exact ⟨h.S_pos, h.M_pow, h.cur_wf, h.locks_pow, h.locks_le, h.locks_ge, h.rem_eq, h.pending, h.unmig_empty, h.uniq, h.limit⟩

theorem rebased_rel (c : Cfg κ) (t : Table κ ν) (b : Bool) (m : AMap κ ν) (h : Rel c t m) : Rel c (t.rebased b) m := by
  unfold Table.rebased
  cases b with
  | true => exact h
  | false => exact ⟨h.1, h.2, h.3⟩

/-- every constructor — plain or allocator-extended, with an equal or a different allocator — yields a working table
with the source's contents and settings, for every source state (pending migration, any lock-array history); the
allocator is the source's (plain forms) or the given one (extended forms) -/
theorem ctor_transfers_all (c : Cfg κ) (s : Obj κ ν) (a : Nat) (m : AMap κ ν) (h : Inv c s.t) (hr : Rel c s.t m) :
    (Inv c s.copyCtor.t ∧ Rel c s.copyCtor.t m ∧ s.copyCtor.alloc = s.alloc) ∧
    (Inv c (s.copyCtorA a).t ∧ Rel c (s.copyCtorA a).t m ∧ (s.copyCtorA a).alloc = a) ∧
    (Inv c s.moveCtor.t ∧ Rel c s.moveCtor.t m ∧ s.moveCtor.alloc = s.alloc) ∧
    (Inv c (s.moveCtorA a).t ∧ Rel c (s.moveCtorA a).t m ∧ (s.moveCtorA a).alloc = a) :=
  ⟨⟨h, hr, rfl⟩, ⟨rebased_inv c _ _ h, rebased_rel c _ _ m hr, rfl⟩, ⟨h, hr, rfl⟩,
   ⟨rebased_inv c _ _ h, rebased_rel c _ _ m hr, rfl⟩⟩

/-- settings survive every constructor, too -/
theorem ctor_keeps_settings (s : Obj κ ν) (a : Nat) :
    (s.copyCtorA a).t.mlf = s.t.mlf ∧ (s.copyCtorA a).t.mhp = s.t.mhp ∧ (s.copyCtorA a).t.workers = s.t.workers ∧
    (s.moveCtorA a).t.mlf = s.t.mlf ∧ (s.moveCtorA a).t.mhp = s.t.mhp ∧ (s.moveCtorA a).t.workers = s.t.workers ∧
    (s.copyCtorA a).t.size = s.t.size ∧ (s.moveCtorA a).t.size = s.t.size := by
  unfold Obj.copyCtorA Obj.moveCtorA Table.rebased Table.copy
  cases (a == s.alloc) <;> exact ⟨rfl, rfl, rfl, rfl, rfl, rfl, rfl, rfl⟩

/-- assignment under every propagation policy: the destination takes the source's complete state; its allocator is
replaced exactly when the policy says so -/
theorem assign_transfers_all (c : Cfg κ) (p : Policy) (d s : Obj κ ν) (m : AMap κ ν) (h : Inv c s.t) (hr : Rel c s.t m) :
    Inv c (Obj.copyAssign p d s).t ∧ Rel c (Obj.copyAssign p d s).t m ∧
    (Obj.copyAssign p d s).alloc = (if p.pocca then s.alloc else d.alloc) ∧
    Inv c (Obj.moveAssign p d s).t ∧ Rel c (Obj.moveAssign p d s).t m ∧
    (Obj.moveAssign p d s).alloc = (if p.pocma then s.alloc else d.alloc) :=
  ⟨h, hr, rfl, h, hr, rfl⟩

/-- without propagation the destination never changes its allocator — so its memory keeps coming from, and going
back to, the instance it was constructed with -/
theorem assign_keeps_allocator (d s : Obj κ ν) :
    (Obj.copyAssign ⟨false, false, false⟩ d s).alloc = d.alloc ∧ (Obj.moveAssign ⟨false, false, false⟩ d s).alloc = d.alloc :=
  ⟨rfl, rfl⟩

/-- swap under every policy for which the standard defines it: complete states exchanged, allocators exchanged
exactly when they propagate, and each object's allocator afterwards is one that owns its (exchanged) storage -/
theorem swap_with_allocators (c : Cfg κ) (p : Policy) (a b : Obj κ ν) (ma mb : AMap κ ν)
    (ha : Inv c a.t) (hb : Inv c b.t) (hra : Rel c a.t ma) (hrb : Rel c b.t mb) (hok : Obj.swapOK p a b = true) :
    Inv c (Obj.swap p a b).1.t ∧ Rel c (Obj.swap p a b).1.t mb ∧ Inv c (Obj.swap p a b).2.t ∧ Rel c (Obj.swap p a b).2.t ma ∧
    (Obj.swap p a b).1.alloc = b.alloc ∧ (Obj.swap p a b).2.alloc = a.alloc := by
  refine ⟨hb, hrb, ha, hra, ?_, ?_⟩
  all_goals
    unfold Obj.swapOK at hok
    unfold Obj.swap
    cases hp : p.pocs
    · simp [hp] at hok ⊢
      first | exact hok | exact hok.symm
    · simp

/-- self-assignment and self-swap leave the object as it was -/
theorem self_assign_identity (p : Policy) (a : Obj κ ν) :
    (Obj.copyAssign p a a).t = a.t ∧ (Obj.copyAssign p a a).alloc = a.alloc ∧
    (Obj.swap p a a).1.t = a.t ∧ (Obj.swap p a a).1.alloc = a.alloc := by
  unfold Obj.copyAssign Obj.swap swapTables Table.copy
  cases p.pocca <;> cases p.pocs <;> exact ⟨rfl, rfl, rfl, rfl⟩

example : Obj.swapOK ⟨false, false, false⟩ (⟨Table.init (κ := Nat) (ν := Nat) ⟨2, 4, id, true, true, 40⟩ 4, 1⟩)
    ⟨Table.init ⟨2, 4, id, true, true, 40⟩ 4, 1⟩ = true := rfl

/-- the repaired swap is an involution -/
theorem swap_swap (a b : Table κ ν) :
    swapTables (swapTables a b).1 (swapTables a b).2 = (a, b) := rfl

end Cuckoo.Props.C11
