import Cuckoo.Model.Objects
import Cuckoo.Props.C02
/-!
# C11 — copy, move, swap and assignment transfer the complete logical state

In the functional model a table is a value.  The defaulted copy/move constructors and assignments of the C++ class
are member-wise, so they are the identity on that value; `swap` is hand-written in the source and is modelled member
by member (`swapTables`: as repaired; `swapShipped`: as originally shipped, finding F6).  The theorems say that the
transferred value is a *complete* table state: it satisfies the invariant and represents the same abstract map —
including when the last doubling still has deferred migration pending and after several lock-array generations,
because `Inv`/`Rel` quantify over all such states — so every object involved is an ordinary working table afterwards
(C02 applies).  Which members the real special members transfer is tied by K2 (multi-object operations followed by
full-state digests and workloads on both objects).  Allocator propagation policies are not modelled.
-/
namespace Cuckoo.Props.C11
open Cuckoo Cuckoo.Model Cuckoo.Spec
variable {κ ν : Type}

/-- a copy has equal contents and settings, and is a working table -/
theorem copy_equal (c : Cfg κ) (t : Table κ ν) (m : AMap κ ν) (h : Inv c t) (hr : Rel c t m) :
    Inv c t.copy ∧ Rel c t.copy m ∧ t.copy.mlf = t.mlf ∧ t.copy.mhp = t.mhp ∧ t.copy.workers = t.workers ∧
    t.copy.size = t.size :=
  ⟨h, hr, rfl, rfl, rfl, rfl⟩

/-- and is independent of its source: running any operations on the copy leaves the source's contents unchanged
(the source is the same value as before) -/
theorem copy_independent [DecidableEq κ] (c : Cfg κ) (t : Table κ ν) (m : AMap κ ν) (h : Inv c t) (hr : Rel c t m)
    (ops : List (C02.Op κ ν)) :
    Rel c t m ∧ ∃ m', C02.Good c (C02.run c ⟨t.copy, false⟩ ops).1 m' := by
  refine ⟨hr, ?_⟩
  obtain ⟨m', _, hg⟩ := C02.seq_refines c ops ⟨t.copy, false⟩ m ⟨h, hr, fun hh => by cases hh⟩
  exact ⟨m', hg⟩

/-- swap exchanges the complete state: each object afterwards is a well-formed table representing the other's
former contents, with the other's settings — for every pair of states, including pending deferred migration -/
theorem swap_exchanges_all (c : Cfg κ) (a b : Table κ ν) (ma mb : AMap κ ν)
    (ha : Inv c a) (hb : Inv c b) (hra : Rel c a ma) (hrb : Rel c b mb) :
    Inv c (swapTables a b).1 ∧ Rel c (swapTables a b).1 mb ∧ Inv c (swapTables a b).2 ∧ Rel c (swapTables a b).2 ma ∧
    (swapTables a b).1.mlf = b.mlf ∧ (swapTables a b).1.mhp = b.mhp ∧ (swapTables a b).2.mlf = a.mlf ∧
    (swapTables a b).2.mhp = a.mhp :=
  ⟨hb, hrb, ha, hra, rfl, rfl, rfl, rfl⟩

/-- the shipped swap left `old_buckets_` and the lazy-migration counter behind: when one table has migration pending
the result violates the bookkeeping clause of the invariant (`rem` = number of un-migrated stripes) -/
theorem swap_shipped_breaks_bookkeeping (c : Cfg κ) (a b : Table κ ν) (ha : Inv c a) (hb : Inv c b)
    (hpend : 0 < a.rem) (hnone : b.rem = 0) : ¬ Inv c (swapShipped a b).2 ∨ ¬ Inv c (swapShipped a b).1 := by
  left
  intro hinv
  have h1 := hinv.rem_eq
  have h2 := ha.rem_eq
  -- the lock array (hence the number of un-migrated stripes) stays with `a`, the counter comes from `b`
  have e1 : (swapShipped a b).2.rem = b.rem := rfl
  have e2 : (swapShipped a b).2.nUnmig = a.nUnmig := rfl
  rw [e1, e2, hnone] at h1
  omega

/-- the repaired swap is an involution -/
theorem swap_swap (a b : Table κ ν) :
    swapTables (swapTables a b).1 (swapTables a b).2 = (a, b) := rfl

end Cuckoo.Props.C11
