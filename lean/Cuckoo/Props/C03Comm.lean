import Cuckoo.Proofs.CommAux5
import Cuckoo.Props.C03Frame
/-!
# C03Comm — read footprint, and commutation of critical sections on disjoint stripes

`Props/C03Frame.lean` proves the *write* footprint of every stripe section of `Model/Conc.lean`: a section that takes
the stripes `L` changes nothing outside `L` (`WritesWithin c L t t'`).  This file adds the *read* footprint and the
consequence the write footprints alone do not give: **two critical sections whose stripe sets are disjoint give the
same table and the same responses in either order** — the partial-order reduction of the concurrent model.  With
`Props/C01Red.lean` (holds are atomic in commit order) this says: the order in which holds on disjoint stripes commit
is immaterial.

What a section holding the stripes `L` reads (`AgreeOn c L t u`, `Proofs/CommAux1.lean`):

* `loc : AgreeL c L t u` — the cells of the buckets of the stripes `L`, the counters and migrated flags of those
  stripes, and the validated scalars: hashpower, resize counter, size of the bucket array and of the lock array;
* `gold : GOld t u` — the old bucket array, whenever a migration is pending in both tables.

The two shared migration items are *not* required to be equal, and are not: `num_remaining_lazy_rehash_locks_`
(`rem`) is decremented by whoever migrates a stripe, `old_buckets_` is released by whoever brings it to 0.  What a
section does with them is a function of the stripes it takes only (`Transp c L t u t' u'`): run from `t` and from `u`
it subtracts the same number, `u'.rem + t.rem = u.rem + t'.rem`, and on either side the old array is released exactly
when the counter goes from positive to 0 (`OldRule`).

Contents:

1. `agreeOn_of_writes_within` — a hold on stripes disjoint from `L` in between does not disturb `AgreeOn c L`.
2. `*_read_footprint` for `lockSec`, `hopSec`, `lookupSec`, `insertTrySec`, `insertLastSec` (all parameters, stale or
   not), and the derived `read_footprint_after_writes` in the form "`f u` is `f t` transported".
3. `RSec` = `FSec` (section + stripes + legitimacy + write frame) + read footprint; one instance per section kind.
4. `sections_commute` — full table equality and both responses.
5. `swap_adjacent_disjoint`, `perm_disjoint_schedule` — schedules.
6. Concrete instances on the pending table of `C03Frame` (`decide +kernel`), including the release of the old array by
   whichever section comes second.

Whole-table sections (`doubleSec`, `rehashSec`, `reserveSec`, `clearSec`) take all locks and commute with nothing;
they are not `RSec`s.
-/
namespace Cuckoo.Props.C03Comm
open Cuckoo Cuckoo.Model Cuckoo.Model.Conc Cuckoo.Spec Cuckoo.Props.C03Frame
variable {κ ν : Type}

/-! ### 1. agreement survives holds on other stripes -/

/-- **(a)** if `u` is obtained from `t` by a change within stripes `L2` disjoint from `L` (another hold ran in
between), then `t` and `u` agree on `L` and on everything global a section holding `L` reads -/
theorem agreeOn_of_writes_within {c : Cfg κ} {L L2 : List Nat} {t u : Table κ ν} (h : WritesWithin c L2 t u)
    (hd : ∀ l, l ∈ L → l ∉ L2) : AgreeOn c L t u :=
  AgreeOn.of_writes h hd

theorem agreeOn_refl (c : Cfg κ) (L : List Nat) (t : Table κ ν) : AgreeOn c L t t :=
  ⟨AgreeL.refl c L t, fun _ _ => rfl⟩

/-- the step relation in the arithmetic form of the task statement: `u` loses what `t` loses -/
theorem transp_rem {c : Cfg κ} {L : List Nat} {t u t1 u1 : Table κ ν} (h : Transp c L t u t1 u1) :
    u1.rem = u.rem - (t.rem - t1.rem) := by
  have := h.rem
  have := h.remT
  omega

/-- … and the old array is released exactly when the counter goes from positive to 0, otherwise left alone -/
theorem transp_old {c : Cfg κ} {L : List Nat} {t u t1 u1 : Table κ ν} (h : Transp c L t u t1 u1) :
    u1.old = (if 0 < u.rem ∧ u1.rem = 0 then none else u.old) ∧
    t1.old = (if 0 < t.rem ∧ t1.rem = 0 then none else t.old) :=
  ⟨h.oldU, h.oldT⟩

/-! ### 2. read footprints of the five stripe sections -/

/-- **2a.** `lock_one/two/three` on the buckets `bs`: lazy migration of their stripes -/
theorem lockSec_read_footprint (c : Cfg κ) (bs : List Nat) (t u : Table κ ν) (ht : Inv c t) (hu : Inv c u)
    (ha : AgreeOn c (bs.map c.lockInd) t u) :
    (lockSec (ν := ν) c bs u).2 = (lockSec (ν := ν) c bs t).2 ∧
    Transp c (bs.map c.lockInd) t u (lockSec (ν := ν) c bs t).1 (lockSec (ν := ν) c bs u).1 :=
  rf_lockSec c bs t u ht hu ha

/-- **2b.** one hop of `cuckoopath_move`, any snapshot, any path records -/
theorem hopSec_read_footprint (c : Cfg κ) (hpS rcS : Nat) (fr to : PathRec) (t u : Table κ ν) (ht : Inv c t)
    (hu : Inv c u) (ha : AgreeOn c [c.lockInd fr.bucket, c.lockInd to.bucket] t u) :
    (hopSec c hpS rcS fr to u).2 = (hopSec c hpS rcS fr to t).2 ∧
    Transp c [c.lockInd fr.bucket, c.lockInd to.bucket] t u (hopSec c hpS rcS fr to t).1 (hopSec c hpS rcS fr to u).1 :=
  rf_hopSec c hpS rcS fr to t u ht hu ha

variable [DecidableEq κ]

/-- **2c.** find_fn / update_fn / erase_fn -/
theorem lookupSec_read_footprint (c : Cfg κ) (ce : Bool) (k : κ) (fn : ν → FnOut ν) (t u : Table κ ν) (ht : Inv c t)
    (hu : Inv c u) (ha : AgreeOn c [c.lockInd (c.i1 t.hp k), c.lockInd (c.i2 t.hp k)] t u) :
    (lookupSec c ce k fn u).2 = (lookupSec c ce k fn t).2 ∧
    Transp c [c.lockInd (c.i1 t.hp k), c.lockInd (c.i2 t.hp k)] t u (lookupSec c ce k fn t).1
      (lookupSec c ce k fn u).1 :=
  rf_lookupSec c ce k fn t u ht hu ha

/-- **2d.** the first section of an inserting call -/
theorem insertTrySec_read_footprint (c : Cfg κ) (k : κ) (v : ν) (ca me : Bool) (fn : Ctx → ν → FnOut ν)
    (t u : Table κ ν) (ht : Inv c t) (hu : Inv c u)
    (ha : AgreeOn c [c.lockInd (c.i1 t.hp k), c.lockInd (c.i2 t.hp k)] t u) :
    (insertTrySec c k v ca me fn u).2 = (insertTrySec c k v ca me fn t).2 ∧
    Transp c [c.lockInd (c.i1 t.hp k), c.lockInd (c.i2 t.hp k)] t u (insertTrySec c k v ca me fn t).1
      (insertTrySec c k v ca me fn u).1 :=
  rf_insertTrySec c k v ca me fn t u ht hu ha

/-- **2e.** the last section of a displacing insertion (stale snapshot, stale path records) -/
theorem insertLastSec_read_footprint (c : Cfg κ) (hpS rcS : Nat) (k : κ) (v : ν) (ca me : Bool)
    (fn : Ctx → ν → FnOut ν) (fr : PathRec) (to : Option PathRec) (t u : Table κ ν) (ht : Inv c t) (hu : Inv c u)
    (ha : AgreeOn c (lastStripes c hpS k to) t u) :
    (insertLastSec c hpS rcS k v ca me fn fr to u).2 = (insertLastSec c hpS rcS k v ca me fn fr to t).2 ∧
    Transp c (lastStripes c hpS k to) t u (insertLastSec c hpS rcS k v ca me fn fr to t).1
      (insertLastSec c hpS rcS k v ca me fn fr to u).1 :=
  rf_insertLastSec c hpS rcS k v ca me fn fr to t u ht hu ha

/-! ### 3. sections with both footprints -/

/-- a stripe section with its stripes, its legitimacy, its write footprint (`FSec`) and its read footprint -/
structure RSec (c : Cfg κ) (ν : Type) extends FSec c ν where
  /-- the stripes depend on the table through the hashpower only (which no stripe section changes) -/
  stripes_hp : ∀ t u : Table κ ν, u.hp = t.hp → stripes u = stripes t
  read : ∀ t u : Table κ ν, Inv c t → Inv c u → AgreeOn c (stripes t) t u →
    (f u).2 = (f t).2 ∧ Transp c (stripes t) t u (f t).1 (f u).1

/-- every stripe section of `Model/Conc.lean` is one, for all parameters -/
def RSec.lock (c : Cfg κ) (call : C01Conc.Call κ ν) (bs : List Nat) : RSec c ν :=
  { FSec.lock c call bs with
    stripes_hp := fun _ _ _ => rfl
    read := fun t u ht hu ha => lockSec_read_footprint c bs t u ht hu ha }
def RSec.hop (c : Cfg κ) (call : C01Conc.Call κ ν) (hpS rcS : Nat) (fr to : PathRec) : RSec c ν :=
  { FSec.hop c call hpS rcS fr to with
    stripes_hp := fun _ _ _ => rfl
    read := fun t u ht hu ha => hopSec_read_footprint c hpS rcS fr to t u ht hu ha }
def RSec.lookup (c : Cfg κ) (canErase : Bool) (k : κ) (fn : ν → FnOut ν) : RSec c ν :=
  { FSec.lookup c canErase k fn with
    stripes_hp := fun t u e => by
      show [c.lockInd (c.i1 u.hp k), c.lockInd (c.i2 u.hp k)] = [c.lockInd (c.i1 t.hp k), c.lockInd (c.i2 t.hp k)]
      rw [e]
    read := fun t u ht hu ha => lookupSec_read_footprint c canErase k fn t u ht hu ha }
def RSec.insertTry (c : Cfg κ) (k : κ) (v : ν) (ca me : Bool) (fn : Ctx → ν → FnOut ν) : RSec c ν :=
  { FSec.insertTry c k v ca me fn with
    stripes_hp := fun t u e => by
      show [c.lockInd (c.i1 u.hp k), c.lockInd (c.i2 u.hp k)] = [c.lockInd (c.i1 t.hp k), c.lockInd (c.i2 t.hp k)]
      rw [e]
    read := fun t u ht hu ha => insertTrySec_read_footprint c k v ca me fn t u ht hu ha }
def RSec.insertLast (c : Cfg κ) (hpS rcS : Nat) (k : κ) (v : ν) (ca me : Bool) (fn : Ctx → ν → FnOut ν)
    (fr : PathRec) (to : Option PathRec) : RSec c ν :=
  { FSec.insertLast c hpS rcS k v ca me fn fr to with
    stripes_hp := fun _ _ _ => rfl
    read := fun t u ht hu ha => insertLastSec_read_footprint c hpS rcS k v ca me fn fr to t u ht hu ha }

/-- **2.** (the form of the task statement) if `u` is obtained from `t` by a change within stripes `L2` disjoint from
the stripes of `e`, then `e` run from `u` is `e` run from `t`, transported: same response; it writes within its
stripes; the results agree on its stripes; `u` loses of `rem` what `t` loses; the old array is released iff the
counter hits 0 -/
theorem read_footprint_after_writes (c : Cfg κ) (e : RSec c ν) (L2 : List Nat) (t u : Table κ ν) (ht : Inv c t)
    (hu : Inv c u) (hw : WritesWithin c L2 t u) (hd : ∀ l, l ∈ e.stripes t → l ∉ L2) :
    (e.f u).2 = (e.f t).2 ∧
    WritesWithin c (e.stripes t) u (e.f u).1 ∧
    AgreeL c (e.stripes t) (e.f t).1 (e.f u).1 ∧
    (e.f u).1.rem = u.rem - (t.rem - (e.f t).1.rem) ∧
    (e.f u).1.old = (if 0 < u.rem ∧ (e.f u).1.rem = 0 then none else u.old) := by
  obtain ⟨r, tr⟩ := e.read t u ht hu (agreeOn_of_writes_within hw hd)
  have hs : e.stripes u = e.stripes t := e.stripes_hp t u hw.hp
  have hf := e.frame u hu
  rw [hs] at hf
  exact ⟨r, hf, tr.agree, transp_rem tr, tr.oldU⟩

/-! ### 4. commutation -/

/-- **3. Sections on disjoint stripes commute**: the two orders give the same table (as a value: bucket array, old
array, lock array, superseded lock arrays, `rem`, resize counter, settings) and each section gives the response it
gives when it runs first -/
theorem sections_commute (c : Cfg κ) (f g : RSec c ν) (t : Table κ ν) (m : AMap κ ν) (h : Inv c t) (hr : Rel c t m)
    (hd : ∀ l, l ∈ f.stripes t → l ∉ g.stripes t) :
    (g.f (f.f t).1).1 = (f.f (g.f t).1).1 ∧
    (g.f (f.f t).1).2 = (g.f t).2 ∧ (f.f (g.f t).1).2 = (f.f t).2 := by
  have hd2 : ∀ l, l ∈ g.stripes t → l ∉ f.stripes t := fun l h2 h1 => hd l h1 h2
  have i1 : Inv c (f.f t).1 := (f.ok t m h hr).1
  have i2 : Inv c (g.f t).1 := (g.ok t m h hr).1
  have w1 := f.frame t h
  have w2 := g.frame t h
  have sg : g.stripes (f.f t).1 = g.stripes t := g.stripes_hp t _ w1.hp
  have sf : f.stripes (g.f t).1 = f.stripes t := f.stripes_hp t _ w2.hp
  have w12 := g.frame (f.f t).1 i1
  rw [sg] at w12
  have w21 := f.frame (g.f t).1 i2
  rw [sf] at w21
  obtain ⟨rg, tg⟩ := g.read t (f.f t).1 h i1 (AgreeOn.of_writes w1 hd2)
  obtain ⟨rf, tf⟩ := f.read t (g.f t).1 h i2 (AgreeOn.of_writes w2 hd)
  exact ⟨commute_core c h.S_pos hd w1 w2 w12 w21 tg tf, rg, rf⟩

omit [DecidableEq κ] in
/-- **(a)** the special case of two lazy migrations, `rehash_lock<LAZY>(i)` and `rehash_lock<LAZY>(j)`, `i ≠ j`, as an
equation between tables: including `num_remaining_lazy_rehash_locks_` and the release of `old_buckets_` by whichever
of the two migrates the last stripe.  (`Proofs/ParAux.rehashLock_comm_of_le` is the non-lazy case.) -/
theorem lazy_migration_commutes (c : Cfg κ) (t : Table κ ν) (h : Inv c t) (i j : Nat) (hij : i ≠ j) :
    (t.rehashLock c i true).rehashLock c j true = (t.rehashLock c j true).rehashLock c i true :=
  rehashLock_lazy_comm c t h i j hij

/-! ### 5. schedules -/

/-- run a schedule, pairing every response with the section that gave it -/
def execT (c : Cfg κ) (t : Table κ ν) : List (RSec c ν) → Table κ ν × List (RSec c ν × Option (Resp ν))
  | [] => (t, [])
  | e :: es => ((execT c (e.f t).1 es).1, (e, (e.f t).2) :: (execT c (e.f t).1 es).2)

/-- `execT` is `Model.Conc.exec` with the responses labelled -/
theorem execT_exec (c : Cfg κ) (es : List (RSec c ν)) (t : Table κ ν) :
    (execT c t es).1 = (exec t (es.map (·.f))).1 ∧
    (execT c t es).2.map Prod.snd = (exec t (es.map (·.f))).2 ∧ (execT c t es).2.map Prod.fst = es := by
  induction es generalizing t with
  | nil => exact ⟨rfl, rfl, rfl⟩
  | cons e rest ih =>
    obtain ⟨a, b, d⟩ := ih (e.f t).1
    refine ⟨a, ?_, ?_⟩
    · show (e.f t).2 :: (execT c (e.f t).1 rest).2.map Prod.snd = _
      rw [b]; rfl
    · show e :: (execT c (e.f t).1 rest).2.map Prod.fst = _
      rw [d]

theorem execT_append (c : Cfg κ) (a b : List (RSec c ν)) (t : Table κ ν) :
    execT c t (a ++ b) = ((execT c (execT c t a).1 b).1, (execT c t a).2 ++ (execT c (execT c t a).1 b).2) := by
  induction a generalizing t with
  | nil => rfl
  | cons e rest ih =>
    show ((execT c (e.f t).1 (rest ++ b)).1, (e, (e.f t).2) :: (execT c (e.f t).1 (rest ++ b)).2) = _
    rw [ih]
    rfl

/-- the invariant and the abstraction relation hold along every schedule of stripe sections -/
theorem execT_inv (c : Cfg κ) (es : List (RSec c ν)) (t : Table κ ν) (m : AMap κ ν) (h : Inv c t) (hr : Rel c t m) :
    ∃ m1, Inv c (execT c t es).1 ∧ Rel c (execT c t es).1 m1 := by
  induction es generalizing t m with
  | nil => exact ⟨m, h, hr⟩
  | cons e rest ih =>
    obtain ⟨i1, _, _, i4⟩ := e.ok t m h hr
    cases hres : (e.f t).2 with
    | none => rw [hres] at i4; exact ih (e.f t).1 m i1 i4
    | some r =>
      rw [hres] at i4
      obtain ⟨m1, _, r1⟩ := i4
      exact ih (e.f t).1 m1 i1 r1

/-- **4.** in any schedule two adjacent sections whose stripes are disjoint (in the state where the first of them
starts) can be swapped: the final table is the same, and so is every response — the two responses change places with
their sections -/
theorem swap_adjacent_disjoint (c : Cfg κ) (pre post : List (RSec c ν)) (f g : RSec c ν) (t : Table κ ν)
    (m : AMap κ ν) (h : Inv c t) (hr : Rel c t m)
    (hd : ∀ l, l ∈ f.stripes (execT c t pre).1 → l ∉ g.stripes (execT c t pre).1) :
    (execT c t (pre ++ f :: g :: post)).1 = (execT c t (pre ++ g :: f :: post)).1 ∧
    ∃ rs1 rf rg rs2,
      (execT c t (pre ++ f :: g :: post)).2 = rs1 ++ (f, rf) :: (g, rg) :: rs2 ∧
      (execT c t (pre ++ g :: f :: post)).2 = rs1 ++ (g, rg) :: (f, rf) :: rs2 ∧
      rs1.length = pre.length := by
  obtain ⟨m1, i1, r1⟩ := execT_inv c pre t m h hr
  obtain ⟨e1, e2, e3⟩ := sections_commute c f g (execT c t pre).1 m1 i1 r1 hd
  have hlen : (execT c t pre).2.length = pre.length := by
    have := congrArg List.length (execT_exec c pre t).2.2
    rw [List.length_map] at this
    exact this
  rw [execT_append, execT_append]
  generalize (execT c t pre).1 = t0 at *
  refine ⟨?_, (execT c t pre).2, (f.f t0).2, (g.f t0).2, (execT c (g.f (f.f t0).1).1 post).2, ?_, ?_, hlen⟩
  · show (execT c (g.f (f.f t0).1).1 post).1 = (execT c (f.f (g.f t0).1).1 post).1
    rw [e1]
  · show (execT c t pre).2 ++ (f, (f.f t0).2) :: (g, (g.f (f.f t0).1).2) :: (execT c (g.f (f.f t0).1).1 post).2 = _
    rw [e2]
  · show (execT c t pre).2 ++ (g, (g.f t0).2) :: (f, (f.f (g.f t0).1).2) :: (execT c (f.f (g.f t0).1).1 post).2 = _
    rw [e3, e1]

/-- the same for the unlabelled `Model.Conc.exec` -/
theorem swap_adjacent_disjoint_exec (c : Cfg κ) (pre post : List (RSec c ν)) (f g : RSec c ν) (t : Table κ ν)
    (m : AMap κ ν) (h : Inv c t) (hr : Rel c t m)
    (hd : ∀ l, l ∈ f.stripes (exec t (pre.map (·.f))).1 → l ∉ g.stripes (exec t (pre.map (·.f))).1) :
    (exec t ((pre ++ f :: g :: post).map (·.f))).1 = (exec t ((pre ++ g :: f :: post).map (·.f))).1 ∧
    ∃ rs1 rf rg rs2,
      (exec t ((pre ++ f :: g :: post).map (·.f))).2 = rs1 ++ rf :: rg :: rs2 ∧
      (exec t ((pre ++ g :: f :: post).map (·.f))).2 = rs1 ++ rg :: rf :: rs2 ∧
      rs1.length = pre.length := by
  rw [← (execT_exec c pre t).1] at hd
  obtain ⟨a, rs1, rf, rg, rs2, b1, b2, b3⟩ := swap_adjacent_disjoint c pre post f g t m h hr hd
  rw [← (execT_exec c _ t).1, ← (execT_exec c _ t).1, ← (execT_exec c _ t).2.1, ← (execT_exec c _ t).2.1, b1, b2]
  refine ⟨a, rs1.map Prod.snd, rf, rg, rs2.map Prod.snd, ?_, ?_, ?_⟩
  · simp
  · simp
  · rw [List.length_map]; exact b3

/-- schedules related by a sequence of swaps of adjacent sections with disjoint stripes (disjoint in the state in which
the first of the two starts) -/
inductive SwapEq (c : Cfg κ) (t : Table κ ν) : List (RSec c ν) → List (RSec c ν) → Prop
  | refl (es : List (RSec c ν)) : SwapEq c t es es
  | swap (pre post : List (RSec c ν)) (f g : RSec c ν)
      (hd : ∀ l, l ∈ f.stripes (execT c t pre).1 → l ∉ g.stripes (execT c t pre).1) :
      SwapEq c t (pre ++ f :: g :: post) (pre ++ g :: f :: post)
  | trans {a b d : List (RSec c ν)} : SwapEq c t a b → SwapEq c t b d → SwapEq c t a d

/-- **4 (stretch).** schedules related by such swaps are equivalent: same final table, and the same responses section
by section (the labelled response lists are permutations of each other) -/
theorem perm_disjoint_schedule (c : Cfg κ) (t : Table κ ν) (m : AMap κ ν) (h : Inv c t) (hr : Rel c t m)
    {a b : List (RSec c ν)} (hs : SwapEq c t a b) :
    (execT c t a).1 = (execT c t b).1 ∧ (execT c t a).2.Perm (execT c t b).2 := by
  induction hs with
  | refl es => exact ⟨rfl, List.Perm.refl _⟩
  | swap pre post f g hd =>
    obtain ⟨e, rs1, rf, rg, rs2, b1, b2, _⟩ := swap_adjacent_disjoint c pre post f g t m h hr hd
    rw [b1, b2]
    exact ⟨e, List.Perm.append_left rs1 (List.Perm.swap _ _ _)⟩
  | trans _ _ ih1 ih2 => exact ⟨ih1.1.trans ih2.1, ih1.2.trans ih2.2⟩

/-! ### 6. non-vacuity: the pending table of `C03Frame` (2 stripes, both pending, `rem = 2`) -/

/-- the erase of key 1 (both candidate buckets 1 and 3 in stripe 1) -/
def eraseOne : Section Nat Nat := lookupSec cE true 1 (fun v => .ret v true)

/-- what is compared: keys cell by cell, both locks, `rem`, whether the old array is still allocated, resize counter -/
def proj (t : Table Nat Nat) : List (List (Option Nat)) × Option (Int × Bool) × Option (Int × Bool) × Nat × Bool × Nat :=
  (keysOf t, lockAt t 0, lockAt t 1, t.rem, t.old.isSome, t.rc)

/-- what is compared of a response: the Boolean result (or `none` for an exception) and the values the functor saw -/
def respProj : Option (Resp Nat) → Option (Option Bool × List Nat)
  | some (.bool (.ok a) cs) => some (some a, cs.map (·.seen))
  | some (.bool (.err _) cs) => some (none, cs.map (·.seen))
  | _ => none

/-- `lock_one(0)` (stripe 0) and `erase(1)` (stripe 1) in both orders on the pending table: each migrates its own
stripe, the second one — whichever it is — brings `rem` to 0 and releases the old array; everything coincides -/
example :
    proj (eraseOne (lockSec (ν := Nat) cE [0] tPend).1).1 = proj (lockSec (ν := Nat) cE [0] (eraseOne tPend).1).1 := by
  decide +kernel

/-- … namely: keys 0 and 2 split over buckets 0 and 2, key 3 alone in bucket 3 (key 1 erased), both stripes migrated,
counter of stripe 1 decremented, `rem = 0`, old array released -/
example :
    proj (eraseOne (lockSec (ν := Nat) cE [0] tPend).1).1 =
      ([[none, some 0], [none, none], [some 2, none], [some 3, none]], some (2, true), some (1, true), 0, false, 1) := by
  decide +kernel

/-- after the first of the two the old array is still there, in either order: the release is done by the second -/
example :
    (lockSec (ν := Nat) cE [0] tPend).1.old.isSome = true ∧ (lockSec (ν := Nat) cE [0] tPend).1.rem = 1 ∧
    (eraseOne tPend).1.old.isSome = true ∧ (eraseOne tPend).1.rem = 1 := by
  decide +kernel

/-- the responses do not depend on the order either: the erase finds its key (`true`, one functor call on value 10) -/
example :
    respProj (eraseOne (lockSec (ν := Nat) cE [0] tPend).1).2 = respProj (eraseOne tPend).2 ∧
    respProj (eraseOne tPend).2 = some (some true, [10]) ∧
    respProj (lockSec (ν := Nat) cE [0] (eraseOne tPend).1).2 = respProj (lockSec (ν := Nat) cE [0] tPend).2 := by
  decide +kernel

/-- the stripes of the two sections are disjoint on the pending table -/
theorem pend_disjoint : ∀ l, l ∈ (RSec.lock cE (.lookup true 1 (fun v => .ret v true)) [0]).stripes tPend →
    l ∉ (RSec.lookup cE true 1 (fun v => .ret v true)).stripes tPend := by
  intro l hl
  have e0 : (RSec.lock cE (.lookup true 1 (fun v => .ret v true)) [0]).stripes tPend = [0] := by decide +kernel
  have e1 : (RSec.lookup cE true 1 (fun v => .ret v true)).stripes tPend = [1, 1] := by decide +kernel
  rw [e0] at hl
  rw [e1]
  rw [List.mem_singleton.mp hl]
  decide

/-- the same through the theorem: full table equality, hence every projection -/
example : (eraseOne (lockSec (ν := Nat) cE [0] tPend).1).1 = (lockSec (ν := Nat) cE [0] (eraseOne tPend).1).1 := by
  obtain ⟨m, r0⟩ := tPend_rel
  exact (sections_commute cE (RSec.lock cE (.lookup true 1 (fun v => .ret v true)) [0])
    (RSec.lookup cE true 1 (fun v => .ret v true)) tPend m tPend_inv r0 pend_disjoint).1

/-- a stale last section of an insertion of key 5 (snapshot hashpower 2, any resize counter, any path record with
`fr.bucket = 1`) takes stripe 1 only: it commutes with `lock_one(0)` on the pending table, whatever it does -/
example (rcS : Nat) (fr : PathRec) :
    (insertLastSec cE 2 rcS 5 50 false false idFn fr none (lockSec (ν := Nat) cE [0] tPend).1).1 =
      (lockSec (ν := Nat) cE [0] (insertLastSec cE 2 rcS 5 50 false false idFn fr none tPend).1).1 ∧
    (insertLastSec cE 2 rcS 5 50 false false idFn fr none (lockSec (ν := Nat) cE [0] tPend).1).2 =
      (insertLastSec cE 2 rcS 5 50 false false idFn fr none tPend).2 := by
  obtain ⟨m, r0⟩ := tPend_rel
  have hd : ∀ l, l ∈ (RSec.lock cE (.uprase 5 50 false false idFn) [0]).stripes tPend →
      l ∉ (RSec.insertLast cE 2 rcS 5 50 false false idFn fr none).stripes tPend := by
    intro l hl
    have e0 : (RSec.lock cE (.uprase 5 50 false false idFn) [0]).stripes tPend = [0] := by decide +kernel
    have e1 : (RSec.insertLast cE 2 rcS 5 50 false false idFn fr none).stripes tPend = [1, 1] := by
      show lastStripes cE 2 5 none = [1, 1]
      decide +kernel
    rw [e0] at hl
    rw [e1, List.mem_singleton.mp hl]
    decide
  obtain ⟨a, b, _⟩ := sections_commute cE (RSec.lock cE (.uprase 5 50 false false idFn) [0])
    (RSec.insertLast cE 2 rcS 5 50 false false idFn fr none) tPend m tPend_inv r0 hd
  exact ⟨a, b⟩

/-- sections on the *same* stripe do not commute in general (so the disjointness hypothesis is needed): `erase(1)`
and a `find(1)` give different responses in the two orders -/
example :
    respProj (lookupSec cE false 1 (fun v => .ret v false) (eraseOne tPend).1).2 = some (some false, []) ∧
    respProj (lookupSec cE false 1 (fun v => .ret v false) tPend).2 = some (some true, [10]) := by
  decide +kernel

end Cuckoo.Props.C03Comm
