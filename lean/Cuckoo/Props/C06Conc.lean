import Cuckoo.Props.C01Conc
/-!
# C06 (second half) — schedules that contain locked sections

`Props/C06.lean` shows, at the level of the locking protocol, that between `lock_table()` returning and the section's end
no other thread validates, touches a bucket or releases anything (`section_excludes_others`, `no_validation_during_section`)
and that operations parked meanwhile re-validate afterwards (`parked_ops_revalidate`).  Hence a whole locked section —
`lock_table()`, any sequence of operations through the `locked_table` (including growth, shrinking, clearing), the
unlock — takes effect as ONE atomic step between the critical sections of the other threads.

Here such steps are added to the schedules of `Props/C01Conc.lean`: a generalised schedule is any finite sequence of
ordinary critical sections (of any calls, with any stale local data) and whole locked sections.  For every such schedule
the execution is linearizable, each locked section being a contiguous block of the sequential execution whose
observations are those of the sequential specification run on the map the section found, and everything that takes
effect afterwards starts from exactly the map the section left.
-/
namespace Cuckoo.Props.C06Conc
open Cuckoo Cuckoo.Model Cuckoo.Model.Conc Cuckoo.Spec
variable {κ ν : Type} [DecidableEq κ]

/-- one step of a generalised schedule -/
inductive GEv (c : Cfg κ) (ν : Type)
  | sec (e : C01Conc.Ev c ν)                 -- a critical section of an ordinary call
  | locked (ops : List (C02.Op κ ν))          -- a whole locked section performing `ops` through the locked_table

/-- what is observed at a step -/
inductive GObs (ν : Type)
  | sec (r : Option (Resp ν))
  | locked (os : List (C02.Obs ν))

/-- the operations of a locked section, bracketed by `lock_table()` and the unlock -/
def bracket (ops : List (C02.Op κ ν)) : List (C02.Op κ ν) := .lockTable :: (ops ++ [.unlock])

/-- the section as an atomic step on the table -/
def runLocked (c : Cfg κ) (t : Table κ ν) (ops : List (C02.Op κ ν)) : Table κ ν × List (C02.Obs ν) :=
  let r := C02.run c ⟨t, false⟩ (bracket ops)
  (r.1.t, r.2)

def gexec (c : Cfg κ) (t : Table κ ν) : List (GEv c ν) → Table κ ν × List (GObs ν)
  | [] => (t, [])
  | .sec e :: es =>
    let r := e.f t
    let r' := gexec c r.1 es
    (r'.1, .sec r.2 :: r'.2)
  | .locked ops :: es =>
    let r := runLocked c t ops
    let r' := gexec c r.1 es
    (r'.1, .locked r.2 :: r'.2)

/-- the sequential execution of the abstract map that a generalised schedule must correspond to -/
def glin {c : Cfg κ} (m : AMap κ ν) : List (GEv c ν) → List (GObs ν) → AMap κ ν → Prop
  | [], [], m' => m' = m
  | .sec _ :: es, .sec none :: os, m' => glin m es os m'
  | .sec e :: es, .sec (some r) :: os, m' => ∃ m1, C01Conc.specOf m e.call r m1 ∧ glin m1 es os m'
  | .locked ops :: es, .locked obs :: os, m' => ∃ m1, C02.specRun false m (bracket ops) obs m1 ∧ glin m1 es os m'
  | _, _, _ => False

private theorem run_append_locked (c : Cfg κ) (ops : List (C02.Op κ ν)) (s : C02.MT κ ν) :
    (C02.run c s (ops ++ [.unlock])).1.locked = false := by
  induction ops generalizing s with
  | nil => simp [C02.run, C02.step]
  | cons op rest ih => simp only [List.cons_append, C02.run]; exact ih _

/-- a locked section is a legitimate atomic step: it hands the table back intact (invariant, representation of exactly
the map the sequential specification of its operations yields) -/
theorem locked_section_atomic (c : Cfg κ) (t : Table κ ν) (m : AMap κ ν) (ops : List (C02.Op κ ν))
    (h : Inv c t) (hr : Rel c t m) :
    ∃ m', C02.specRun false m (bracket ops) (runLocked c t ops).2 m' ∧
      Inv c (runLocked c t ops).1 ∧ Rel c (runLocked c t ops).1 m' := by
  obtain ⟨m', h1, g1, g2, _⟩ := C02.seq_refines c (bracket ops) ⟨t, false⟩ m ⟨h, hr, fun e => by cases e⟩
  exact ⟨m', h1, g1, g2⟩

/-- and it really ends unlocked, whatever it did -/
theorem locked_section_ends_unlocked (c : Cfg κ) (t : Table κ ν) (ops : List (C02.Op κ ν)) :
    (C02.run c ⟨t, false⟩ (bracket ops)).1.locked = false := by
  unfold bracket
  simp only [C02.run]
  exact run_append_locked c ops _

/-- **linearizability of every interleaving of critical sections and locked sections** -/
theorem conc_with_sections_linearizable (c : Cfg κ) (evs : List (GEv c ν)) (t : Table κ ν) (m : AMap κ ν)
    (h : Inv c t) (hr : Rel c t m) :
    ∃ m', glin m evs (gexec c t evs).2 m' ∧ Inv c (gexec c t evs).1 ∧ Rel c (gexec c t evs).1 m' := by
  induction evs generalizing t m with
  | nil => exact ⟨m, rfl, h, hr⟩
  | cons ev rest ih =>
    cases ev with
    | sec e =>
      obtain ⟨i1, _, _, i4⟩ := e.ok t m h hr
      simp only [gexec]
      cases hres : (e.f t).2 with
      | none =>
        rw [hres] at i4
        obtain ⟨m', a, b, d⟩ := ih (e.f t).1 m i1 i4
        exact ⟨m', a, b, d⟩
      | some r =>
        rw [hres] at i4
        obtain ⟨m1, s1, r1⟩ := i4
        obtain ⟨m', a, b, d⟩ := ih (e.f t).1 m1 i1 r1
        exact ⟨m', ⟨m1, s1, a⟩, b, d⟩
    | locked ops =>
      obtain ⟨m1, s1, i1, r1⟩ := locked_section_atomic c t m ops h hr
      obtain ⟨m', a, b, d⟩ := ih (runLocked c t ops).1 m1 i1 r1
      simp only [gexec]
      exact ⟨m', ⟨m1, s1, a⟩, b, d⟩

/-- non-vacuity: a section that inserts through the locked table, between two ordinary calls -/
example (c : Cfg Nat) (t : Table Nat Nat) (m : AMap Nat Nat) (h : Inv c t) (hr : Rel c t m) :
    ∃ m', glin m [GEv.sec ⟨.clear, clearSec c, C01Conc.clearSec_sec c⟩, GEv.locked [.ltInsert 1 2, .rehash 3],
                  GEv.sec ⟨.lookup false 1 (fun v => .ret v false), lookupSec c false 1 _, C01Conc.lookupSec_sec c false 1 _⟩]
      (gexec c t [GEv.sec ⟨.clear, clearSec c, C01Conc.clearSec_sec c⟩, GEv.locked [.ltInsert 1 2, .rehash 3],
                  GEv.sec ⟨.lookup false 1 (fun v => .ret v false), lookupSec c false 1 _, C01Conc.lookupSec_sec c false 1 _⟩]).2 m' :=
  (conc_with_sections_linearizable c _ t m h hr).imp fun _ h => h.1

end Cuckoo.Props.C06Conc
