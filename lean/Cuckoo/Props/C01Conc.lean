import Cuckoo.Model.Conc
import Cuckoo.Props.C02
import Cuckoo.Proofs.ConcAux
/-!
# C01 (second half) — every interleaving of critical sections is linearizable

`Model/Conc.lean` defines the atomic critical sections the operations consist of, each applicable to *any* table
state with *any* (possibly stale) local data.  Here:

* `SecOf c call f` : `f` is a legitimate section of `call` — from every state satisfying the invariant it preserves the
  invariant, never decreases the resize counter and changes the hashpower only together with it, and either leaves
  the abstract map unchanged (internal section) or is the call's final section and transforms the abstract map and
  answers exactly as the sequential specification of that call does.
* every concrete section of the code is `SecOf` its call, for all parameters (`*_sec` theorems);
* `conc_linearizable`: for every schedule — any finite sequence of sections of any calls of any threads, i.e. every
  interleaving — the final sections, in the order in which they take effect, form a sequential execution of the abstract
  map that yields every response, and the final table represents the final map.  Since a call's final section takes
  effect between its invocation and its return, that order respects real time: this is linearizability, with the
  final sections as linearization points.
* `rc_check_implies_hp_check`: along any schedule, an unchanged resize counter implies an unchanged hashpower, so the
  code's re-validation of the counter alone is as good as the model's check of both.

What is **assumed** (DESIGN 12.2): that a lock-protected block of the real code is atomic and runs on the current
table — the protocol theorems of `Props/C01.lean` / `C03.lean` + the two-phase-locking reduction, which is not
mechanised; helper threads are not modelled; a locked_table section is a run of sequential steps (C02) by its owner.
-/
namespace Cuckoo.Props.C01Conc
open Cuckoo Cuckoo.Model Cuckoo.Model.Conc Cuckoo.Spec Cuckoo.Model.ConcA
variable {κ ν : Type} [DecidableEq κ]

/-- the calls of a client program (find/contains/update/erase are `lookup`; insert/insert_or_assign/upsert/uprase_fn are `uprase`) -/
inductive Call (κ ν : Type)
  | lookup (canErase : Bool) (k : κ) (fn : ν → FnOut ν)
  | uprase (k : κ) (v : ν) (ctxAware mayErase : Bool) (fn : Ctx → ν → FnOut ν)
  | rehash (n : Nat)
  | reserve (n : Nat)
  | clear

/-- sequential specification of a finished call: response `r` and next map `m'` from map `m` -/
def specOf (m : AMap κ ν) : Call κ ν → Resp ν → AMap κ ν → Prop
  | .lookup ce k fn, r, m' =>
    (match m.lookup k with
     | none => r = .bool (.ok false) [] ∧ m' = m
     | some v =>
       match fn v with
       | .ret v' er => r = .bool (.ok true) [⟨none, v⟩] ∧ m' = (if ce && er then m.erase k else m.set k v')
       | .throw v' => r = .bool (.err .fnThrow) [⟨none, v⟩] ∧ m' = m.set k v')
  | .uprase k v ca me fn, r, m' =>
    (∃ e, ResizeErr e ∧ r = .bool (.err e) [] ∧ m' = m) ∨
    (r = .bool (C02.upraseSpec m k v ca me fn).1 (C02.upraseSpec m k v ca me fn).2.1 ∧ m' = (C02.upraseSpec m k v ca me fn).2.2)
  | .rehash _, r, m' => r = .unit ∧ m' = m
  | .reserve _, r, m' => r = .unit ∧ m' = m
  | .clear, r, m' => r = .unit ∧ m' = []

/-- `f` is a legitimate critical section of `call` -/
def SecOf (c : Cfg κ) (call : Call κ ν) (f : Section κ ν) : Prop :=
  ∀ t m, Inv c t → Rel c t m →
    Inv c (f t).1 ∧ t.rc ≤ (f t).1.rc ∧ ((f t).1.rc = t.rc → (f t).1.hp = t.hp) ∧
    match (f t).2 with
    | none => Rel c (f t).1 m
    | some r => ∃ m', specOf m call r m' ∧ Rel c (f t).1 m'

/-! ### every concrete section is legitimate, for all (stale) parameters -/

theorem lockSec_sec (c : Cfg κ) (call : Call κ ν) (bs : List Nat) : SecOf c call (lockSec c bs) := by
  intro t m h hr
  obtain ⟨a1, a2, a3, a4⟩ := lockSec_core (ν := ν) c bs t h
  refine ⟨a1, Nat.le_of_eq a3.rc.symm, fun _ => a3.hp, ?_⟩
  rw [a4]
  exact hr.of_same a2

theorem hopSec_sec (c : Cfg κ) (call : Call κ ν) (hpS rcS : Nat) (fr to : PathRec) :
    SecOf c call (hopSec c hpS rcS fr to) := by
  intro t m h hr
  obtain ⟨a1, a2, a3, a4⟩ := hopSec_core c hpS rcS fr to t h
  refine ⟨a1, Nat.le_of_eq a3.rc.symm, fun _ => a3.hp, ?_⟩
  rw [a4]
  exact hr.of_same a2

theorem lookupSec_sec (c : Cfg κ) (ce : Bool) (k : κ) (fn : ν → FnOut ν) :
    SecOf c (.lookup ce k fn) (lookupSec c ce k fn) := by
  intro t m h hr
  obtain ⟨a1, a2⟩ := C02.fnOp_refines c ce t m k fn h hr
  have a3 := fnOp_keeps c ce t k fn h
  refine ⟨a1, Nat.le_of_eq a3.rc.symm, fun _ => a3.hp, ?_⟩
  show ∃ m', specOf m (.lookup ce k fn) (.bool (t.fnOp c ce k fn).2.res (t.fnOp c ce k fn).2.calls) m' ∧
    Rel c (t.fnOp c ce k fn).1 m'
  cases hlook : AMap.lookup m k with
  | none =>
    rw [hlook] at a2
    obtain ⟨r1, r2, r3⟩ := a2
    refine ⟨m, ?_, r3⟩
    simp only [specOf, hlook, r1, r2, and_self]
  | some w =>
    rw [hlook] at a2
    obtain ⟨r1, r2⟩ := a2
    cases hfn : fn w with
    | ret v' er =>
      rw [hfn] at r2
      refine ⟨_, ?_, r2.2⟩
      simp only [specOf, hlook, hfn, r1, r2.1, and_self]
    | throw v' =>
      rw [hfn] at r2
      refine ⟨_, ?_, r2.2⟩
      simp only [specOf, hlook, hfn, r1, r2.1, and_self]

theorem insertTrySec_sec (c : Cfg κ) (k : κ) (v : ν) (ca me : Bool) (fn : Ctx → ν → FnOut ν) :
    SecOf c (.uprase k v ca me fn) (insertTrySec c k v ca me fn) := by
  intro t m h hr
  obtain ⟨a1, a3, a4⟩ := insertTrySec_core c k v ca me fn t m h hr
  refine ⟨a1, Nat.le_of_eq a3.rc.symm, fun _ => a3.hp, ?_⟩
  unfold InsRes at a4
  split
  · rename_i he; rw [he] at a4; exact a4
  · rename_i r he
    rw [he] at a4
    exact ⟨_, .inr ⟨a4.1, rfl⟩, a4.2⟩

theorem insertLastSec_sec (c : Cfg κ) (hpS rcS : Nat) (k : κ) (v : ν) (ca me : Bool) (fn : Ctx → ν → FnOut ν)
    (fr : PathRec) (to : Option PathRec) :
    SecOf c (.uprase k v ca me fn) (insertLastSec c hpS rcS k v ca me fn fr to) := by
  intro t m h hr
  obtain ⟨a1, a3, a4⟩ := insertLastSec_core c hpS rcS k v ca me fn fr to t m h hr
  refine ⟨a1, Nat.le_of_eq a3.rc.symm, fun _ => a3.hp, ?_⟩
  unfold InsRes at a4
  split
  · rename_i he; rw [he] at a4; exact a4
  · rename_i r he
    rw [he] at a4
    exact ⟨_, .inr ⟨a4.1, rfl⟩, a4.2⟩

theorem doubleSec_sec (c : Cfg κ) (k : κ) (v : ν) (ca me : Bool) (fn : Ctx → ν → FnOut ν) (fuel curHp : Nat) :
    SecOf c (.uprase k v ca me fn) (doubleSec c fuel curHp) := by
  intro t m h hr
  obtain ⟨a1, a2, _, a4⟩ := fastDouble_spec c false true fuel t curHp h (fun e => by cases e)
  obtain ⟨b1, b2⟩ := fastDouble_rc c false true fuel t curHp h
  have hr1 := hr.of_same a2
  unfold doubleSec
  rcases hd : fastDouble c false true fuel t curHp with ⟨t', _ | e⟩
  · rw [hd] at a1 b1 b2 hr1
    exact ⟨a1, b1, b2, hr1⟩
  · rw [hd] at a1 b1 b2 hr1 a4
    exact ⟨a1, b1, b2, m, .inl ⟨e, a4, rfl, rfl⟩, hr1⟩

theorem rehashSec_sec (c : Cfg κ) (n : Nat) : SecOf c (Call.rehash n : Call κ ν) (rehashSec c n) := by
  intro t m h hr
  obtain ⟨a1, a2, _, _⟩ := C02.rehash_refines c false t m n h hr (fun e => by cases e)
  have hb : t.rc ≤ (t.rehash c false n).1.rc ∧ ((t.rehash c false n).1.rc = t.rc → (t.rehash c false n).1.hp = t.hp) := by
    unfold Table.rehash
    split
    · exact ⟨Nat.le_refl _, fun _ => rfl⟩
    · exact expandSimple_rc c false false _ t n h
  exact ⟨a1, hb.1, hb.2, m, ⟨rfl, rfl⟩, a2⟩

theorem reserveSec_sec (c : Cfg κ) (n : Nat) : SecOf c (Call.reserve n : Call κ ν) (reserveSec c n) := by
  intro t m h hr
  obtain ⟨a1, a2, _, _⟩ := C02.reserve_refines c false t m n h hr (fun e => by cases e)
  have hb : t.rc ≤ (t.reserve c false n).1.rc ∧ ((t.reserve c false n).1.rc = t.rc → (t.reserve c false n).1.hp = t.hp) := by
    unfold Table.reserve
    simp only
    split
    · exact ⟨Nat.le_refl _, fun _ => rfl⟩
    · exact expandSimple_rc c false false _ t _ h
  exact ⟨a1, hb.1, hb.2, m, ⟨rfl, rfl⟩, a2⟩

/-- the rebuild under all locks is a legitimate final section of `rehash` and of `reserve` for ANY target hashpower and any
table — in particular when the unlocked pre-check of the public member saw an older hashpower -/
private theorem expandSec_core (c : Cfg κ) (n : Nat) (t : Table κ ν) (m : AMap κ ν) (h : Inv c t) (hr : Rel c t m) :
    Inv c (expandSec (ν := ν) c n t).1 ∧ t.rc ≤ (expandSec (ν := ν) c n t).1.rc ∧
    ((expandSec (ν := ν) c n t).1.rc = t.rc → (expandSec (ν := ν) c n t).1.hp = t.hp) ∧ Rel c (expandSec (ν := ν) c n t).1 m := by
  obtain ⟨a1, a2, _, _⟩ := expandSimple_spec c false false (c.fuel t.cur.cells.size) t n h (fun e => by cases e)
  obtain ⟨b1, b2⟩ := expandSimple_rc c false false (c.fuel t.cur.cells.size) t n h
  exact ⟨a1, b1, b2, hr.of_same a2⟩

theorem expandSec_sec_rehash (c : Cfg κ) (req n : Nat) : SecOf c (Call.rehash req : Call κ ν) (expandSec c n) := by
  intro t m h hr
  obtain ⟨a1, a2, a3, a4⟩ := expandSec_core c n t m h hr
  exact ⟨a1, a2, a3, m, ⟨rfl, rfl⟩, a4⟩

theorem expandSec_sec_reserve (c : Cfg κ) (req n : Nat) : SecOf c (Call.reserve req : Call κ ν) (expandSec c n) := by
  intro t m h hr
  obtain ⟨a1, a2, a3, a4⟩ := expandSec_core c n t m h hr
  exact ⟨a1, a2, a3, m, ⟨rfl, rfl⟩, a4⟩

/-- when the request differs from the current hashpower the whole member is that section -/
theorem rehashSec_eq_expandSec (c : Cfg κ) (n : Nat) (t : Table κ ν) (hne : n ≠ t.hp) :
    rehashSec c n t = expandSec c n t := by
  unfold rehashSec expandSec Table.rehash
  simp [hne]

theorem clearSec_sec (c : Cfg κ) : SecOf c (Call.clear : Call κ ν) (clearSec c) := by
  intro t m h hr
  obtain ⟨a1, a2, _⟩ := C02.clear_refines c t m h hr
  obtain ⟨b1, b2⟩ := clear_rc_hp c t
  exact ⟨a1, Nat.le_of_eq b1.symm, fun _ => b2, [], ⟨rfl, rfl⟩, a2⟩

/-! ### schedules -/

/-- one scheduled section, tagged with the call it belongs to -/
structure Ev (c : Cfg κ) (ν : Type) where
  call : Call κ ν
  f : Section κ ν
  ok : SecOf c call f

/-- the abstract map run through the final sections of a schedule, in schedule order -/
def linRun (m : AMap κ ν) : List (Call κ ν) → List (Option (Resp ν)) → AMap κ ν → Prop
  | [], [], m' => m' = m
  | _ :: cs, none :: rs, m' => linRun m cs rs m'
  | cl :: cs, some r :: rs, m' => ∃ m1, specOf m cl r m1 ∧ linRun m1 cs rs m'
  | _, _, _ => False

/-- **linearizability of every interleaving** -/
theorem conc_linearizable (c : Cfg κ) (evs : List (Ev c ν)) (t : Table κ ν) (m : AMap κ ν) (h : Inv c t) (hr : Rel c t m) :
    ∃ m', linRun m (evs.map (·.call)) (exec t (evs.map (·.f))).2 m' ∧
      Inv c (exec t (evs.map (·.f))).1 ∧ Rel c (exec t (evs.map (·.f))).1 m' := by
  induction evs generalizing t m with
  | nil => exact ⟨m, rfl, h, hr⟩
  | cons ev rest ih =>
    obtain ⟨i1, _, _, i4⟩ := ev.ok t m h hr
    simp only [List.map_cons, exec]
    cases hres : (ev.f t).2 with
    | none =>
      rw [hres] at i4
      obtain ⟨m', a, b, d⟩ := ih (ev.f t).1 m i1 i4
      exact ⟨m', a, b, d⟩
    | some r =>
      rw [hres] at i4
      obtain ⟨m1, s1, r1⟩ := i4
      obtain ⟨m', a, b, d⟩ := ih (ev.f t).1 m1 i1 r1
      exact ⟨m', ⟨m1, s1, a⟩, b, d⟩

/-- in particular no key is ever stored twice and every stored pair is a pair of the linearized map, at every point
of every schedule (every prefix of a schedule is a schedule) -/
theorem never_stored_twice (c : Cfg κ) (evs : List (Ev c ν)) (t : Table κ ν) (m : AMap κ ν) (h : Inv c t) (hr : Rel c t m)
    (p p' : Loc) (sl sl' : Slot κ ν)
    (h1 : (exec t (evs.map (·.f))).1.at c p = some sl) (h2 : (exec t (evs.map (·.f))).1.at c p' = some sl')
    (hk : sl.key = sl'.key) : p = p' := by
  obtain ⟨_, _, hi, _⟩ := conc_linearizable c evs t m h hr
  exact hi.uniq p p' sl sl' h1 h2 hk

/-- along any schedule the resize counter never decreases, and the hashpower changes only together with it -/
private theorem rc_mono (c : Cfg κ) (evs : List (Ev c ν)) (t : Table κ ν) (m : AMap κ ν) (h : Inv c t) (hr : Rel c t m) :
    t.rc ≤ (exec t (evs.map (·.f))).1.rc ∧
    ((exec t (evs.map (·.f))).1.rc = t.rc → (exec t (evs.map (·.f))).1.hp = t.hp) := by
  induction evs generalizing t m with
  | nil => exact ⟨Nat.le_refl _, fun _ => rfl⟩
  | cons ev rest ih =>
    obtain ⟨i1, i2, i3, i4⟩ := ev.ok t m h hr
    simp only [List.map_cons, exec]
    have key : ∀ m1, Rel c (ev.f t).1 m1 →
        t.rc ≤ (exec (ev.f t).1 (rest.map (·.f))).1.rc ∧
        ((exec (ev.f t).1 (rest.map (·.f))).1.rc = t.rc → (exec (ev.f t).1 (rest.map (·.f))).1.hp = t.hp) := by
      intro m1 r1
      obtain ⟨a, b⟩ := ih (ev.f t).1 m1 i1 r1
      refine ⟨Nat.le_trans i2 a, fun e => ?_⟩
      have e1 : (ev.f t).1.rc = t.rc := by omega
      rw [b (by omega), i3 e1]
    cases hres : (ev.f t).2 with
    | none => rw [hres] at i4; exact key m i4
    | some r =>
      rw [hres] at i4
      obtain ⟨m1, _, r1⟩ := i4
      exact key m1 r1

/-- the resize counter guards the hashpower along every schedule: if the counter after the schedule equals the counter
before it, so does the hashpower (hence re-validating the counter alone suffices) -/
theorem rc_check_implies_hp_check (c : Cfg κ) (evs : List (Ev c ν)) (t : Table κ ν) (m : AMap κ ν) (h : Inv c t) (hr : Rel c t m)
    (hrc : (exec t (evs.map (·.f))).1.rc = t.rc) : (exec t (evs.map (·.f))).1.hp = t.hp := by
  exact (rc_mono c evs t m h hr).2 hrc

/-- the sequential insertion is one particular schedule: its first section is `insertTrySec` -/
theorem insertTry_is_first_section (c : Cfg κ) (t : Table κ ν) (k : κ) (v : ν) (ca me : Bool) (fn : Ctx → ν → FnOut ν)
    (p : InsPos) (hp : tryInsert c (t.lockTwo c (c.i1 t.hp k) (c.i2 t.hp k)).cur (c.i1 t.hp k) (c.i2 t.hp k) k = .pos p) :
    (insertTrySec c k v ca me fn t).1 = (finishInsert c (t.lockTwo c (c.i1 t.hp k) (c.i2 t.hp k)) k v ca me fn p).1 := by
  unfold insertTrySec
  simp only [hp]

end Cuckoo.Props.C01Conc
