import Cuckoo.Model.Conc
import Cuckoo.Props.C02
/-!
# C01 (second half) — every interleaving of critical sections is linearizable

`Model/Conc.lean` defines the atomic critical sections the operations consist of, each applicable to *any* table
state with *any* (possibly stale) local data.  Here:

* `SecOf c call f` : `f` is a legitimate section of `call` — from every state satisfying the invariant it preserves the
  invariant, never decreases the resize counter and changes the hashpower only together with it, and either leaves
  the abstract map unchanged (internal section) or is the call's final section and transforms the abstract map and
  answers exactly as the sequential specification of that call does.
* every concrete section of the code is `SecOf` its call, for all parameters (`*_sec` theorems);
* `conc_linearizable`: for every schedule — any finite sequence of sections of any calls of any threads, i.e. every
  interleaving — the final sections, in the order in which they take effect, form a sequential execution of the abstract
  map that yields every response, and the final table represents the final map.  Since a call's final section takes
  effect between its invocation and its return, that order respects real time: this is linearizability, with the
  final sections as linearization points.
* `rc_check_implies_hp_check`: along any schedule, an unchanged resize counter implies an unchanged hashpower, so the
  code's re-validation of the counter alone is as good as the model's check of both.

What is **assumed** (DESIGN 12.2): that a lock-protected block of the real code is atomic and runs on the current
table — the protocol theorems of `Props/C01.lean` / `C03.lean` + the two-phase-locking reduction, which is not
mechanised; helper threads are not modelled; a locked_table section is a run of sequential steps (C02) by its owner.
-/
namespace Cuckoo.Props.C01Conc
open Cuckoo Cuckoo.Model Cuckoo.Model.Conc Cuckoo.Spec
variable {κ ν : Type} [DecidableEq κ]

/-- the calls of a client program (find/contains/update/erase are `lookup`; insert/insert_or_assign/upsert/uprase_fn are `uprase`) -/
inductive Call (κ ν : Type)
  | lookup (canErase : Bool) (k : κ) (fn : ν → FnOut ν)
  | uprase (k : κ) (v : ν) (ctxAware mayErase : Bool) (fn : Ctx → ν → FnOut ν)
  | rehash (n : Nat)
  | reserve (n : Nat)
  | clear

/-- sequential specification of a finished call: response `r` and next map `m'` from map `m` -/
def specOf (m : AMap κ ν) : Call κ ν → Resp ν → AMap κ ν → Prop
  | .lookup ce k fn, r, m' =>
    (match m.lookup k with
     | none => r = .bool (.ok false) [] ∧ m' = m
     | some v =>
       match fn v with
       | .ret v' er => r = .bool (.ok true) [⟨none, v⟩] ∧ m' = (if ce && er then m.erase k else m.set k v')
       | .throw v' => r = .bool (.err .fnThrow) [⟨none, v⟩] ∧ m' = m.set k v')
  | .uprase k v ca me fn, r, m' =>
    (∃ e, ResizeErr e ∧ r = .bool (.err e) [] ∧ m' = m) ∨
    (r = .bool (C02.upraseSpec m k v ca me fn).1 (C02.upraseSpec m k v ca me fn).2.1 ∧ m' = (C02.upraseSpec m k v ca me fn).2.2)
  | .rehash _, r, m' => r = .unit ∧ m' = m
  | .reserve _, r, m' => r = .unit ∧ m' = m
  | .clear, r, m' => r = .unit ∧ m' = []

/-- `f` is a legitimate critical section of `call` -/
def SecOf (c : Cfg κ) (call : Call κ ν) (f : Section κ ν) : Prop :=
  ∀ t m, Inv c t → Rel c t m →
    Inv c (f t).1 ∧ t.rc ≤ (f t).1.rc ∧ ((f t).1.rc = t.rc → (f t).1.hp = t.hp) ∧
    match (f t).2 with
    | none => Rel c (f t).1 m
    | some r => ∃ m', specOf m call r m' ∧ Rel c (f t).1 m'

/-! ### every concrete section is legitimate, for all (stale) parameters -/

theorem lockSec_sec (c : Cfg κ) (call : Call κ ν) (bs : List Nat) : SecOf c call (lockSec c bs) := by
  sorry

theorem hopSec_sec (c : Cfg κ) (call : Call κ ν) (hpS rcS : Nat) (fr to : PathRec) :
    SecOf c call (hopSec c hpS rcS fr to) := by
  sorry

theorem lookupSec_sec (c : Cfg κ) (ce : Bool) (k : κ) (fn : ν → FnOut ν) :
    SecOf c (.lookup ce k fn) (lookupSec c ce k fn) := by
  sorry

theorem insertTrySec_sec (c : Cfg κ) (k : κ) (v : ν) (ca me : Bool) (fn : Ctx → ν → FnOut ν) :
    SecOf c (.uprase k v ca me fn) (insertTrySec c k v ca me fn) := by
  sorry

theorem insertLastSec_sec (c : Cfg κ) (hpS rcS : Nat) (k : κ) (v : ν) (ca me : Bool) (fn : Ctx → ν → FnOut ν)
    (fr : PathRec) (to : Option PathRec) :
    SecOf c (.uprase k v ca me fn) (insertLastSec c hpS rcS k v ca me fn fr to) := by
  sorry

theorem doubleSec_sec (c : Cfg κ) (k : κ) (v : ν) (ca me : Bool) (fn : Ctx → ν → FnOut ν) (fuel curHp : Nat) :
    SecOf c (.uprase k v ca me fn) (doubleSec c fuel curHp) := by
  sorry

theorem rehashSec_sec (c : Cfg κ) (n : Nat) : SecOf c (Call.rehash n : Call κ ν) (rehashSec c n) := by
  sorry

theorem reserveSec_sec (c : Cfg κ) (n : Nat) : SecOf c (Call.reserve n : Call κ ν) (reserveSec c n) := by
  sorry

theorem clearSec_sec (c : Cfg κ) : SecOf c (Call.clear : Call κ ν) (clearSec c) := by
  sorry

/-! ### schedules -/

/-- one scheduled section, tagged with the call it belongs to -/
structure Ev (c : Cfg κ) (ν : Type) where
  call : Call κ ν
  f : Section κ ν
  ok : SecOf c call f

/-- the abstract map run through the final sections of a schedule, in schedule order -/
def linRun (m : AMap κ ν) : List (Call κ ν) → List (Option (Resp ν)) → AMap κ ν → Prop
  | [], [], m' => m' = m
  | _ :: cs, none :: rs, m' => linRun m cs rs m'
  | cl :: cs, some r :: rs, m' => ∃ m1, specOf m cl r m1 ∧ linRun m1 cs rs m'
  | _, _, _ => False

/-- **linearizability of every interleaving** -/
theorem conc_linearizable (c : Cfg κ) (evs : List (Ev c ν)) (t : Table κ ν) (m : AMap κ ν) (h : Inv c t) (hr : Rel c t m) :
    ∃ m', linRun m (evs.map (·.call)) (exec t (evs.map (·.f))).2 m' ∧
      Inv c (exec t (evs.map (·.f))).1 ∧ Rel c (exec t (evs.map (·.f))).1 m' := by
  sorry

/-- in particular no key is ever stored twice and every stored pair is a pair of the linearized map, at every point
of every schedule (every prefix of a schedule is a schedule) -/
theorem never_stored_twice (c : Cfg κ) (evs : List (Ev c ν)) (t : Table κ ν) (m : AMap κ ν) (h : Inv c t) (hr : Rel c t m)
    (p p' : Loc) (sl sl' : Slot κ ν)
    (h1 : (exec t (evs.map (·.f))).1.at c p = some sl) (h2 : (exec t (evs.map (·.f))).1.at c p' = some sl')
    (hk : sl.key = sl'.key) : p = p' := by
  sorry

/-- the resize counter guards the hashpower along every schedule: if the counter after the schedule equals the counter
before it, so does the hashpower (hence re-validating the counter alone suffices) -/
theorem rc_check_implies_hp_check (c : Cfg κ) (evs : List (Ev c ν)) (t : Table κ ν) (m : AMap κ ν) (h : Inv c t) (hr : Rel c t m)
    (hrc : (exec t (evs.map (·.f))).1.rc = t.rc) : (exec t (evs.map (·.f))).1.hp = t.hp := by
  sorry

/-- the sequential insertion is one particular schedule: its first section is `insertTrySec` -/
theorem insertTry_is_first_section (c : Cfg κ) (t : Table κ ν) (k : κ) (v : ν) (ca me : Bool) (fn : Ctx → ν → FnOut ν)
    (p : InsPos) (hp : tryInsert c (t.lockTwo c (c.i1 t.hp k) (c.i2 t.hp k)).cur (c.i1 t.hp k) (c.i2 t.hp k) k = .pos p) :
    (insertTrySec c k v ca me fn t).1 = (finishInsert c (t.lockTwo c (c.i1 t.hp k) (c.i2 t.hp k)) k v ca me fn p).1 := by
  sorry

end Cuckoo.Props.C01Conc
