import Cuckoo.Proofs.RebuildAux3
import Cuckoo.Props.C01Sched
/-!
# C02 (helper threads, second use) — the rebuild of `cuckoo_expand_simple` run by several threads

With `max_num_worker_threads() > 0` the loop of `cuckoo_expand_simple`

    for each occupied slot of the old array:  new_map.insert(key, value)

is run through `parallel_exec`: every thread gets a chunk of bucket indices and executes its `insert` calls on the
temporary map `new_map` **concurrently** with the others.  Where an element lands (the layout of `new_map`, even its
hashpower if an insertion has to double it) then depends on timing.  Its *contents* do not:

* `rebuild_contents_exact`: for EVERY schedule of critical sections (`Model/Conc`, `C01Conc.Ev`) of `insert` calls on an
  empty, well-formed table in which every call that answers succeeds and for every item exactly one call on it answers,
  the final table satisfies the invariant and represents a map `m'` with `m'.lookup k = some v ↔ (k, v) ∈ items`,
  `m'.length = items.length`, `size() = items.length`; and every answer is `true` (newly inserted): no element is
  taken for a duplicate, i.e. none is dropped by the duplicate branch of the loop (`rebuildStep`).
  The hypothesis is stated with `RebuildA.completed calls responses`: the pairs `(k, v)` of those entries of
  `calls.zip responses` whose response is `some _`, in schedule order; "exactly one final response per item" is
  `(completed …).Perm items` (`items` has pairwise distinct keys).  `rebuild_sched_of_items` gives the structure
  `RebuildSched` from the hypotheses written out.
* `rebuild_any_interleaving_same_contents`, `rebuild_any_interleaving_same_finds`: two such schedules (different
  interleavings, different chunking, even different empty start tables) end in tables that represent the same finite
  map, have the same `size()`, and answer every `find` alike.
* `seq_rebuild_is_schedule`: the sequential loop of the model, `foldl (rebuildStep c (insertLoop c false fuel))`, ending
  without exception, IS the run of one such schedule (the concatenation of the schedules `Sched.insSched` of the single
  insertions, `C01Sched.insertLoop_is_schedule`); it never takes the duplicate branch.  `tempMap_is_empty`: the
  temporary map built by `expandSimple` satisfies the hypotheses on `t0`.
* `helper_rebuild_contents`: the items being the elements of the old array (keys distinct by `Inv.uniq`), handed out
  in chunks by `splitWork` (`C02Par.splitWork_partition`: every bucket to exactly one thread): if the answered calls
  are ANY interleaving (`RebuildA.Interleave`: each thread keeps its own order) of the chunks' work lists, the final
  table represents exactly the elements of the old array; `helper_rebuild_same_as_sequential`: the same finite map as
  the one the sequential loop of the model builds.
* examples: two items in both orders on an abstract table; a concrete table, three schedules with internal sections
  interleaved, all hypotheses evaluated by the kernel.

What is **assumed**: as in `C01Conc` — a lock-protected block is atomic and runs on the current table; in addition
that every helper thread's `insert` calls return (the hypothesis "exactly one final response per item": termination is
not proved here) and that none ends with an exception (`parallel_exec` would rethrow it and the rebuild would be
abandoned; `AllOk`).
-/
namespace Cuckoo.Props.C02Rebuild
open Cuckoo Cuckoo.Model Cuckoo.Model.Conc Cuckoo.Spec Cuckoo.Props.C01Conc Cuckoo.Model.RebuildA
variable {κ ν : Type} [DecidableEq κ]

/-- the hypotheses written out: every event belongs to an `insert(k, v)` call of an item; every final response is a
success; the calls with a final response are, in some order, exactly the items -/
theorem rebuild_sched_of_items (c : Cfg κ) (items : List (κ × ν)) (t0 : Table κ ν) (evs : List (Ev c ν))
    (hcalls : ∀ ev ∈ evs, ∃ k v, (k, v) ∈ items ∧ ev.call = .uprase k v false false (fun _ w => .ret w false))
    (hok : ∀ r, some r ∈ (exec t0 (evs.map (·.f))).2 → ∃ b calls, r = Resp.bool (.ok b) calls)
    (honce : (completed (evs.map (·.call)) (exec t0 (evs.map (·.f))).2).Perm items) :
    RebuildSched c items t0 evs :=
  ⟨fun ev hev => by obtain ⟨k, v, _, e⟩ := hcalls ev hev; exact ⟨k, v, e⟩, hok, honce⟩

/-- **the contents of a concurrently rebuilt map are exactly the items**, whatever the interleaving -/
theorem rebuild_contents_exact (c : Cfg κ) (items : List (κ × ν)) (hnd : (items.map Prod.fst).Nodup)
    (t0 : Table κ ν) (h : Inv c t0) (hr : Rel c t0 []) (evs : List (Ev c ν)) (hs : RebuildSched c items t0 evs) :
    ∃ m' : AMap κ ν,
      Inv c (exec t0 (evs.map (·.f))).1 ∧ Rel c (exec t0 (evs.map (·.f))).1 m' ∧
      m'.Perm items ∧ (∀ k v, m'.lookup k = some v ↔ (k, v) ∈ items) ∧ m'.length = items.length ∧
      (exec t0 (evs.map (·.f))).1.size = items.length ∧
      (∀ r, some r ∈ (exec t0 (evs.map (·.f))).2 → r = Resp.bool (.ok true) []) := by
  obtain ⟨a1, a2, a3⟩ := rebuild_core c items hnd t0 h hr evs hs
  have hp : (completed (evs.map (·.call)) (run t0 evs).2).reverse.Perm items :=
    (List.reverse_perm _).trans hs.once
  refine ⟨_, a1, a2, hp, ?_, hp.length_eq, ?_, a3⟩
  · intro k v
    rw [AMap.lookup_eq_some_iff _ a2.nodup]
    exact hp.mem_iff
  · rw [C05.size_eq_card c _ _ a2]
    exact hp.length_eq

/-- two rebuilds of the same items — different interleavings, different chunkings — represent the same finite map -/
theorem rebuild_any_interleaving_same_contents (c : Cfg κ) (items : List (κ × ν)) (hnd : (items.map Prod.fst).Nodup)
    (t1 t2 : Table κ ν) (h1 : Inv c t1) (hr1 : Rel c t1 []) (h2 : Inv c t2) (hr2 : Rel c t2 [])
    (evs1 evs2 : List (Ev c ν)) (hs1 : RebuildSched c items t1 evs1) (hs2 : RebuildSched c items t2 evs2) :
    ∃ m1 m2 : AMap κ ν,
      Rel c (exec t1 (evs1.map (·.f))).1 m1 ∧ Rel c (exec t2 (evs2.map (·.f))).1 m2 ∧
      m1.Perm m2 ∧ (∀ k, m1.lookup k = m2.lookup k) ∧
      (exec t1 (evs1.map (·.f))).1.size = (exec t2 (evs2.map (·.f))).1.size := by
  obtain ⟨m1, _, a2, a3, _, _, a6, _⟩ := rebuild_contents_exact c items hnd t1 h1 hr1 evs1 hs1
  obtain ⟨m2, _, b2, b3, _, _, b6, _⟩ := rebuild_contents_exact c items hnd t2 h2 hr2 evs2 hs2
  exact ⟨m1, m2, a2, b2, a3.trans b3.symm, lookup_congr_of_perm m1 m2 (a3.trans b3.symm) a2.nodup, a6.trans b6.symm⟩

/-- observably: every `find` gives the same answer on the two rebuilt tables -/
theorem rebuild_any_interleaving_same_finds (c : Cfg κ) (items : List (κ × ν)) (hnd : (items.map Prod.fst).Nodup)
    (t1 t2 : Table κ ν) (h1 : Inv c t1) (hr1 : Rel c t1 []) (h2 : Inv c t2) (hr2 : Rel c t2 [])
    (evs1 evs2 : List (Ev c ν)) (hs1 : RebuildSched c items t1 evs1) (hs2 : RebuildSched c items t2 evs2) (k : κ) :
    ((exec t1 (evs1.map (·.f))).1.findVal c k).2 = ((exec t2 (evs2.map (·.f))).1.findVal c k).2 := by
  obtain ⟨_, a1, _⟩ := rebuild_contents_exact c items hnd t1 h1 hr1 evs1 hs1
  obtain ⟨_, b1, _⟩ := rebuild_contents_exact c items hnd t2 h2 hr2 evs2 hs2
  obtain ⟨n1, n2, r1, r2, _, hl, _⟩ :=
    rebuild_any_interleaving_same_contents c items hnd t1 t2 h1 hr1 h2 hr2 evs1 evs2 hs1 hs2
  rw [(C02.findVal_refines c _ n1 k a1 r1).2.2, (C02.findVal_refines c _ n2 k b1 r2).2.2, hl k]

/-! ### the sequential loop of the model is one such schedule -/

omit [DecidableEq κ] in
/-- the temporary map `new_map` that `expandSimple` builds (`Table.init` with the policy fields of the old table) is
well formed and empty: it satisfies the hypotheses on `t0` above -/
theorem tempMap_is_empty (c : Cfg κ) (n w : Nat) (f : Float) (mh : Nat) (hS : 0 < c.S) (hM : ∃ m, c.M = 2 ^ m)
    (hlim : mh = noMaxHp ∨ Spec.reserveCalc c.S n ≤ mh) :
    Inv c ({ (Table.init c n : Table κ ν) with workers := w, mlf := f, mhp := mh }) ∧
    Rel c ({ (Table.init c n : Table κ ν) with workers := w, mlf := f, mhp := mh }) [] :=
  tempMap_empty c n w f mh hS hM hlim

/-- the loop of `expandSimple` over a list `L` of elements with distinct keys (one thread, no exception) is the run of a
rebuild schedule of the pairs of `L`: same final table -/
theorem seq_rebuild_is_schedule (c : Cfg κ) (fuel : Nat) (L : List (Slot κ ν)) (hnd : (L.map (·.key)).Nodup)
    (nm nmF : Table κ ν) (h : Inv c nm) (hr : Rel c nm [])
    (hf : L.foldl (rebuildStep c (insertLoop c false fuel)) (nm, .ok ()) = (nmF, .ok ())) :
    ∃ evs : List (Ev c ν), RebuildSched c (L.map kv) nm evs ∧ (exec nm (evs.map (·.f))).1 = nmF := by
  obtain ⟨evs, e1, e2, e3, e4⟩ := seq_rebuild_sched c fuel L nm [] h hr hnd (fun _ _ => rfl) nmF hf
  refine ⟨evs, ⟨?_, e3, ?_⟩, e2⟩
  · intro ev hev
    obtain ⟨sl, _, e⟩ := e1 ev hev
    exact ⟨_, _, e⟩
  · rw [e4]
    exact List.Perm.refl _

/-- hence the sequential loop builds exactly the contents of `L`, and every concurrent rebuild of the same elements
represents the same finite map as the sequential one -/
theorem rebuild_same_as_sequential (c : Cfg κ) (fuel : Nat) (L : List (Slot κ ν)) (hnd : (L.map (·.key)).Nodup)
    (nm nmF : Table κ ν) (h : Inv c nm) (hr : Rel c nm [])
    (hf : L.foldl (rebuildStep c (insertLoop c false fuel)) (nm, .ok ()) = (nmF, .ok ()))
    (t0 : Table κ ν) (h0 : Inv c t0) (hr0 : Rel c t0 []) (evs : List (Ev c ν)) (hs : RebuildSched c (L.map kv) t0 evs) :
    ∃ mS mC : AMap κ ν, Rel c nmF mS ∧ Rel c (exec t0 (evs.map (·.f))).1 mC ∧
      (∀ k v, mS.lookup k = some v ↔ (k, v) ∈ L.map kv) ∧ (∀ k, mC.lookup k = mS.lookup k) ∧
      (exec t0 (evs.map (·.f))).1.size = nmF.size := by
  obtain ⟨evsS, hsS, hT⟩ := seq_rebuild_is_schedule c fuel L hnd nm nmF h hr hf
  have hnd' : ((L.map kv).map Prod.fst).Nodup := by rw [List.map_map]; exact hnd
  obtain ⟨mS, _, s2, _, s4, _⟩ := rebuild_contents_exact c _ hnd' nm h hr evsS hsS
  obtain ⟨m1, m2, r1, r2, _, hl, hsz⟩ :=
    rebuild_any_interleaving_same_contents c _ hnd' t0 nm h0 hr0 h hr evs evsS hs hsS
  rw [hT] at s2 r2 hsz
  refine ⟨mS, m1, s2, r1, s4, ?_, hsz⟩
  intro k
  rw [hl k]
  -- two representations of the same table have the same lookups
  cases hk : mS.lookup k with
  | some v =>
    rw [AMap.lookup_eq_some_iff _ r2.nodup, r2.pairs, ← s2.pairs, ← AMap.lookup_eq_some_iff _ s2.nodup]
    exact hk
  | none =>
    rw [AMap.lookup_eq_none_iff] at hk ⊢
    intro v hv
    exact hk v ((s2.pairs k v).mpr ((r2.pairs k v).mp hv))

/-! ### the helper threads of `cuckoo_expand_simple` -/

/-- the old array's elements, handed out in chunks of buckets by `parallel_exec` to `workers` helper threads and the
caller, and inserted into the temporary map `t0` concurrently — any interleaving of sections, the answered calls being any
interleaving of the threads' work lists — : the temporary map ends up with exactly the elements of the old array -/
theorem helper_rebuild_contents (c : Cfg κ) (t : Table κ ν) (ht : Inv c t) (workers : Nat)
    (t0 : Table κ ν) (h0 : Inv c t0) (hr0 : Rel c t0 []) (evs : List (Ev c ν))
    (hcalls : ∀ ev ∈ evs, ∃ k v, ev.call = insCall k v)
    (hok : AllOk (exec t0 (evs.map (·.f))).2)
    (hil : Interleave ((splitWork 0 (2 ^ t.cur.hp) workers).map (chunkItems c.S t.cur))
      (completed (evs.map (·.call)) (exec t0 (evs.map (·.f))).2)) :
    RebuildSched c (t.cur.elems.map kv) t0 evs ∧
    ∃ m' : AMap κ ν, Inv c (exec t0 (evs.map (·.f))).1 ∧ Rel c (exec t0 (evs.map (·.f))).1 m' ∧
      (∀ k v, m'.lookup k = some v ↔ ∃ sl ∈ t.cur.elems, sl.key = k ∧ sl.val = v) ∧
      (exec t0 (evs.map (·.f))).1.size = t.cur.elems.length ∧
      (∀ r, some r ∈ (exec t0 (evs.map (·.f))).2 → r = Resp.bool (.ok true) []) := by
  have hcov := chunks_cover c.S t.cur (2 ^ t.cur.hp) workers ht.cur_wf.size
  have hs : RebuildSched c (t.cur.elems.map kv) t0 evs := ⟨hcalls, hok, by rw [← hcov]; exact hil.perm⟩
  refine ⟨hs, ?_⟩
  obtain ⟨m', a1, a2, _, a4, _, a6, a7⟩ := rebuild_contents_exact c _ (elems_keys_nodup ht) t0 h0 hr0 evs hs
  refine ⟨m', a1, a2, ?_, by rw [a6, List.length_map], a7⟩
  intro k v
  rw [a4, List.mem_map]
  constructor
  · rintro ⟨sl, hsl, e⟩
    cases e
    exact ⟨sl, hsl, rfl, rfl⟩
  · rintro ⟨sl, hsl, rfl, rfl⟩
    exact ⟨sl, hsl, rfl⟩

/-- … and that is the finite map the sequential loop of the model builds from the same array: **the helper-thread rebuild is
correct at the level of contents** -/
theorem helper_rebuild_same_as_sequential (c : Cfg κ) (t : Table κ ν) (ht : Inv c t) (workers fuel : Nat)
    (nm nmF : Table κ ν) (h : Inv c nm) (hr : Rel c nm [])
    (hf : t.cur.elems.foldl (rebuildStep c (insertLoop c false fuel)) (nm, .ok ()) = (nmF, .ok ()))
    (t0 : Table κ ν) (h0 : Inv c t0) (hr0 : Rel c t0 []) (evs : List (Ev c ν))
    (hcalls : ∀ ev ∈ evs, ∃ k v, ev.call = insCall k v)
    (hok : AllOk (exec t0 (evs.map (·.f))).2)
    (hil : Interleave ((splitWork 0 (2 ^ t.cur.hp) workers).map (chunkItems c.S t.cur))
      (completed (evs.map (·.call)) (exec t0 (evs.map (·.f))).2)) :
    ∃ mS mC : AMap κ ν, Rel c nmF mS ∧ Rel c (exec t0 (evs.map (·.f))).1 mC ∧ (∀ k, mC.lookup k = mS.lookup k) ∧
      (exec t0 (evs.map (·.f))).1.size = nmF.size ∧
      ∀ k, ((exec t0 (evs.map (·.f))).1.findVal c k).2 = (nmF.findVal c k).2 := by
  obtain ⟨hs, _, i1, _⟩ := helper_rebuild_contents c t ht workers t0 h0 hr0 evs hcalls hok hil
  obtain ⟨evsS, hsS, hT⟩ := seq_rebuild_is_schedule c fuel _ (elems_keys_nodup' ht) nm nmF h hr hf
  obtain ⟨mS, mC, r1, r2, _, hl, hsz⟩ :=
    rebuild_same_as_sequential c fuel _ (elems_keys_nodup' ht) nm nmF h hr hf t0 h0 hr0 evs hs
  refine ⟨mS, mC, r1, r2, hl, hsz, ?_⟩
  intro k
  have := rebuild_any_interleaving_same_finds c _ (elems_keys_nodup ht) t0 nm h0 hr0 h hr evs evsS hs hsS k
  rw [hT] at this
  exact this

omit [DecidableEq κ] in
/-- the sequential chunk-by-chunk order is one of the interleavings (so the hypothesis `hil` is satisfiable for every
table and every number of workers) -/
theorem chunk_order_is_interleaving (S : Nat) (st : Store κ ν) (nb workers : Nat) :
    Interleave ((splitWork 0 nb workers).map (chunkItems S st)) ((splitWork 0 nb workers).map (chunkItems S st)).flatten :=
  Interleave.flatten _

/-- end to end for `cuckoo_expand_simple` on a table `t` that represents `m`: the old array is `(t.migrateAll c).cur`
(all stripes are migrated first, under all locks); whatever the interleaving of the helper threads' insertions, the
temporary map ends up representing `m` itself — same pairs, same `size()` -/
theorem helper_rebuild_preserves_map (c : Cfg κ) (t : Table κ ν) (m : AMap κ ν) (ht : Inv c t) (hr : Rel c t m)
    (workers : Nat) (t0 : Table κ ν) (h0 : Inv c t0) (hr0 : Rel c t0 []) (evs : List (Ev c ν))
    (hcalls : ∀ ev ∈ evs, ∃ k v, ev.call = insCall k v)
    (hok : AllOk (exec t0 (evs.map (·.f))).2)
    (hil : Interleave ((splitWork 0 (2 ^ (t.migrateAll c).cur.hp) workers).map (chunkItems c.S (t.migrateAll c).cur))
      (completed (evs.map (·.call)) (exec t0 (evs.map (·.f))).2)) :
    ∃ mC : AMap κ ν, Inv c (exec t0 (evs.map (·.f))).1 ∧ Rel c (exec t0 (evs.map (·.f))).1 mC ∧
      mC.Perm m ∧ (∀ k, mC.lookup k = m.lookup k) ∧ (exec t0 (evs.map (·.f))).1.size = t.size := by
  obtain ⟨m1, m2, _, _, m5, _⟩ := migrateAll_spec c t ht
  have hr' : Rel c (t.migrateAll c) m := hr.of_same m2
  obtain ⟨_, mC, a1, a2, a3, _, _⟩ := helper_rebuild_contents c (t.migrateAll c) m1 workers t0 h0 hr0 evs hcalls hok hil
  have hp : mC.Perm m := by
    apply perm_of_same_pairs mC m a2.nodup hr.nodup
    intro k v
    rw [← AMap.lookup_eq_some_iff mC a2.nodup, a3, elems_represent c _ m m1 hr' m5]
  refine ⟨mC, a1, a2, hp, lookup_congr_of_perm mC m hp a2.nodup, ?_⟩
  rw [C05.size_eq_card c _ _ a2, C05.size_eq_card c _ _ hr]
  exact hp.length_eq

/-! ### examples -/

/-- the one-section insertion (no displacement) as a scheduled event of its call -/
def insEv (c : Cfg κ) (k : κ) (v : ν) : Ev c ν :=
  ⟨insCall k v, insertTrySec c k v false false (fun _ w => .ret w false), insertTrySec_sec c k v false false _⟩

/-- a `lock_one` / `lock_two` / `lock_three` section (lazy migration only) of the insertion of `(k, v)` -/
def lockEv (c : Cfg κ) (k : κ) (v : ν) (bs : List Nat) : Ev c ν := ⟨insCall k v, lockSec c bs, lockSec_sec c _ bs⟩

/-- two items inserted by two threads, in both orders, on an abstract empty table: if both calls answer in their first
section with a success, the answers are `true` and the two tables represent the same map -/
example (c : Cfg κ) (t0 : Table κ ν) (h : Inv c t0) (hr : Rel c t0 []) (k1 k2 : κ) (v1 v2 : ν) (hne : k1 ≠ k2)
    (a1 a2 b1 b2 : Bool) (ca1 ca2 cb1 cb2 : List (Model.Call ν))
    (hA : (exec t0 ([insEv c k1 v1, insEv c k2 v2].map (·.f))).2 =
      [some (.bool (.ok a1) ca1), some (.bool (.ok a2) ca2)])
    (hB : (exec t0 ([insEv c k2 v2, insEv c k1 v1].map (·.f))).2 =
      [some (.bool (.ok b1) cb1), some (.bool (.ok b2) cb2)]) :
    (a1 = true ∧ a2 = true ∧ b1 = true ∧ b2 = true) ∧
    ∃ mA mB : AMap κ ν,
      Rel c (exec t0 ([insEv c k1 v1, insEv c k2 v2].map (·.f))).1 mA ∧
      Rel c (exec t0 ([insEv c k2 v2, insEv c k1 v1].map (·.f))).1 mB ∧
      (∀ k, mA.lookup k = mB.lookup k) ∧ mA.lookup k1 = some v1 ∧ mA.lookup k2 = some v2 ∧ mA.length = 2 := by
  have hnd : (([(k1, v1), (k2, v2)] : List (κ × ν)).map Prod.fst).Nodup := by
    simp only [List.map_cons, List.map_nil, List.nodup_cons, List.mem_singleton, List.not_mem_nil, not_false_eq_true,
      List.nodup_nil, and_true]
    exact hne
  have hsA : RebuildSched c [(k1, v1), (k2, v2)] t0 [insEv c k1 v1, insEv c k2 v2] := by
    refine ⟨?_, ?_, ?_⟩
    · intro ev hev
      simp only [List.mem_cons, List.not_mem_nil, or_false] at hev
      rcases hev with e | e <;> rw [e] <;> exact ⟨_, _, rfl⟩
    · show AllOk (exec t0 ([insEv c k1 v1, insEv c k2 v2].map (·.f))).2
      rw [hA]
      intro r hr
      simp only [List.mem_cons, List.not_mem_nil, or_false, Option.some.injEq] at hr
      rcases hr with e | e <;> rw [e] <;> exact ⟨_, _, rfl⟩
    · show (completed _ (exec t0 ([insEv c k1 v1, insEv c k2 v2].map (·.f))).2).Perm _
      rw [hA]
      exact List.Perm.refl _
  have hsB : RebuildSched c [(k1, v1), (k2, v2)] t0 [insEv c k2 v2, insEv c k1 v1] := by
    refine ⟨?_, ?_, ?_⟩
    · intro ev hev
      simp only [List.mem_cons, List.not_mem_nil, or_false] at hev
      rcases hev with e | e <;> rw [e] <;> exact ⟨_, _, rfl⟩
    · show AllOk (exec t0 ([insEv c k2 v2, insEv c k1 v1].map (·.f))).2
      rw [hB]
      intro r hr
      simp only [List.mem_cons, List.not_mem_nil, or_false, Option.some.injEq] at hr
      rcases hr with e | e <;> rw [e] <;> exact ⟨_, _, rfl⟩
    · show (completed _ (exec t0 ([insEv c k2 v2, insEv c k1 v1].map (·.f))).2).Perm _
      rw [hB]
      exact List.Perm.swap _ _ _
  obtain ⟨mA, _, rA, _, lA, nA, _, newA⟩ := rebuild_contents_exact c _ hnd t0 h hr _ hsA
  obtain ⟨_, _, _, _, _, _, _, newB⟩ := rebuild_contents_exact c _ hnd t0 h hr _ hsB
  obtain ⟨m1, m2, r1, r2, _, hl, _⟩ := rebuild_any_interleaving_same_contents c _ hnd t0 t0 h hr h hr _ _ hsA hsB
  rw [hA] at newA
  rw [hB] at newB
  have e1 := newA _ List.mem_cons_self
  have e2 := newA _ (List.mem_cons_of_mem _ List.mem_cons_self)
  have e3 := newB _ List.mem_cons_self
  have e4 := newB _ (List.mem_cons_of_mem _ List.mem_cons_self)
  cases e1; cases e2; cases e3; cases e4
  refine ⟨⟨rfl, rfl, rfl, rfl⟩, mA, m2, rA, r2, ?_, (lA k1 v1).mpr List.mem_cons_self,
    (lA k2 v2).mpr (List.mem_cons_of_mem _ List.mem_cons_self), nA⟩
  intro k
  rw [← hl k]
  exact lookup_congr_of_perm mA m1 (perm_of_same_pairs mA m1 rA.nodup r1.nodup
    (fun k v => (rA.pairs k v).trans (r1.pairs k v).symm)) rA.nodup k

namespace Ex
open Cuckoo.Props.C01Sched.Ex

/-- the temporary map: eight buckets of one slot, four stripes (`C01Sched.Ex.cE`) -/
def t0 : Table Nat Nat := Table.init cE 8
def items : List (Nat × Nat) := [(0, 100), (8, 108), (1, 101)]

/-- thread A inserts 0 then 8, thread B inserts 1; three interleavings, the last two with internal `lock` sections of
calls that answer later.  Keys 0 and 8 have the same first bucket (5), so who comes first decides the layout. -/
def sA : List (Ev cE Nat) := [insEv cE 0 100, insEv cE 8 108, insEv cE 1 101]
def sB : List (Ev cE Nat) := [lockEv cE 1 101 [5], insEv cE 8 108, lockEv cE 0 100 [2, 3], insEv cE 1 101, insEv cE 0 100]
def sC : List (Ev cE Nat) := [insEv cE 1 101, lockEv cE 8 108 [5, 4], insEv cE 0 100, lockEv cE 8 108 [1, 2, 3], insEv cE 8 108]

theorem t0_ok : Inv cE t0 ∧ Rel cE t0 [] := C02.init_refines cE 8 (by decide) ⟨2, rfl⟩
theorem items_nodup : (items.map Prod.fst).Nodup := by decide

theorem sched_of_eval (evs : List (Ev cE Nat)) (h1 : ∀ ev ∈ evs, ∃ k v, ev.call = insCall k v)
    (h2 : (exec t0 (evs.map (·.f))).2.all isNew = true)
    (h3 : (completed (evs.map (·.call)) (exec t0 (evs.map (·.f))).2).Perm items) : RebuildSched cE items t0 evs :=
  ⟨h1, allOk_of_isNew _ h2, h3⟩

theorem calls_of_all (evs : List (Ev cE Nat)) (h : ∀ ev ∈ evs, ∃ k v, ev.call = insCall k v) (ev : Ev cE Nat)
    (k v : Nat) (he : ev.call = insCall k v) : ∀ x ∈ ev :: evs, ∃ k v, x.call = insCall k v := by
  intro x hx
  rcases List.mem_cons.mp hx with e | e
  · rw [e]; exact ⟨k, v, he⟩
  · exact h x e

theorem sA_sched : RebuildSched cE items t0 sA :=
  sched_of_eval sA
    (calls_of_all _ (calls_of_all _ (calls_of_all _ (fun _ h => (List.not_mem_nil h).elim) _ _ _ rfl) _ _ _ rfl) _ _ _ rfl)
    (by decide +kernel)
    (by
      have e : completed (sA.map (·.call)) (exec t0 (sA.map (·.f))).2 = [(0, 100), (8, 108), (1, 101)] := by decide +kernel
      rw [e]; exact List.Perm.refl _)

theorem sB_sched : RebuildSched cE items t0 sB :=
  sched_of_eval sB
    (calls_of_all _ (calls_of_all _ (calls_of_all _ (calls_of_all _ (calls_of_all _ (fun _ h => (List.not_mem_nil h).elim)
      _ _ _ rfl) _ _ _ rfl) _ _ _ rfl) _ _ _ rfl) _ _ _ rfl)
    (by decide +kernel)
    (by
      have e : completed (sB.map (·.call)) (exec t0 (sB.map (·.f))).2 = [(8, 108), (1, 101), (0, 100)] := by decide +kernel
      rw [e]; decide)

theorem sC_sched : RebuildSched cE items t0 sC :=
  sched_of_eval sC
    (calls_of_all _ (calls_of_all _ (calls_of_all _ (calls_of_all _ (calls_of_all _ (fun _ h => (List.not_mem_nil h).elim)
      _ _ _ rfl) _ _ _ rfl) _ _ _ rfl) _ _ _ rfl) _ _ _ rfl)
    (by decide +kernel)
    (by
      have e : completed (sC.map (·.call)) (exec t0 (sC.map (·.f))).2 = [(1, 101), (0, 100), (8, 108)] := by decide +kernel
      rw [e]; decide)

/-- the layouts differ … -/
example : keysOf (exec t0 (sA.map (·.f))).1 = [none, none, some 1, none, some 8, some 0, none, none] := by decide +kernel
example : keysOf (exec t0 (sB.map (·.f))).1 = [none, none, some 1, some 0, none, some 8, none, none] := by decide +kernel
example : keysOf (exec t0 (sC.map (·.f))).1 = [none, none, some 1, none, some 8, some 0, none, none] := by decide +kernel

/-- … the contents do not: the theorems instantiated -/
example : ∃ m1 m2 : AMap Nat Nat,
    Rel cE (exec t0 (sA.map (·.f))).1 m1 ∧ Rel cE (exec t0 (sB.map (·.f))).1 m2 ∧ m1.Perm m2 ∧
    (∀ k, m1.lookup k = m2.lookup k) ∧ (exec t0 (sA.map (·.f))).1.size = (exec t0 (sB.map (·.f))).1.size :=
  rebuild_any_interleaving_same_contents cE items items_nodup t0 t0 t0_ok.1 t0_ok.2 t0_ok.1 t0_ok.2 sA sB sA_sched sB_sched

example (k : Nat) : ((exec t0 (sB.map (·.f))).1.findVal cE k).2 = ((exec t0 (sC.map (·.f))).1.findVal cE k).2 :=
  rebuild_any_interleaving_same_finds cE items items_nodup t0 t0 t0_ok.1 t0_ok.2 t0_ok.1 t0_ok.2 sB sC sB_sched sC_sched k

example : (exec t0 (sB.map (·.f))).1.size = 3 := by
  obtain ⟨_, _, _, _, _, _, h, _⟩ := rebuild_contents_exact cE items items_nodup t0 t0_ok.1 t0_ok.2 sB sB_sched
  exact h

end Ex

end Cuckoo.Props.C02Rebuild
