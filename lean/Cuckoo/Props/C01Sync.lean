import Cuckoo.Gen.Sync

/-!
# C01 (static tie): the synchronisation skeleton of the *current source text* obeys the local protocol rules

`Cuckoo/Gen/Sync.lean` is regenerated on every run by `translate/syncskel.py` from `libcuckoo/cuckoohash_map.hh`
(text pass cross-checked action by action against clang's AST).  It lists, for every function that takes part in
the locking protocol of `Model/Proto.lean`, the ordered sequence of synchronisation-relevant actions (loads of the
resize counter / hashpower / current lock array, `lock()`, `unlock()`, validation, lazy rehash, bucket accesses, bucket
array replacement, counter bump, …) together with the structure markers (loop / if / else / try / catch / return /
throw / continue / break) and the operand texts.

Every theorem below is a closed Boolean check of one skeleton, proved by `decide` (kernel evaluation): a source change
that reorders, drops or re-targets one of these actions makes the corresponding theorem fail to compile — on every
path, executed by a test or not — while renaming locals, comments, asserts, debug / hook macros and reformatting do
not change the checked facts (local names are only ever used *relationally*: "the index locked first is the one the
guarded swap made the smaller", never by their spelling).

Each theorem is followed by a negative `example`: the same check rejects a hand-written bad skeleton (non-vacuity).
-/
namespace Cuckoo.Props.C01Sync
open Cuckoo.Gen.Sync

abbrev Sk := List Act

/-- shorthand for hand-written skeletons -/
def A (k : K) (r : String := "") (a : List String := []) : Act := ⟨k, r, a⟩

/-! ## generic executable predicates on action lists -/

def isMarker (k : K) : Bool :=
  k == .params || k == .decl || k == .step || k == .loop || k == .endLoop || k == .if_ || k == .then_ || k == .else_ ||
  k == .endIf || k == .try_ || k == .catch_ || k == .endTry || k == .switch_ || k == .case_ || k == .default_ ||
  k == .endSwitch || k == .lambda_ || k == .endLambda || k == .ret || k == .throw_ || k == .continue_ || k == .break_

/-- the vocabulary actions (everything but structure markers / declarations) -/
def vocab (l : Sk) : Sk := l.filter fun x => !isMarker x.k

def kinds (l : Sk) : List K := l.map (·.k)

def isK (k : K) (x : Act) : Bool := x.k == k

def idxsFrom (p : Act → Bool) : Nat → Sk → List Nat
  | _, [] => []
  | n, x :: xs => if p x then n :: idxsFrom p (n + 1) xs else idxsFrom p (n + 1) xs

/-- positions of the actions satisfying `p` -/
def idxs (p : Act → Bool) (l : Sk) : List Nat := idxsFrom p 0 l

def firstIdx (p : Act → Bool) (l : Sk) : Option Nat := (idxs p l).head?
def lastIdx (p : Act → Bool) (l : Sk) : Option Nat := (idxs p l).getLast?

/-- there is a `p`, there is a `q`, and every `p` comes before every `q` -/
def allBefore (p q : Act → Bool) (l : Sk) : Bool :=
  let a := idxs p l
  let b := idxs q l
  !a.isEmpty && !b.isEmpty && a.all fun i => b.all fun j => i < j

/-- every `p` (if any) comes before every `q` (if any) -/
def noneAfter (p q : Act → Bool) (l : Sk) : Bool :=
  (idxs p l).all fun i => (idxs q l).all fun j => i < j

/-- the first `p` comes before the first `q` (both exist) -/
def before (p q : Act → Bool) (l : Sk) : Bool :=
  match firstIdx p l, firstIdx q l with
  | some i, some j => i < j
  | _, _ => false

def count (p : Act → Bool) (l : Sk) : Nat := (l.filter p).length

def opens (k : K) : Bool := k == .loop || k == .if_ || k == .try_ || k == .switch_ || k == .lambda_
def closes (k : K) : Bool := k == .endLoop || k == .endIf || k == .endTry || k == .endSwitch || k == .endLambda

/-- nesting depth (inside if / loop / try / switch / lambda) of every action -/
def withDepth : Nat → Sk → List (Nat × Act)
  | _, [] => []
  | d, x :: xs =>
    if opens x.k then (d, x) :: withDepth (d + 1) xs
    else if closes x.k then (d - 1, x) :: withDepth (d - 1) xs
    else (d, x) :: withDepth d xs

/-- every action satisfying `p` is executed unconditionally (not nested in any if / loop / try / switch / lambda) -/
def unconditional (p : Act → Bool) (l : Sk) : Bool :=
  (withDepth 0 l).all fun (d, x) => !(p x) || d == 0

/-- loop nesting depth only -/
def withLoopDepth : Nat → Sk → List (Nat × Act)
  | _, [] => []
  | d, x :: xs =>
    if x.k == .loop then (d, x) :: withLoopDepth (d + 1) xs
    else if x.k == .endLoop then (d - 1, x) :: withLoopDepth (d - 1) xs
    else (d, x) :: withLoopDepth d xs

def allInLoop (p : Act → Bool) (l : Sk) : Bool :=
  (withLoopDepth 0 l).all fun (d, x) => !(p x) || d ≥ 1

/-- a contiguous window of `l` matches the predicates `pat` -/
def matchesAt : List (Act → Bool) → Sk → Bool
  | [], _ => true
  | _ :: _, [] => false
  | p :: ps, x :: xs => p x && matchesAt ps xs

def hasSeq (pat : List (Act → Bool)) : Sk → Bool
  | [] => pat.isEmpty
  | x :: xs => matchesAt pat (x :: xs) || hasSeq pat xs

/-- the action following the first `p`, skipping declarations -/
def nextAfterFirst (p : Act → Bool) : Sk → Option Act
  | [] => none
  | x :: xs => if p x then xs.find? (fun y => y.k != .decl) else nextAfterFirst p xs

/-- the actions strictly between the first `p` and the next `q` after it -/
def between (p q : Act → Bool) : Sk → Sk
  | [] => []
  | x :: xs => if p x then xs.takeWhile (fun y => !q y) else between p q xs

def eqAct (k : K) (r : String) (a : List String) (x : Act) : Bool := x.k == k && x.r == r && x.a == a

def isInfixL (p : List Char) : List Char → Bool
  | [] => p.isEmpty
  | c :: cs => p.isPrefixOf (c :: cs) || isInfixL p cs

/-- `sub` occurs in `s` -/
def mentions (s sub : String) : Bool := isInfixL sub.toList s.toList

def params (l : Sk) : List String :=
  match l with
  | ⟨.params, _, ps⟩ :: _ => ps
  | _ => []

def declOf (l : Sk) (name : String) : Option Act := l.find? fun x => x.k == .decl && x.a.head? == some name

/-- some local `name` is declared with exactly the initialiser `init` -/
def declaredAs (l : Sk) (name init : String) : Bool := l.any fun x => x.k == .decl && x.a.take 2 == [name, init]

/-- the local that is initialised with `init` -/
def localWithInit (l : Sk) (init : String) : Option String :=
  (l.find? fun (x : Act) => x.k == .decl && (x.a.drop 1).head? == some init).bind (·.a.head?)

/-- (lock array, stripe index) a `lock` / `unlock` works on: `locks[i].lock()` directly, or through a reference
`spinlock &lock = locks[i]` -/
def stripeOf (l : Sk) (x : Act) : Option (String × String) :=
  match x.a with
  | [b, i] => some (b, i)
  | _ =>
    match declOf l x.r with
    | some d => (match d.a with | [_, _, b, i] => some (b, i) | _ => none)
    | none => none

def lockActs (l : Sk) : Sk := l.filter (isK .lock)

/-- stripe indices in the order they are locked -/
def lockedIdxs (l : Sk) : List String := (lockActs l).filterMap fun x => (stripeOf l x).map (·.2)

def isReplace (x : Act) : Bool :=
  x.k == .bucketsSwap || x.k == .bucketsAssign || x.k == .hpSet || x.k == .streamIn
def isRelease (x : Act) : Bool := x.k == .unlock || x.k == .reset || x.k == .releaseMgr
def isBookkeeping (x : Act) : Bool :=
  x.k == .moveBucket || x.k == .setMigrated || x.k == .lazySet || x.k == .rehashWorkers || x.k == .rehashLock ||
  x.k == .parallelExec || x.k == .lazyDec

/-! ## rule S — a sound snapshot before the first lock -/

/-- `snapshot_and_lock_two`: the only synchronisation actions are, in this order, the counter load, the hashpower
load and `lock_two`, all inside the unconditional retry loop; `lock_two` receives the counter that was loaded and
indices computed from the hashpower that was loaded; it sits in a `try` whose handler for `resize_counter_changed`
does nothing but `continue` -/
def chkSnapshot (l : Sk) : Bool :=
  kinds (vocab l) == [.loadRc, .hpGet, .lockTwo] &&
  (vocab l).all (fun x => x.r == "") &&
  allInLoop (fun x => !isMarker x.k) l &&
  l.any (fun x => x.k == .loop && x.a == ["while", "?", "true"]) &&
  count (isK .loop) l == 1 &&
  (match localWithInit l "load_resize_counter()", localWithInit l "hashpower()", l.find? (isK .lockTwo) with
   | some rc, some hp, some lt =>
     (match lt.a with
      | [a0, i1, i2, _] =>
        a0 == rc &&
        (match declOf l i1, declOf l i2 with
         | some d1, some d2 =>
           mentions (d1.a.getD 1 "") ("(" ++ hp ++ ",") && mentions (d2.a.getD 1 "") ("(" ++ hp ++ ",")
         | _, _ => false)
      | _ => false)
   | _, _, _ => false) &&
  -- the lock_two call is the body of the try, its result is returned, the handler only continues
  (kinds (between (isK .try_) (isK .catch_) l) == [.lockTwo, .ret]) &&
  (kinds (between (isK .catch_) (isK .endTry) l) == [.continue_]) &&
  l.any (fun x => x.k == .catch_ && mentions (x.a.getD 0 "") "resize_counter_changed") &&
  count (isK .catch_) l == 1

/-- **Rule S** (`snapshot_and_lock_two`): resize counter BEFORE hashpower BEFORE `lock_two`, inside the retry loop,
and a failed validation (`resize_counter_changed`) restarts the loop.  Violated by: swapping the two loads, hoisting a
load out of the loop, dropping the `try` / replacing `continue` by `break` or `return`, passing a different counter -/
theorem S_snapshot_and_lock_two : chkSnapshot snapshot_and_lock_two = true := by decide

/-- non-vacuity: hashpower loaded before the counter is rejected -/
example : chkSnapshot
    [A .params "" ["hv"], A .loop "" ["while", "?", "true"], A .hpGet, A .decl "" ["hp", "hashpower()"], A .loadRc,
     A .decl "" ["rc", "load_resize_counter()"], A .decl "" ["i1", "index_hash(hp,hv.hash)"],
     A .decl "" ["i2", "alt_index(hp,hv.partial,i1)"], A .try_, A .lockTwo "" ["rc", "i1", "i2", "TABLE_MODE()"],
     A .ret "" ["lock_two(rc,i1,i2,TABLE_MODE())"], A .catch_ "" ["resize_counter_changed&"], A .continue_, A .endTry,
     A .endLoop] = false := by decide

/-- `run_cuckoo`: the hashpower and the counter are loaded while the two buckets are still locked (validated hold),
before `b.unlock()`; the search and the move come after the unlock, receive exactly these two values, and run inside
a `try` whose `resize_counter_changed` handler reports `failure_under_expansion` -/
def chkRunCuckoo (l : Sk) : Bool :=
  let b := (params l).getD 0 "?"
  if kinds (vocab l) == [.hpGet, .loadRc, .unlock, .pathSearch, .pathMove] ||
     kinds (vocab l) == [.loadRc, .hpGet, .unlock, .pathSearch, .pathMove] then
    (l.any (eqAct .unlock b [])) &&
    unconditional (fun x => x.k == .hpGet || x.k == .loadRc || x.k == .unlock) l &&
    (l.filter (fun x => x.k == .hpGet || x.k == .loadRc)).all (fun x => x.r == "") &&
    (match localWithInit l "load_resize_counter()", localWithInit l "hashpower()",
           l.find? (isK .pathSearch), l.find? (isK .pathMove) with
     | some rc, some hp, some ps, some pm =>
       ((ps.a.drop 1).take 2 == [hp, rc]) && ((pm.a.drop 1).take 1 == [rc]) && pm.a.getLast? == some b
     | _, _, _, _ => false) &&
    before (isK .try_) (isK .pathSearch) l &&
    before (isK .pathMove) (isK .catch_) l &&
    (between (isK .catch_) (isK .endTry) l).map (fun x => (x.k, x.a)) == [(.ret, ["failure_under_expansion"])] &&
    l.any (fun x => x.k == .catch_ && mentions (x.a.getD 0 "") "resize_counter_changed")
  else false

/-- **Rule S** (`run_cuckoo`): both loads precede `b.unlock()`, the cuckoo path functions get that snapshot, a failed
validation anywhere below is reported as `failure_under_expansion`.  Violated by: moving a load after `b.unlock()`,
dropping the unlock, swallowing `resize_counter_changed` -/
theorem S_run_cuckoo : chkRunCuckoo run_cuckoo = true := by decide

example : chkRunCuckoo
    [A .params "" ["b", "ib", "is"], A .hpGet, A .decl "" ["hp", "hashpower()"], A .unlock "b", A .loadRc,
     A .decl "" ["rc", "load_resize_counter()"], A .try_, A .pathSearch "" ["T", "hp", "rc", "p", "b.i1", "b.i2"],
     A .pathMove "" ["T", "rc", "p", "d", "b"], A .catch_ "" ["resize_counter_changed&"],
     A .ret "" ["failure_under_expansion"], A .endTry, A .ret "" ["ok"]] = false := by decide

/-- `lock_one/two/three`: the current lock array is read exactly once, before the first `lock()`, and every lock taken
is an element of that array -/
def chkLocksFromSnapshot (l : Sk) : Bool :=
  count (isK .getLocks) l == 1 &&
  before (isK .getLocks) (isK .lock) l &&
  unconditional (isK .getLocks) l &&
  (match localWithInit l "get_current_locks()" with
   | some locks => (lockActs l).all fun x => (stripeOf l x).map (·.1) == some locks
   | none => false)

/-- **Rule S** (`lock_one`, `lock_two`, `lock_three`): `get_current_locks()` precedes the first `.lock()` and all
locks of the episode are taken in the array that was read.  Violated by: reading the array after the first lock,
re-reading it between two locks, locking through another array -/
theorem S_locks_from_snapshot :
    chkLocksFromSnapshot lock_one = true ∧ chkLocksFromSnapshot lock_two = true ∧
    chkLocksFromSnapshot lock_three = true := by decide

example : chkLocksFromSnapshot
    [A .params "" ["rc", "i", ""], A .decl "" ["l", "lock_ind(i)"], A .lock "all_locks_.back()[l]" ["all_locks_.back()", "l"],
     A .getLocks, A .decl "" ["locks", "get_current_locks()"], A .checkRc "" ["rc", "locks[l]"]] = false := by decide

/-! ## rule V — validate right after the first lock -/

def isAfterFirstLockForbidden (x : Act) : Bool :=
  x.k == .lock || x.k == .rehashLock || x.k == .bucketAt || x.k == .bucketsMeth || x.k == .moveBucket ||
  x.k == .isMigrated || x.k == .setMigrated

/-- the first `lock()` is unconditional and is immediately followed (declarations aside) by an unconditional
`check_resize_counter(<counter parameter>, <that very lock>)`; no further lock, lazy rehash or bucket access comes in
between -/
def chkValidate (l : Sk) : Bool :=
  match (lockActs l).head?, nextAfterFirst (isK .lock) l with
  | some first, some nxt =>
    nxt.k == .checkRc && nxt.r == "" && nxt.a == [(params l).getD 0 "?", first.r] &&
    (params l).getD 0 "" != "" &&
    count (isK .checkRc) l == 1 &&
    unconditional (fun x => x.k == .checkRc) l &&
    (((withDepth 0 l).find? (fun p => p.2.k == .lock)).map (·.1) == some 0) &&
    noneAfter (isK .checkRc) (fun x => isAfterFirstLockForbidden x && !(x.k == .lock && x.r == first.r)) l &&
    ((between (isK .lock) (isK .checkRc) l).all fun x => x.k == .decl)
  | _, _ => false

/-- **Rule V** (`lock_one`, `lock_two`, `lock_three`): after the first lock the next action is the validation, before
any further `.lock()`, `rehash_lock` or bucket access.  Violated by: moving `check_resize_counter` after the second
lock, dropping it, making it conditional, validating another lock than the one just taken -/
theorem V_validate_after_first_lock :
    chkValidate lock_one = true ∧ chkValidate lock_two = true ∧ chkValidate lock_three = true := by decide

/-- non-vacuity: `lock_two` with the validation moved after the second lock -/
example : chkValidate
    [A .params "" ["rc", "i1", "i2", ""], A .decl "" ["l1", "lock_ind(i1)"], A .decl "" ["l2", "lock_ind(i2)"],
     A .getLocks, A .decl "" ["locks", "get_current_locks()"], A .lock "locks[l1]" ["locks", "l1"],
     A .if_ "" ["!=", "l2", "l1"], A .then_, A .lock "locks[l2]" ["locks", "l2"], A .endIf,
     A .checkRc "" ["rc", "locks[l1]"], A .rehashLock "" ["kIsLazy", "l1"], A .rehashLock "" ["kIsLazy", "l2"]]
    = false := by decide

/-- every stripe that is locked gets an unconditional lazy `rehash_lock<kIsLazy>(stripe)` after the last lock (hence
after the validation), and nothing else is rehashed -/
def chkRehashEvery (l : Sk) : Bool :=
  let ls := lockedIdxs l
  let rs := (l.filter (isK .rehashLock)).map (·.a)
  ls.length == (lockActs l).length && !ls.isEmpty &&
  rs == ls.map (fun i => ["kIsLazy", i]) &&
  unconditional (isK .rehashLock) l &&
  allBefore (isK .lock) (isK .rehashLock) l &&
  allBefore (isK .checkRc) (isK .rehashLock) l

/-- **Rule V / lazy migration** (`lock_one`, `lock_two`, `lock_three`): every acquired stripe is migrated
(`rehash_lock<kIsLazy>`) before the buckets are handed to the caller, and only after the validation.  Violated by:
dropping `rehash_lock(l2)`, rehashing a stripe that is not locked, rehashing before `check_resize_counter` -/
theorem V_every_stripe_rehashed :
    chkRehashEvery lock_one = true ∧ chkRehashEvery lock_two = true ∧ chkRehashEvery lock_three = true := by decide

example : chkRehashEvery
    [A .params "" ["rc", "i1", "i2", ""], A .getLocks, A .decl "" ["locks", "get_current_locks()"],
     A .lock "locks[l1]" ["locks", "l1"], A .checkRc "" ["rc", "locks[l1]"], A .if_ "" ["!=", "l2", "l1"], A .then_,
     A .lock "locks[l2]" ["locks", "l2"], A .endIf, A .rehashLock "" ["kIsLazy", "l1"]] = false := by decide

/-- `check_resize_counter(rc, lock)` is exactly: `if (load_resize_counter() != rc) { lock.unlock(); throw resize_counter_changed(); }` -/
def chkCheckRc (l : Sk) : Bool :=
  match l with
  | [⟨.params, _, [rc, lk]⟩, ⟨.if_, _, [op, x, y]⟩, ⟨.loadRc, r, []⟩, ⟨.then_, _, _⟩, ⟨.unlock, u, _⟩,
     ⟨.throw_, _, [t]⟩, ⟨.endIf, _, _⟩] =>
    op == "!=" && ((x == "load_resize_counter()" && y == rc) || (y == "load_resize_counter()" && x == rc)) &&
    r == "" && u == lk && rc != "" && lk != "" && mentions t "resize_counter_changed"
  | _ => false

/-- **Rule V** (`check_resize_counter`): load the counter, compare with the snapshot, on mismatch release the lock
just taken and only then throw.  Violated by: throwing without unlocking, unlocking after the throw, comparing with
`==`, not re-loading the counter -/
theorem V_check_resize_counter : chkCheckRc check_resize_counter = true := by decide

example : chkCheckRc
    [A .params "" ["rc", "lock"], A .if_ "" ["!=", "load_resize_counter()", "rc"], A .loadRc, A .then_,
     A .throw_ "" ["resize_counter_changed()"], A .endIf] = false := by decide

/-! ## rule A — ascending order, no double acquisition -/

/-- a guarded swap `if (a op b) std::swap(s, t);` -/
structure Cex where
  op : String
  a : String
  b : String
  s : String
  t : String

/-- the guarded swaps of a skeleton, in order -/
def cexOf : Sk → List Cex
  | [] => []
  | x :: xs =>
    match x, xs with
    | ⟨.if_, _, [op, a, b]⟩, ⟨.then_, _, _⟩ :: ⟨.swapVals, _, [s, t]⟩ :: ⟨.endIf, _, _⟩ :: _ =>
      ⟨op, a, b, s, t⟩ :: cexOf xs
    | _, _ => cexOf xs

abbrev Env := List (String × Nat)
def Env.get (e : Env) (n : String) : Nat := (e.lookup n).getD 99
def Env.set (e : Env) (n : String) (v : Nat) : Env := e.map fun p => if p.1 == n then (p.1, v) else p

def cmpHolds (op : String) (x y : Nat) : Bool :=
  if op == "<" then x < y else if op == ">" then x > y else if op == "<=" then x ≤ y else if op == ">=" then x ≥ y
  else false

def runCex (e : Env) : List Cex → Env
  | [] => e
  | c :: cs =>
    if cmpHolds c.op (e.get c.a) (e.get c.b) then
      let vs := e.get c.s
      let vt := e.get c.t
      runCex ((e.set c.s vt).set c.t vs) cs
    else runCex e cs

/-- all assignments of values 0..2 to the names -/
def assigns : List String → List Env
  | [] => [[]]
  | n :: ns => (assigns ns).flatMap fun e => [0, 1, 2].map fun v => (n, v) :: e

def sortedIn (e : Env) : List String → Bool
  | [] => true
  | a :: t => (match t with | b :: _ => e.get a ≤ e.get b | [] => true) && sortedIn e t

/-- a lock guarded by `if (x != y)` : the window `if_ [!=, x, y] ; then_ ; lock ..[x] ; endIf` -/
def guardedLock (cur prev : String) (l : Sk) : Bool :=
  hasSeq [fun x => x.k == .if_ && (x.a == ["!=", cur, prev] || x.a == ["!=", prev, cur]), isK .then_,
          fun x => x.k == .lock && x.a.getD 1 "" == cur, isK .endIf] l

def guardedFrom (prev : String) (l : Sk) : List String → Bool
  | [] => true
  | c :: cs => guardedLock c prev l && guardedFrom c l cs

/-- the stripe indices are locked in ascending order whatever the bucket indices are: simulating the guarded swaps
that precede the first lock on every assignment of values sorts the names in the order in which they are locked; all
swaps are guarded and precede the first lock; each lock after the first is skipped when its stripe equals the previous
one (so no stripe is locked twice, given the order) -/
def chkAscending (n : Nat) (l : Sk) : Bool :=
  let names := lockedIdxs l
  let pre := l.takeWhile (fun x => x.k != .lock)
  let ops := cexOf pre
  names.length == n && (lockActs l).length == n && names.eraseDups.length == n &&
  count (isK .swapVals) l == ops.length &&
  ((assigns names).all fun e => sortedIn (runCex e ops) names) &&
  (match names with
   | [] => false
   | first :: rest => guardedFrom first l rest) &&
  -- apart from the guards nothing conditional: every lock is at depth 0 (the first) or 1 (guarded)
  ((withDepth 0 l).all fun p => p.2.k != .lock || p.1 ≤ 1) &&
  count (isK .loop) l == 0 && count (isK .unlock) l == 0

/-- **Rule A** (`lock_two`): the two stripe indices are sorted ascending by a guarded swap before the first lock and
the second lock is skipped when both buckets share a stripe.  Violated by: descending order (`if (l1 < l2) swap`),
dropping the swap, dropping the `l2 != l1` guard -/
theorem A_lock_two_ascending : chkAscending 2 lock_two = true := by decide

/-- the stripes really are those of the two bucket indices passed in -/
theorem A_lock_two_indices :
    (match params lock_two, lockedIdxs lock_two with
     | [_, i1, i2, _], [a, b] =>
       (declaredAs lock_two a ("lock_ind(" ++ i1 ++ ")") && declaredAs lock_two b ("lock_ind(" ++ i2 ++ ")")) ||
       (declaredAs lock_two a ("lock_ind(" ++ i2 ++ ")") && declaredAs lock_two b ("lock_ind(" ++ i1 ++ ")"))
     | _, _ => false) = true := by decide

/-- non-vacuity: descending order is rejected -/
example : chkAscending 2
    [A .params "" ["rc", "i1", "i2", ""], A .decl "" ["l1", "lock_ind(i1)"], A .decl "" ["l2", "lock_ind(i2)"],
     A .if_ "" ["<", "l1", "l2"], A .then_, A .swapVals "" ["l1", "l2"], A .endIf,
     A .getLocks, A .decl "" ["locks", "get_current_locks()"], A .lock "locks[l1]" ["locks", "l1"],
     A .checkRc "" ["rc", "locks[l1]"], A .if_ "" ["!=", "l2", "l1"], A .then_, A .lock "locks[l2]" ["locks", "l2"],
     A .endIf] = false := by decide

/-- non-vacuity: a missing duplicate-stripe guard is rejected -/
example : chkAscending 2
    [A .params "" ["rc", "i1", "i2", ""], A .decl "" ["l1", "lock_ind(i1)"], A .decl "" ["l2", "lock_ind(i2)"],
     A .if_ "" ["<", "l2", "l1"], A .then_, A .swapVals "" ["l1", "l2"], A .endIf,
     A .getLocks, A .decl "" ["locks", "get_current_locks()"], A .lock "locks[l1]" ["locks", "l1"],
     A .checkRc "" ["rc", "locks[l1]"], A .lock "locks[l2]" ["locks", "l2"]] = false := by decide

/-- **Rule A** (`lock_three`): the three guarded swaps form a sorting network for the three stripe indices, the locks
are taken in the sorted order, each lock after the first is skipped when equal to its predecessor.  Violated by:
removing or reordering a compare-exchange so that some input order is not sorted, locking `l[2]` before `l[1]`,
dropping a duplicate guard -/
theorem A_lock_three_ascending : chkAscending 3 lock_three = true := by decide

theorem A_lock_three_indices :
    (match params lock_three, declOf lock_three (String.ofList (((lockedIdxs lock_three).head?.getD "").toList.takeWhile (· != '['))) with
     | [_, i1, i2, i3, _], some d =>
       d.a.getD 1 "" == "{{lock_ind(" ++ i1 ++ "),lock_ind(" ++ i2 ++ "),lock_ind(" ++ i3 ++ ")}}" &&
       (let n := d.a.getD 0 ""; (lockedIdxs lock_three) == [n ++ "[0]", n ++ "[1]", n ++ "[2]"])
     | _, _ => false) = true := by decide

/-- non-vacuity: a network with the last compare-exchange missing does not sort -/
example : chkAscending 3
    [A .params "" ["rc", "i1", "i2", "i3", ""], A .decl "" ["l", "{{lock_ind(i1),lock_ind(i2),lock_ind(i3)}}"],
     A .if_ "" ["<", "l[2]", "l[1]"], A .then_, A .swapVals "" ["l[2]", "l[1]"], A .endIf,
     A .if_ "" ["<", "l[2]", "l[0]"], A .then_, A .swapVals "" ["l[2]", "l[0]"], A .endIf,
     A .getLocks, A .decl "" ["locks", "get_current_locks()"], A .lock "locks[l[0]]" ["locks", "l[0]"],
     A .checkRc "" ["rc", "locks[l[0]]"],
     A .if_ "" ["!=", "l[1]", "l[0]"], A .then_, A .lock "locks[l[1]]" ["locks", "l[1]"], A .endIf,
     A .if_ "" ["!=", "l[2]", "l[1]"], A .then_, A .lock "locks[l[2]]" ["locks", "l[2]"], A .endIf] = false := by decide

/-- where `lock_all` may start: at the current (last) lock array — or at the very first one, which only takes more
locks, still in ascending (array, index) order (harmless for the protocol, see the self-test notes) -/
def lockAllStarts : List String := ["std::prev(all_locks_.end())", "all_locks_.begin()"]

/-- `lock_all(normal_mode)` : `first = <start>; cur = first; while (cur != all_locks_.end()) { locks = *cur; for (lock : locks) lock.lock(); ++cur; } return AllLocksManager(this, AllUnlocker{first});` -/
def chkLockAll (l : Sk) : Bool :=
  match l with
  | [⟨.params, _, _⟩, ⟨.decl, _, [f, start]⟩, ⟨.decl, _, [c, f']⟩, ⟨.loop, _, ["while", "!=", c', e]⟩,
     ⟨.decl, _, [ls, deref]⟩, ⟨.loop, _, ["range", lk, ls']⟩, ⟨.lock, lk', []⟩, ⟨.endLoop, _, _⟩, ⟨.step, _, [st]⟩,
     ⟨.endLoop, _, _⟩, ⟨.ret, _, [r]⟩] =>
    lockAllStarts.contains start && f' == f && c' == c && e == "all_locks_.end()" && deref == "*" ++ c &&
    ls' == ls && lk' == lk && (st == "++" ++ c || st == c ++ "++") &&
    r == "AllLocksManager(this,AllUnlocker{" ++ f ++ "})"
  | _ => false

/-- **Rule A** (`lock_all`): starts at the current lock array, walks to `all_locks_.end()`, locks every lock of every
array on the way in ascending order, releases nothing, and hands the *same* starting point to `AllUnlocker`.
Violated by: starting at `end()` / `std::next(..)`, skipping the `++`, an `unlock` / `break` inside the walk, giving
`AllUnlocker` another iterator than the one the walk started from -/
theorem A_lock_all_walk : chkLockAll lock_all = true := by decide

example : chkLockAll
    [A .params "" [""], A .decl "" ["first_locked", "std::prev(all_locks_.end())"], A .decl "" ["cur", "first_locked"],
     A .loop "" ["while", "!=", "cur", "all_locks_.end()"], A .decl "" ["locks", "*cur"],
     A .loop "" ["range", "lock", "locks"], A .lock "lock", A .endLoop, A .step "" ["++cur"], A .endLoop,
     A .ret "" ["AllLocksManager(this,AllUnlocker{cur})"]] = false := by decide

/-- the `locked_table_mode` overloads take no lock and touch nothing -/
theorem A_locked_table_mode_overloads_are_noops :
    (vocab lock_one_lt).isEmpty ∧ (vocab lock_two_lt).isEmpty ∧ (vocab lock_three_lt).isEmpty ∧
    (vocab lock_all_lt).isEmpty := by decide

/-! ## rule R — resizes: own the table, replace, bump the counter, only then release -/

/-- common shape of `cuckoo_fast_double` / `cuckoo_expand_simple` from `lock_all` on -/
def chkResize (l : Sk) : Bool :=
  -- `lock_all(TABLE_MODE())`, unconditional, result kept in a named local (not a temporary that dies at once)
  count (isK .lockAll) l == 1 && unconditional (isK .lockAll) l &&
  hasSeq [fun x => x.k == .lockAll && x.r == "" && x.a == ["TABLE_MODE()"],
          fun x => x.k == .decl && x.a.getD 1 "" == "lock_all(TABLE_MODE())"] l &&
  -- nothing of the vocabulary after lock_all comes before it
  (match firstIdx (isK .lockAll) l with
   | some i => ((l.drop (i + 1)).any (isK .lockAll)) == false
   | none => false) &&
  -- lock array grown before the bucket array / hashpower is replaced; both unconditional
  count (isK .maybeResizeLocks) l == 1 && unconditional (isK .maybeResizeLocks) l &&
  allBefore (isK .lockAll) (isK .maybeResizeLocks) l &&
  allBefore (isK .maybeResizeLocks) isReplace l && unconditional isReplace l &&
  -- exactly one unconditional counter bump, after every replacement and all migration bookkeeping
  count (fun x => x.k == .bumpRc || x.k == .bumpRcCall) l == 1 &&
  l.any (fun x => x.k == .bumpRc && x.r == "resize_counter_" && x.a == ["1", "std::memory_order_release"]) &&
  unconditional (isK .bumpRc) l &&
  allBefore isReplace (isK .bumpRc) l && noneAfter isBookkeeping (isK .bumpRc) l &&
  noneAfter (isK .maybeResizeLocks) (isK .bumpRc) l &&
  -- nothing is released by hand: the locks go with the manager when the function returns
  count isRelease l == 0 && count (isK .emplaceBack) l == 0 && count (isK .rcOther) l == 0 &&
  -- returns after lock_all: either before anything was changed, or after the bump; the function ends with the latter
  (match firstIdx (isK .lockAll) l, firstIdx (fun x => isReplace x || x.k == .maybeResizeLocks) l, firstIdx (isK .bumpRc) l with
   | some la, some ch, some bp =>
     ((idxs (isK .ret) l).all fun j => j < la || j < ch || bp < j) &&
     ((idxs (fun x => x.k == .ret && x.a == ["ok"]) l).all fun j => bp < j) &&
     (l.getLast?.map (fun x => x.k == .ret && x.a == ["ok"]) == some true) &&
     (l[bp + 1]?.map (·.k) == some .ret)
   | _, _, _ => false) &&
  count (fun x => x.k == .throw_ || x.k == .break_ || x.k == .continue_) l == 0

/-- `cuckoo_fast_double`: before `lock_all` there is only the early delegation to `cuckoo_expand_simple` (returned at
once, inside an `if`) -/
def chkFastDoublePrefix (l : Sk) : Bool :=
  let pre := l.takeWhile (fun x => x.k != .lockAll)
  kinds (vocab pre) == [.expandSimple] &&
  hasSeq [isK .if_, isK .then_, isK .expandSimple, isK .ret, isK .endIf] pre

/-- **Rule R** (`cuckoo_fast_double`): `lock_all` first (after the nothrow-move delegation), `maybe_resize_locks`
before `old_buckets_.swap(buckets_)` / `buckets_ = …`, the `fetch_add` after the replacement and after the migration
bookkeeping (un-migrated marks, pending-stripe counter, immediate rehash), every `return ok` after it, the early
`return st` before anything changed, no manual release.  Violated by: bumping the counter before the swap, dropping
the bump, resizing the locks after the swap, returning `ok` on a path without the bump -/
theorem R_fast_double : chkResize cuckoo_fast_double = true ∧ chkFastDoublePrefix cuckoo_fast_double = true := by
  decide

/-- the replacement in `cuckoo_fast_double` is the pair `old_buckets_.swap(buckets_)` ; `buckets_ = std::move(new)`
in this order, and the lazy bookkeeping follows it -/
theorem R_fast_double_replacement :
    ((cuckoo_fast_double.filter isReplace).map fun x => (x.k, x.r, x.a.take 1)) =
      [(.bucketsSwap, "old_buckets_", ["swap"]), (.bucketsAssign, "", ["buckets_"])] ∧
    allBefore isReplace (fun x => x.k == .setMigrated || x.k == .moveBucket) cuckoo_fast_double = true ∧
    -- the stripes still pending from the previous doubling are migrated before old_buckets_ is overwritten
    before (isK .rehashLock) isReplace cuckoo_fast_double = true := by decide

/-- non-vacuity: counter bumped before the swap -/
example : chkResize
    [A .params "" ["hp"], A .lockAll "" ["TABLE_MODE()"], A .decl "" ["m", "lock_all(TABLE_MODE())"],
     A .maybeResizeLocks "" ["n"], A .bumpRc "resize_counter_" ["1", "std::memory_order_release"],
     A .bucketsSwap "old_buckets_" ["swap", "buckets_"], A .bucketsAssign "" ["buckets_", "std::move(nb)"],
     A .ret "" ["ok"]] = false := by decide

/-- non-vacuity: no bump at all -/
example : chkResize
    [A .params "" ["hp"], A .lockAll "" ["TABLE_MODE()"], A .decl "" ["m", "lock_all(TABLE_MODE())"],
     A .maybeResizeLocks "" ["n"], A .bucketsSwap "buckets_" ["swap", "new_map.buckets_"], A .ret "" ["ok"]]
    = false := by decide

/-- a good one is accepted (the check is satisfiable by something else than the current source) -/
example : chkResize
    [A .params "" ["hp"], A .lockAll "" ["TABLE_MODE()"], A .decl "" ["m", "lock_all(TABLE_MODE())"],
     A .maybeResizeLocks "" ["n"], A .bucketsSwap "buckets_" ["swap", "new_map.buckets_"],
     A .bumpRc "resize_counter_" ["1", "std::memory_order_release"], A .ret "" ["ok"]] = true := by decide

/-- **Rule R** (`cuckoo_expand_simple`): `lock_all` is the very first action, `maybe_resize_locks` precedes
`buckets_.swap(new_map.buckets_)`, the `fetch_add` follows, `return ok` only after it, `return st` before anything
changed.  Violated by: dropping the `fetch_add`, swapping before the lock array is grown, reading `hashpower()`
before `lock_all` -/
theorem R_expand_simple :
    chkResize cuckoo_expand_simple = true ∧
    (vocab cuckoo_expand_simple).head?.map (·.k) = some .lockAll ∧
    ((cuckoo_expand_simple.filter isReplace).map fun x => (x.k, x.r, x.a)) =
      [(.bucketsSwap, "buckets_", ["swap", "new_map.buckets_"])] := by decide

/-- `maybe_resize_locks`: one `emplace_back` onto `all_locks_`, unconditional, last action of the function, of the
very array `nl` all of whose locks were locked just before by `for (lock : nl) lock.lock();`; nothing is unlocked -/
def chkMaybeResizeLocks (l : Sk) : Bool :=
  count (isK .emplaceBack) l == 1 && unconditional (isK .emplaceBack) l &&
  count isRelease l == 0 && count (isK .lock) l == 1 &&
  (match l.find? (isK .emplaceBack), l.find? (fun x => x.k == .loop && x.a.head? == some "range") with
   | some eb, some lp =>
     (match lp.a with
      | [_, lk, nl] =>
        eb.r == "all_locks_" && eb.a == ["std::move(" ++ nl ++ ")"] &&
        hasSeq [fun x => x.k == .loop && x.a == ["range", lk, nl], eqAct .lock lk [], isK .endLoop, isK .emplaceBack] l &&
        (declOf l nl).isSome
      | _ => false)
   | _, _ => false) &&
  (l.getLast?.map (·.k) == some .emplaceBack) &&
  before (isK .getLocks) (isK .emplaceBack) l

/-- **Rules A/R** (`maybe_resize_locks`): a lock array is appended *born locked* — all of its locks are taken before
`all_locks_.emplace_back`.  Violated by: appending first and locking afterwards, appending an unlocked array,
unlocking inside -/
theorem R_maybe_resize_locks_born_locked : chkMaybeResizeLocks maybe_resize_locks = true := by decide

example : chkMaybeResizeLocks
    [A .params "" ["n"], A .getLocks, A .decl "" ["cur", "get_current_locks()"], A .decl "" ["nl", "(get_allocator())"],
     A .emplaceBack "all_locks_" ["std::move(nl)"], A .loop "" ["range", "lock", "all_locks_.back()"], A .lock "lock",
     A .endLoop] = false := by decide

/-- `operator>>(istream, locked_table)`: the bucket array is read in, then the lock array is grown, then the counter is
bumped — each once, unconditionally, on the locked table that was passed in -/
def chkIstream (l : Sk) : Bool :=
  match params l with
  | [is, lt] =>
    (vocab l).head? == some ⟨.streamIn, "", [is, lt ++ ".buckets()"]⟩ &&
    count isReplace l == 1 && count (isK .maybeResizeLocks) l == 1 && count (isK .bumpRcCall) l == 1 &&
    count (isK .bumpRc) l == 0 &&
    unconditional (fun x => isReplace x || x.k == .maybeResizeLocks || x.k == .bumpRcCall) l &&
    l.any (eqAct .maybeResizeLocks lt [lt ++ ".bucket_count()"]) && l.any (eqAct .bumpRcCall lt []) &&
    allBefore isReplace (isK .bumpRcCall) l && allBefore (isK .maybeResizeLocks) (isK .bumpRcCall) l &&
    count isRelease l == 0
  | _ => false

/-- **Rule R** (`operator>>` of `locked_table`): `maybe_resize_locks` and the bucket array replacement precede
`bump_resize_counter`, and the two wrappers are what their names say (`maybe_resize_locks` of the map,
`resize_counter_.fetch_add(1, release)` of the map).  Violated by: dropping the bump, bumping before reading the
buckets, bumping a different counter -/
theorem R_istream :
    chkIstream locked_table_istream = true ∧
    locked_table_maybe_resize_locks.drop 1 =
      [⟨.maybeResizeLocks, "map_.get()", [(params locked_table_maybe_resize_locks).getD 0 ""]⟩] ∧
    locked_table_bump_resize_counter.drop 1 =
      [⟨.bumpRc, "map_.get().resize_counter_", ["1", "std::memory_order_release"]⟩] := by decide

example : chkIstream
    [A .params "" ["is", "lt"], A .streamIn "" ["is", "lt.buckets()"], A .bucketsRef "lt", A .bumpRcCall "lt",
     A .maybeResizeLocks "lt" ["lt.bucket_count()"], A .ret "" ["is"]] = false := by decide

/-- the resize counter is only ever advanced by `fetch_add`, and only in the three resize paths; `all_locks_` only
grows, only in `maybe_resize_locks`; the table's hashpower / bucket array is only replaced in the resize paths -/
theorem R_only_resizers_write :
    (skeletons.all fun (n, l) =>
      (count (isK .rcOther) l == 0 && count (isK .allLocksOther) l == 0) &&
      (count (isK .bumpRc) l == 0 ||
        ["cuckoo_fast_double", "cuckoo_expand_simple", "locked_table_bump_resize_counter"].contains n) &&
      (count (isK .emplaceBack) l == 0 || n == "maybe_resize_locks") &&
      (count isReplace l == 0 || ["cuckoo_fast_double", "cuckoo_expand_simple", "locked_table_istream"].contains n)) = true := by
  decide

/-! ## rule E — everything taken is given back -/

/-- `AllUnlocker::operator()(map)` : `for (it = first_locked; it != map->all_locks_.end(); ++it) { locks = *it; for (lock : locks) lock.unlock(); }` -/
def chkAllUnlocker (l : Sk) : Bool :=
  match l with
  | [⟨.params, _, [m]⟩, ⟨.decl, _, [it, start]⟩, ⟨.loop, _, ["for", "!=", it', e]⟩, ⟨.decl, _, [ls, deref]⟩,
     ⟨.loop, _, ["range", lk, ls']⟩, ⟨.unlock, lk', []⟩, ⟨.endLoop, _, _⟩, ⟨.step, _, [st]⟩, ⟨.endLoop, _, _⟩] =>
    start == "first_locked" && it' == it && e == m ++ "->all_locks_.end()" && deref == "*" ++ it && ls' == ls &&
    lk' == lk && (st == "++" ++ it || st == it ++ "++")
  | _ => false

/-- **Rule E** (`AllUnlocker`): walks from `first_locked` (the iterator `lock_all` started from, see
`A_lock_all_walk`) to `all_locks_.end()` and unlocks every lock of every array — including arrays appended while the
table was owned.  `AllLocksManager` is a `unique_ptr` with this deleter.  Violated by: starting at
`std::next(first_locked)`, stopping early, skipping locks -/
theorem E_all_unlocker :
    chkAllUnlocker AllUnlocker = true ∧
    fields.any (fun f => f.1 == "AllUnlocker" && f.2.1 == "first_locked") = true ∧
    aliases.lookup "AllLocksManager" = some "std::unique_ptr<cuckoohash_map,AllUnlocker>" := by decide

example : chkAllUnlocker
    [A .params "" ["map"], A .decl "" ["it", "std::next(first_locked)"], A .loop "" ["for", "!=", "it", "map->all_locks_.end()"],
     A .decl "" ["locks", "*it"], A .loop "" ["range", "lock", "locks"], A .unlock "lock", A .endLoop,
     A .step "" ["++it"], A .endLoop] = false := by decide

/-- **Rule E** (`TwoBuckets::unlock`, `LockDeleter`): `unlock()` resets *every* `LockManager` member of `TwoBuckets`
(both of them), a `LockManager` is a `unique_ptr<spinlock, LockDeleter>`, and `LockDeleter` unlocks the spinlock it
is given.  Violated by: resetting only one manager, a deleter that does not unlock -/
theorem E_two_buckets_and_lock_deleter :
    ((TwoBuckets_unlock.filter (isK .reset)).map (·.r)) =
      ((fields.filter fun f => f.1 == "TwoBuckets" && f.2.2 == "LockManager").map (·.2.1)) ∧
    (TwoBuckets_unlock.filter (isK .reset)).length = 2 ∧
    (vocab TwoBuckets_unlock).all (isK .reset) = true ∧
    aliases.lookup "LockManager" = some "std::unique_ptr<spinlock,LockDeleter>" ∧
    (match LockDeleter with
     | [⟨.params, _, [p]⟩, ⟨.unlock, r, []⟩] => p == r && p != ""
     | _ => false) = true := by decide

example : ((([A .params, A .reset "first_manager_"] : Sk).filter (isK .reset)).map (·.r) ==
    ((fields.filter fun f => f.1 == "TwoBuckets" && f.2.2 == "LockManager").map (·.2.1))) = false := by decide

/-- **Rule E / R** (`clear`): `lock_all(normal_mode())`, kept in a local for the whole body, then `cuckoo_clear()`.
Violated by: clearing before / without owning the table, discarding the manager before clearing -/
theorem E_clear :
    clear.drop 1 = [⟨.lockAll, "", ["normal_mode()"]⟩,
                    ⟨.decl, "", [(localWithInit clear "lock_all(normal_mode())").getD "?", "lock_all(normal_mode())"]⟩,
                    ⟨.cuckooClear, "", []⟩] := by decide

example : (([A .params, A .cuckooClear, A .lockAll "" ["normal_mode()"], A .decl "" ["m", "lock_all(normal_mode())"]] : Sk).drop 1
    == [⟨.lockAll, "", ["normal_mode()"]⟩, ⟨.decl, "", ["m", "lock_all(normal_mode())"]⟩, ⟨.cuckooClear, "", []⟩]) = false := by
  decide

/-- **Rule E / A** (`locked_table`): the constructor takes `map.lock_all(normal_mode())` (into the
`AllLocksManager` member, in the initialiser list) before `map.rehash_with_workers()`; `unlock()` resets exactly
that member.  Violated by: rehashing before owning the table, constructing without the locks, `unlock()` that keeps
the manager -/
theorem E_locked_table :
    (match params locked_table_ctor with
     | [m] => locked_table_ctor.drop 1 == [⟨.lockAll, m, ["normal_mode()"]⟩, ⟨.rehashWorkers, m, []⟩] && m != ""
     | _ => false) = true ∧
    locked_table_unlock.drop 1 = [⟨.reset, "all_locks_manager_", []⟩] ∧
    fields.contains ("locked_table", "all_locks_manager_", "AllLocksManager") = true := by decide

example : (([A .params "" ["map"], A .rehashWorkers "map", A .lockAll "map" ["normal_mode()"]] : Sk).drop 1
    == [⟨.lockAll, "map", ["normal_mode()"]⟩, ⟨.rehashWorkers, "map", []⟩]) = false := by decide

/-! ## lazy migration (`rehash_lock`, `rehash_with_workers`) -/

/-- `rehash_lock<IS_LAZY>(l)`: the stripe's lock is `get_current_locks()[l]`; the first thing is the `is_migrated()`
test with an immediate `return`; the bucket moves (old → current array) come next; then the stripe is marked
migrated; the lazy decrement (guarded by `IS_LAZY`) is last -/
def chkRehashLock (l : Sk) : Bool :=
  match params l with
  | [p] =>
    kinds (vocab l) == [.getLocks, .isMigrated, .moveBucket, .setMigrated, .lazyDec] &&
    (match localWithInit l "get_current_locks()" with
     | some locks =>
       (match l.find? (isK .isMigrated) with
        | some im =>
          ((declOf l im.r).map (·.a.drop 2) == some [locks, p]) &&
          l.any (eqAct .setMigrated im.r ["true"]) &&
          hasSeq [fun x => x.k == .if_ && x.a == ["?", im.r ++ ".is_migrated()"], isK .isMigrated, isK .then_,
                  fun x => x.k == .ret && x.a == [], isK .endIf] l
        | none => false)
     | none => false) &&
    l.any (fun x => x.k == .moveBucket && x.a.take 2 == ["old_buckets_", "buckets_"]) &&
    allInLoop (isK .moveBucket) l &&
    unconditional (isK .setMigrated) l &&
    hasSeq [fun x => x.k == .if_ && x.a == ["?", "IS_LAZY"], isK .then_, isK .lazyDec, isK .endIf] l &&
    (l.getLast?.map (·.k) == some .endIf) && count (isK .ret) l == 1
  | _ => false

/-- **Lazy migration** (`rehash_lock`): test `is_migrated()` first, move the buckets, mark migrated, and only then
decrement the pending-stripe counter (whose reaching zero frees `old_buckets_`).  Violated by: decrementing before the
moves (old array freed while still needed), marking before moving, not testing the flag (double migration) -/
theorem M_rehash_lock : chkRehashLock rehash_lock = true := by decide

example : chkRehashLock
    [A .params "" ["l"], A .getLocks, A .decl "" ["locks", "get_current_locks()"], A .decl "" ["lock", "locks[l]", "locks", "l"],
     A .if_ "" ["?", "lock.is_migrated()"], A .isMigrated "lock", A .then_, A .ret, A .endIf,
     A .if_ "" ["?", "IS_LAZY"], A .then_, A .lazyDec, A .endIf,
     A .decl "" ["b", "l"], A .loop "" ["for", "<", "b", "old_buckets_.size()"],
     A .moveBucket "" ["old_buckets_", "buckets_", "b"], A .step "" ["b+=kMaxNumLocks"], A .endLoop,
     A .setMigrated "lock" ["true"]] = false := by decide

/-- `rehash_with_workers`: every stripe of the current array is rehashed non-lazily, then the pending counter is
cleared -/
theorem M_rehash_with_workers :
    kinds (vocab rehash_with_workers) = [.getLocks, .parallelExec, .rehashLock, .lazySet] ∧
    rehash_with_workers.any (fun x => x.k == .rehashLock && x.a.head? == some "kIsNotLazy") = true ∧
    rehash_with_workers.getLast? = some ⟨.lazySet, "", ["0"]⟩ := by decide

/-! ## bucket accesses happen under a validated lock (cuckoo path functions) -/

/-- every `buckets_[i]` / `buckets_.setKV/eraseKV` is preceded, since the last point where locks were dropped
(loop start / end, or `b.unlock()`), by a `lock_one / lock_two / lock_three` call — with `sameIdx`, one that is passed
the very same index expression -/
def coveredBy (sameIdx : Bool) (idx : String) (x : Act) : Bool :=
  (x.k == .lockOne || x.k == .lockTwo || x.k == .lockThree) && (!sameIdx || x.a.contains idx)

def chkAccessUnderLock (sameIdx : Bool) : Sk → Sk → Bool
  | _, [] => true
  | held, x :: xs =>
    if x.k == .loop || x.k == .endLoop || x.k == .unlock then chkAccessUnderLock sameIdx [] xs
    else if x.k == .lockOne || x.k == .lockTwo || x.k == .lockThree then chkAccessUnderLock sameIdx (x :: held) xs
    else if x.k == .bucketAt || x.k == .bucketsMeth then
      held.any (coveredBy sameIdx (x.a.getD 1 "?")) && chkAccessUnderLock sameIdx held xs
    else chkAccessUnderLock sameIdx held xs

/-- **Rule V** (cuckoo path functions): in `slot_search` and `cuckoopath_search` every bucket read follows, in the same
loop iteration, a `lock_one` of exactly that bucket index; in `cuckoopath_move` every bucket read / write follows a
`lock_two` / `lock_three` taken since the last release (that the path's first bucket is one of `b.i1`, `b.i2` is an
`assert` of the source, not a syntactic fact).  All these calls validate against the counter snapshot handed down by
`run_cuckoo`; none of the three functions re-loads the counter, the hashpower or the lock array.  Violated by:
reading a bucket before `lock_one`, locking another bucket than the one read, re-snapshotting below `run_cuckoo` -/
theorem V_path_functions_access_under_lock :
    chkAccessUnderLock true [] slot_search = true ∧ chkAccessUnderLock true [] cuckoopath_search = true ∧
    chkAccessUnderLock false [] cuckoopath_move = true ∧
    -- every lock_* call in these functions passes on the counter parameter of the function (the snapshot of run_cuckoo)
    ([slot_search, cuckoopath_search, cuckoopath_move].all fun l =>
      (l.filter fun x => x.k == .lockOne || x.k == .lockTwo || x.k == .lockThree).all fun x =>
        (params l).contains (x.a.getD 0 "?") && mentions (x.a.getD 0 "") "resize_counter") = true ∧
    -- and none of them loads the counter or the hashpower itself
    ([slot_search, cuckoopath_search, cuckoopath_move].all fun l =>
      count (fun x => x.k == .loadRc || x.k == .hpGet || x.k == .getLocks) l == 0) = true := by decide

/-- non-vacuity: a bucket read after the lock manager's scope (next loop iteration) is rejected -/
example : chkAccessUnderLock true []
    [A .params "" ["hp", "rc", "i1", "i2"], A .lockOne "" ["rc", "x.bucket", "TABLE_MODE()"],
     A .loop "" ["while", "?", "!q.empty()"], A .bucketAt "" ["buckets_", "x.bucket"], A .endLoop] = false := by decide

/-- `cuckoopath_move`, `depth == 0`: when the slot turned out to be taken the two buckets are unlocked before
`return false` (the contract "unsuccessful ⇒ unlocked") -/
theorem E_cuckoopath_move_failure_unlocks :
    hasSeq [isK .else_, fun x => x.k == .unlock && x.r == (params cuckoopath_move).getD 3 "?",
            fun x => x.k == .ret && x.a == ["false"], isK .endIf] cuckoopath_move = true := by decide

/-! ## `cuckoo_insert_loop`: what happens after a failed `cuckoo_insert` -/

/-- the hashpower handed to `cuckoo_fast_double` is the one loaded *before* `cuckoo_insert` (so that a concurrent
resize is detected by `check_resize_validity`); `failure_table_full` ⇒ `cuckoo_fast_double` then re-snapshot and
re-lock; `failure_under_expansion` ⇒ re-snapshot and re-lock; both stay in the retry loop -/
theorem S_insert_loop :
    kinds (vocab cuckoo_insert_loop) = [.hpGet, .cuckooInsert, .fastDouble, .snapshotLockTwo, .snapshotLockTwo] ∧
    allInLoop (fun x => !isMarker x.k) cuckoo_insert_loop = true ∧
    (match localWithInit cuckoo_insert_loop "hashpower()", cuckoo_insert_loop.find? (isK .fastDouble) with
     | some hp, some fd => fd.a.getLast? == some hp
     | _, _ => false) = true ∧
    hasSeq [eqAct .case_ "" ["failure_table_full"], isK .fastDouble, isK .snapshotLockTwo, isK .break_]
      cuckoo_insert_loop = true ∧
    hasSeq [eqAct .case_ "" ["failure_under_expansion"], isK .snapshotLockTwo, isK .break_] cuckoo_insert_loop = true ∧
    hasSeq [eqAct .case_ "" ["ok"], eqAct .case_ "" ["failure_key_duplicated"], isK .ret] cuckoo_insert_loop = true := by
  decide

/-! ## the two primitive reads -/

/-- `get_current_locks()` is `all_locks_.back()` (the model's `genLoad`), `load_resize_counter()` is one acquire load
of `resize_counter_` (the model's `rcLoad`) -/
theorem S_primitive_reads :
    get_current_locks.drop 1 = [⟨.locksBack, "all_locks_", []⟩, ⟨.ret, "", ["all_locks_.back()"]⟩] ∧
    kinds (vocab load_resize_counter) = [.rcLoadRaw] ∧
    load_resize_counter.any (eqAct .rcLoadRaw "resize_counter_" ["std::memory_order_acquire"]) = true := by decide

/-- the generated table covers every function the theorems above talk about (a dropped entry cannot make a
quantified statement vacuous) -/
theorem coverage : skeletons.length = 31 ∧ (skeletons.all fun (_, l) => (l.head?.map (·.k)) == some .params) = true := by
  decide

end Cuckoo.Props.C01Sync
