import Cuckoo.Gen.Sync

/-!
# C01 (static tie): the synchronisation skeleton of the *current source text* obeys the local protocol rules

`Cuckoo/Gen/Sync.lean` is regenerated on every run by `translate/syncskel.py` from `libcuckoo/cuckoohash_map.hh`
(text pass cross-checked action by action against clang's AST).  It lists, for every function that takes part in
the locking protocol of `Model/Proto.lean`, the ordered sequence of synchronisation-relevant actions (loads of the
resize counter / hashpower / current lock array, `lock()`, `unlock()`, validation, lazy rehash, bucket accesses, bucket
array replacement, counter bump, …) together with the structure markers (loop / if / else / try / catch / return /
throw / continue / break), the operand texts and the operands in postfix form.

Every theorem below is a closed Boolean check of one skeleton, proved by `decide` (kernel evaluation): a source change
that reorders, drops or re-targets one of these actions makes the corresponding theorem fail to compile — on every
path, executed by a test or not.

The checks are *semantic*, not shape matches.  Most of them run the skeleton on a small abstract machine (`exec`):
values are numbers (a lock array = its position in `all_locks_`, the lock `i` of array `j` = `100 j + i`, an iterator =
a position), conditions whose operands are determined are evaluated, all others are followed both ways, loops of every
spelling (`while`, `for`, range-`for`, `std::for_each`, index loops, `do`) are simply executed.  The theorems then
quantify over *all executions on all small inputs*: "the stripes are locked in strictly ascending order and are exactly
the stripes of the given buckets", "every lock of every array from `first_locked` to `end()` is unlocked", "on every
path that changes the table the counter is bumped after the last change and before the return".  So renaming locals,
comments, asserts, debug / hook macros, reformatting, flipping an `if`/`else`, early returns, hoisting a pure
sub-expression into a local, `std::min`/`std::max` instead of a conditional swap, another loop form … leave them true,
while the harmful changes named in each docstring make them false.

Each theorem is followed by negative `example`s (skeletons extracted from deliberately broken sources: non-vacuity) and,
where the check was generalised, by positive ones (skeletons of behaviour-preserving refactorings).
-/
namespace Cuckoo.Props.C01Sync
open Cuckoo.Gen.Sync

abbrev Sk := List Act

/-- shorthand for hand-written skeletons -/
def A (k : K) (r : String := "") (a : List String := []) : Act := ⟨k, r, a, []⟩

/-! ## generic executable predicates on action lists -/

def isMarker (k : K) : Bool :=
  k == .params || k == .decl || k == .assign || k == .step || k == .do_ || k == .incr_ || k == .loop || k == .endLoop || k == .if_ || k == .then_ || k == .else_ ||
  k == .endIf || k == .try_ || k == .catch_ || k == .endTry || k == .switch_ || k == .case_ || k == .default_ ||
  k == .endSwitch || k == .lambda_ || k == .endLambda || k == .ret || k == .throw_ || k == .continue_ || k == .break_

/-- the vocabulary actions (everything but structure markers / declarations) -/
def vocab (l : Sk) : Sk := l.filter fun x => !isMarker x.k

def kinds (l : Sk) : List K := l.map (·.k)

def isK (k : K) (x : Act) : Bool := x.k == k

def idxsFrom (p : Act → Bool) : Nat → Sk → List Nat
  | _, [] => []
  | n, x :: xs => if p x then n :: idxsFrom p (n + 1) xs else idxsFrom p (n + 1) xs

/-- positions of the actions satisfying `p` -/
def idxs (p : Act → Bool) (l : Sk) : List Nat := idxsFrom p 0 l

def firstIdx (p : Act → Bool) (l : Sk) : Option Nat := (idxs p l).head?
def lastIdx (p : Act → Bool) (l : Sk) : Option Nat := (idxs p l).getLast?

/-- there is a `p`, there is a `q`, and every `p` comes before every `q` -/
def allBefore (p q : Act → Bool) (l : Sk) : Bool :=
  let a := idxs p l
  let b := idxs q l
  !a.isEmpty && !b.isEmpty && a.all fun i => b.all fun j => i < j

/-- every `p` (if any) comes before every `q` (if any) -/
def noneAfter (p q : Act → Bool) (l : Sk) : Bool :=
  (idxs p l).all fun i => (idxs q l).all fun j => i < j

/-- the first `p` comes before the first `q` (both exist) -/
def before (p q : Act → Bool) (l : Sk) : Bool :=
  match firstIdx p l, firstIdx q l with
  | some i, some j => i < j
  | _, _ => false

def count (p : Act → Bool) (l : Sk) : Nat := (l.filter p).length

def opens (k : K) : Bool := k == .loop || k == .if_ || k == .try_ || k == .switch_ || k == .lambda_
def closes (k : K) : Bool := k == .endLoop || k == .endIf || k == .endTry || k == .endSwitch || k == .endLambda

/-- nesting depth (inside if / loop / try / switch / lambda) of every action -/
def withDepth : Nat → Sk → List (Nat × Act)
  | _, [] => []
  | d, x :: xs =>
    if opens x.k then (d, x) :: withDepth (d + 1) xs
    else if closes x.k then (d - 1, x) :: withDepth (d - 1) xs
    else (d, x) :: withDepth d xs

/-- every action satisfying `p` is executed unconditionally (not nested in any if / loop / try / switch / lambda) -/
def unconditional (p : Act → Bool) (l : Sk) : Bool :=
  (withDepth 0 l).all fun (d, x) => !(p x) || d == 0

/-- loop nesting depth only -/
def withLoopDepth : Nat → Sk → List (Nat × Act)
  | _, [] => []
  | d, x :: xs =>
    if x.k == .loop then (d, x) :: withLoopDepth (d + 1) xs
    else if x.k == .endLoop then (d - 1, x) :: withLoopDepth (d - 1) xs
    else (d, x) :: withLoopDepth d xs

def allInLoop (p : Act → Bool) (l : Sk) : Bool :=
  (withLoopDepth 0 l).all fun (d, x) => !(p x) || d ≥ 1

/-- a contiguous window of `l` matches the predicates `pat` -/
def matchesAt : List (Act → Bool) → Sk → Bool
  | [], _ => true
  | _ :: _, [] => false
  | p :: ps, x :: xs => p x && matchesAt ps xs

def hasSeq (pat : List (Act → Bool)) : Sk → Bool
  | [] => pat.isEmpty
  | x :: xs => matchesAt pat (x :: xs) || hasSeq pat xs

/-- the action following the first `p`, skipping declarations -/
def nextAfterFirst (p : Act → Bool) : Sk → Option Act
  | [] => none
  | x :: xs => if p x then xs.find? (fun y => y.k != .decl) else nextAfterFirst p xs

/-- the actions strictly between the first `p` and the next `q` after it -/
def between (p q : Act → Bool) : Sk → Sk
  | [] => []
  | x :: xs => if p x then xs.takeWhile (fun y => !q y) else between p q xs

def eqAct (k : K) (r : String) (a : List String) (x : Act) : Bool := x.k == k && x.r == r && x.a == a

def isInfixL (p : List Char) : List Char → Bool
  | [] => p.isEmpty
  | c :: cs => p.isPrefixOf (c :: cs) || isInfixL p cs

/-- `sub` occurs in `s` -/
def mentions (s sub : String) : Bool := isInfixL sub.toList s.toList

/-- same elements, any order -/
def samePerm (a b : List String) : Bool := a.length == b.length && a.all b.contains && b.all a.contains

def params (l : Sk) : List String :=
  match l with
  | ⟨.params, _, ps, _⟩ :: _ => ps
  | _ => []

def declOf (l : Sk) (name : String) : Option Act := l.find? fun x => x.k == .decl && x.a.head? == some name

/-- some local `name` is declared with exactly the initialiser `init` -/
def declaredAs (l : Sk) (name init : String) : Bool := l.any fun x => x.k == .decl && x.a.take 2 == [name, init]

/-- the local that is initialised with `init` -/
def localWithInit (l : Sk) (init : String) : Option String :=
  (l.find? fun (x : Act) => x.k == .decl && (x.a.drop 1).head? == some init).bind (·.a.head?)

/-- (lock array, stripe index) a `lock` / `unlock` works on: `locks[i].lock()` directly, or through a reference
`spinlock &lock = locks[i]` -/
def stripeOf (l : Sk) (x : Act) : Option (String × String) :=
  match x.a with
  | [b, i] => some (b, i)
  | _ =>
    match declOf l x.r with
    | some d => (match d.a with | [_, _, b, i] => some (b, i) | _ => none)
    | none => none

def lockActs (l : Sk) : Sk := l.filter (isK .lock)

/-- stripe indices in the order they are locked -/
def lockedIdxs (l : Sk) : List String := (lockActs l).filterMap fun x => (stripeOf l x).map (·.2)

def isReplace (x : Act) : Bool :=
  x.k == .bucketsSwap || x.k == .bucketsAssign || x.k == .hpSet || x.k == .streamIn
def isRelease (x : Act) : Bool := x.k == .unlock || x.k == .reset || x.k == .releaseMgr
def isBookkeeping (x : Act) : Bool :=
  x.k == .moveBucket || x.k == .setMigrated || x.k == .lazySet || x.k == .rehashWorkers || x.k == .rehashLock ||
  x.k == .parallelExec || x.k == .lazyDec


/-! ## an abstract machine for skeletons -/

/-- statement tree of a skeleton -/
inductive Stmt
  | nil
  | act (a : Act) (k : Stmt)
  | ite (c : Act) (pre : List Act) (t e k : Stmt)
  | loop (h : Act) (pre : List Act) (body inc k : Stmt)
  | iter (var : String) (elems : List Nat) (body k : Stmt)   -- created at run time: remaining elements of a range loop
  | tryc (body h k : Stmt)
  | handler (c : Act) (body next : Stmt)
  | lam (body k : Stmt)
  | bad

def isCloser (k : K) : Bool :=
  k == .else_ || k == .endIf || k == .endLoop || k == .incr_ || k == .catch_ || k == .endTry || k == .endSwitch ||
  k == .endLambda

/-- `parse fuel inHandlers l` : the statements at the head of `l` up to a closing marker (left in place) -/
def parse : Nat → Bool → Sk → Stmt × Sk
  | 0, _, l => (.bad, l)
  | _ + 1, _, [] => (.nil, [])
  | f + 1, hmode, x :: xs =>
    if hmode then
      if x.k == .catch_ then
        let (b, r1) := parse f false xs
        let (nx, r2) := parse f true r1
        (.handler x b nx, r2)
      else (.nil, x :: xs)
    else if isCloser x.k then (.nil, x :: xs)
    else if x.k == .if_ then
      let pre := xs.takeWhile (fun y => y.k != .then_)
      let r0 := (xs.dropWhile (fun y => y.k != .then_)).drop 1
      let (t, r1) := parse f false r0
      match r1 with
      | y :: r2 =>
        if y.k == .else_ then
          let (e, r3) := parse f false r2
          match r3 with
          | z :: r4 =>
            if z.k == .endIf then
              let (k, r5) := parse f false r4
              (.ite x pre t e k, r5)
            else (.bad, r3)
          | [] => (.bad, [])
        else if y.k == .endIf then
          let (k, r3) := parse f false r2
          (.ite x pre t .nil k, r3)
        else (.bad, r1)
      | [] => (.bad, [])
    else if x.k == .loop then
      let pre := xs.takeWhile (fun y => y.k != .do_)
      let r0 := (xs.dropWhile (fun y => y.k != .do_)).drop 1
      let (b, r1) := parse f false r0
      match r1 with
      | y :: r2 =>
        if y.k == .incr_ then
          let (inc, r3) := parse f false r2
          match r3 with
          | z :: r4 =>
            if z.k == .endLoop then
              let (k, r5) := parse f false r4
              (.loop x pre b inc k, r5)
            else (.bad, r3)
          | [] => (.bad, [])
        else if y.k == .endLoop then
          let (k, r3) := parse f false r2
          (.loop x pre b .nil k, r3)
        else (.bad, r1)
      | [] => (.bad, [])
    else if x.k == .try_ then
      let (b, r1) := parse f false xs
      let (h, r2) := parse f true r1
      match r2 with
      | z :: r3 =>
        if z.k == .endTry then
          let (k, r4) := parse f false r3
          (.tryc b h k, r4)
        else (.bad, r2)
      | [] => (.bad, [])
    else if x.k == .lambda_ then
      let (b, r1) := parse f false xs
      match r1 with
      | z :: r2 =>
        if z.k == .endLambda then
          let (k, r3) := parse f false r2
          (.lam b k, r3)
        else (.bad, r1)
      | [] => (.bad, [])
    else if x.k == .switch_ then (.bad, x :: xs)
    else
      let (k, r) := parse f false xs
      (.act x k, r)

def toStmt (l : Sk) : Stmt := (parse (2 * l.length + 2) false l).1

/-- does the tree contain a part that could not be parsed / is not interpreted (switch) -/
def Stmt.hasBad : Stmt → Bool
  | .nil => false
  | .act _ k => k.hasBad
  | .ite _ _ t e k => t.hasBad || e.hasBad || k.hasBad
  | .loop _ _ b i k => b.hasBad || i.hasBad || k.hasBad
  | .iter _ _ b k => b.hasBad || k.hasBad
  | .tryc b h k => b.hasBad || h.hasBad || k.hasBad
  | .handler _ b n => b.hasBad || n.hasBad
  | .lam b k => b.hasBad || k.hasBad
  | .bad => true

/-- marker value of the list of lock arrays `all_locks_` -/
def LIST : Nat := 7777

/-- one executed action with its evaluated receiver / operands (`none` = not determined) -/
structure Ev where
  k : K
  r : Option Nat
  v : List (Option Nat)
  a : Act

/-- machine state.  Values are natural numbers: a lock array is its position in `all_locks_` (a new vector gets the
next free position), an iterator into `all_locks_` is a position, the lock `i` of array `j` is `100 * j + i`. -/
structure St where
  env : List (String × Nat)
  arrs : List Nat              -- the lock arrays in list order
  sz : List (Nat × Nat)        -- sizes of arrays (default `dsz`)
  dsz : Nat
  fresh : Nat
  bud : Nat                    -- iterations still allowed for loops whose condition is not determined
  kbud : Nat                   -- … for loops whose condition is determined (bounds `while (true)`)
  exc : String                 -- exception in flight
  tr : List Ev                 -- newest first

def St.sizeOf (st : St) (c : Nat) : Nat := (st.sz.lookup c).getD st.dsz
def St.set (st : St) (n : String) (v : Option Nat) : St :=
  match v with
  | some w => { st with env := (n, w) :: st.env.filter (fun p => p.1 != n) }
  | none => { st with env := st.env.filter (fun p => p.1 != n) }

def b2n (b : Bool) : Nat := if b then 1 else 0

def binop (o : String) (x y : Option Nat) : Option Nat :=
  if o == "&&" then
    match x, y with
    | some 0, _ => some 0 | _, some 0 => some 0 | some _, some _ => some 1 | _, _ => none
  else if o == "||" then
    match x, y with
    | some 0, some 0 => some 0 | some 0, none => none | none, some 0 => none | none, none => none | _, _ => some 1
  else
    match x, y with
    | some a, some b =>
      if o == "==" then some (b2n (a == b)) else if o == "!=" then some (b2n (a != b))
      else if o == "<" then some (b2n (a < b)) else if o == ">" then some (b2n (a > b))
      else if o == "<=" then some (b2n (a ≤ b)) else if o == ">=" then some (b2n (a ≥ b))
      else if o == "+" then some (a + b) else if o == "-" then some (a - b) else if o == "*" then some (a * b)
      else if o == "%" then (if b == 0 then none else some (a % b))
      else if o == "/" then (if b == 0 then none else some (a / b))
      else if o == "<<" then some (a * 2 ^ b) else if o == "&" then some (a &&& b)
      else none
    | _, _ => none

/-- the functions the machine knows; anything else is looked up by its source text (an oracle the theorem provides) -/
def builtin (st : St) (f : String) (args : List (Option Nat)) (t : String) : Option Nat :=
  match args with
  | [] => if f == "get_current_locks" then st.arrs.getLast? else st.env.lookup t
  | [a] =>
    if f == "lock_ind" || f == "std::move" || f == "size_type" || f == "size_t" || f == "AllUnlocker" || f == "std::ref" then a
    else if f == "std::prev" then a.map (· - 1)
    else if f == "std::next" then a.map (· + 1)
    else if f == ".get_current_locks" then st.arrs.getLast?
    else match a with
      | some c =>
        -- iterators: into `all_locks_` = positions; into a lock array `c` = the lock values `100 c + i`
        let isArr := st.arrs.contains c || (st.sz.lookup c).isSome
        if f == ".end" then (if c == LIST then some st.arrs.length else if isArr then some (100 * c + st.sizeOf c) else st.env.lookup t)
        else if f == ".begin" then (if c == LIST then some 0 else if isArr then some (100 * c) else st.env.lookup t)
        else if f == ".back" then (if c == LIST then st.arrs.getLast? else st.env.lookup t)
        else if f == ".size" then (if c == LIST then some st.arrs.length else
          if st.arrs.contains c || (st.sz.lookup c).isSome then some (st.sizeOf c) else st.env.lookup t)
        else (st.env.lookup t).orElse fun _ => st.env.lookup f
      | none => (st.env.lookup t).orElse fun _ => st.env.lookup f
  | [a, b] =>
    if f == "std::min" then (match a, b with | some x, some y => some (min x y) | _, _ => none)
    else if f == "std::max" then (match a, b with | some x, some y => some (max x y) | _, _ => none)
    else if f == "AllLocksManager" then b
    else st.env.lookup t
  | _ => st.env.lookup t

def takeArgs : Nat → List (Option Nat) → List (Option Nat) → Option (List (Option Nat) × List (Option Nat))
  | 0, s, acc => some (acc, s)
  | n + 1, x :: s, acc => takeArgs n s (x :: acc)
  | _ + 1, [], _ => none

/-- evaluation of a postfix operand; the result is the final stack (`none` = malformed) -/
def evalStack (st : St) : List Tk → List (Option Nat) → Option (List (Option Nat))
  | [], s => some s
  | t :: ts, s =>
    match t with
    | .num n => evalStack st ts (some n :: s)
    | .var n => evalStack st ts ((if n == "all_locks_" then some LIST else st.env.lookup n) :: s)
    | .unk => evalStack st ts (none :: s)
    | .lst _ => evalStack st ts s
    | .mem m full =>
      (match s with
       | _ :: s' => evalStack st ts ((if m == "all_locks_" then some LIST else st.env.lookup full) :: s')
       | [] => none)
    | .sub full =>
      (match s with
       | i :: b :: s' =>
         let v := match st.env.lookup full with
           | some w => some w
           | none => (match b, i with | some bb, some ii => some (100 * bb + ii) | _, _ => none)
         evalStack st ts (v :: s')
       | _ => none)
    | .call f n full =>
      (match takeArgs n s [] with
       | some (args, s') => evalStack st ts (builtin st f args full :: s')
       | none => none)
    | .op o =>
      if o == "?:" then
        (match s with
         | z :: y :: c :: s' =>
           evalStack st ts ((match c with | some 0 => z | some _ => y | none => (if y == z then y else none)) :: s')
         | _ => none)
      else if o == "u!" then
        (match s with | x :: s' => evalStack st ts (x.map (fun v => b2n (v == 0)) :: s') | [] => none)
      else if o == "u*" then
        (match s with
         | x :: s' => evalStack st ts (x.map (fun v => if v < st.arrs.length then st.arrs.getD v v else v) :: s')
         | [] => none)
      else if o == "u&" || o == "u+" then evalStack st ts s
      else if o == "u-" || o == "u~" || o == "u++" || o == "u--" || o == "p++" || o == "p--" then
        (match s with | _ :: s' => evalStack st ts (none :: s') | [] => none)
      else
        (match s with
         | y :: x :: s' => evalStack st ts (binop o x y :: s')
         | _ => none)

/-- value of an operand (`[]` = absent operand = `none`) -/
def eval (st : St) (e : List Tk) : Option Nat :=
  match evalStack st e [] with
  | some [v] => v
  | _ => none

inductive Exit | fall | brk | cont | ret | thrw | cut
deriving DecidableEq, Repr

abbrev Out := List (St × Exit)

def isMarkerK (k : K) : Bool :=
  k == .params || k == .decl || k == .assign || k == .step || k == .do_ || k == .incr_ || k == .loop || k == .endLoop ||
  k == .if_ || k == .then_ || k == .else_ || k == .endIf || k == .try_ || k == .catch_ || k == .endTry || k == .switch_ ||
  k == .case_ || k == .default_ || k == .endSwitch || k == .lambda_ || k == .endLambda || k == .continue_ || k == .break_

/-- calls that may leave by `resize_counter_changed` -/
def mayThrow (k : K) : Bool :=
  k == .checkRc || k == .lockOne || k == .lockTwo || k == .lockThree || k == .pathSearch || k == .pathMove ||
  k == .slotSearch

def assignList (st : St) (name : String) : Nat → List (Option Nat) → St
  | _, [] => st
  | i, v :: vs => assignList (st.set (name ++ "[" ++ toString i ++ "]") v) name (i + 1) vs

def mkEv (st : St) (a : Act) : Ev :=
  ⟨a.k, (a.x.head?.bind fun e => if e.isEmpty then none else eval st e), (a.x.drop 1).map (eval st), a⟩

/-- one action -/
def execAct (a : Act) (st : St) : Out :=
  if a.k == .decl then
    let name := a.a.getD 0 "?"
    match a.x with
    | [e] =>
      if e.getLast? matches some (.lst _) then
        match evalStack st e [] with
        | some vs => [(assignList st name 0 vs.reverse, .fall)]
        | none => [(st, .fall)]
      else [(st.set name (eval st e), .fall)]
    | _ =>
      -- `T x;` / `T x(args);` : a new object
      [({ st.set name (some st.fresh) with fresh := st.fresh + 1 }, .fall)]
  else if a.k == .assign || a.k == .step then
    [(st.set (a.a.getD (if a.k == .assign then 0 else 1) "?") (eval st (a.x.getD 0 [])), .fall)]
  else if a.k == .swapVals then
    let s := a.a.getD 0 "?"
    let t := a.a.getD 1 "?"
    let vs := eval st (a.x.getD 1 [])
    let vt := eval st (a.x.getD 2 [])
    [((st.set s vt).set t vs, .fall)]
  else if a.k == .continue_ then [(st, .cont)]
  else if a.k == .break_ then [(st, .brk)]
  else if isMarkerK a.k then [(st, .fall)]
  else
    let ev := mkEv st a
    let st1 := { st with tr := ev :: st.tr }
    if a.k == .ret then [(st1, .ret)]
    else if a.k == .throw_ then [({ st1 with exc := a.a.getD 0 "" }, .thrw)]
    else
      let st2 :=
        if a.k == .emplaceBack then
          (match ev.v.head? with | some (some c) => { st1 with arrs := st1.arrs ++ [c] } | _ => st1)
        else if a.k == .resizeVec then
          (match ev.r, ev.v.head? with
           | some c, some (some n) => { st1 with sz := (c, n) :: st1.sz.filter (fun p => p.1 != c) }
           | _, _ => st1)
        else st1
      if mayThrow a.k then [(st2, .fall), ({ st2 with exc := "resize_counter_changed" }, .thrw)] else [(st2, .fall)]

def execActs : List Act → St → Out
  | [], st => [(st, .fall)]
  | a :: as, st => (execAct a st).flatMap fun p => if p.2 == .fall then execActs as p.1 else [p]

def catches (c : Act) (exc : String) : Bool :=
  let ty := c.a.getD 0 ""
  ty == "..." || (exc != "" && (mentions ty exc || mentions exc (String.ofList (ty.toList.filter (fun ch => ch.isAlphanum || ch == '_')))))

/-- all executions (every undetermined condition is followed both ways, loops with an undetermined condition at most
`bud` times in total) -/
def exec : Nat → Stmt → St → Out
  | 0, _, st => [(st, .cut)]
  | _ + 1, .nil, st => [(st, .fall)]
  | _ + 1, .bad, st => [(st, .cut)]
  | f + 1, .act a k, st =>
    (execAct a st).flatMap fun p => if p.2 == .fall then exec f k p.1 else [p]
  | f + 1, .ite c pre t e k, st =>
    (execActs pre st).flatMap fun p =>
      if p.2 != .fall then [p] else
      let go (b : Stmt) : Out := (exec f b p.1).flatMap fun q => if q.2 == .fall then exec f k q.1 else [q]
      match eval p.1 (c.x.getD 0 []) with
      | some 0 => go e
      | some _ => go t
      | none => go t ++ go e
  | f + 1, .iter var elems body k, st =>
    match elems with
    | [] => exec f k st
    | el :: es =>
      (exec f body (st.set var (some el))).flatMap fun q =>
        if q.2 == .fall || q.2 == .cont then exec f (.iter var es body k) q.1
        else if q.2 == .brk then exec f k q.1 else [q]
  | f + 1, .loop h pre body inc k, st =>
    let kind := h.a.getD 0 ""
    if kind == "range" then
      let var := h.a.getD 1 "?"
      match eval st (h.x.getD 0 []) with
      | some c =>
        if st.arrs.contains c || (st.sz.lookup c).isSome then
          exec f (.iter var ((List.range (st.sizeOf c)).map (fun i => 100 * c + i)) body k) st
        else [(st, .cut)]
      | none =>
        -- container not determined: zero or one iteration
        let once : Out := if st.bud == 0 then [] else
          (exec f body ({ st with bud := st.bud - 1 }.set var none)).flatMap fun q =>
            if q.2 == .fall || q.2 == .cont || q.2 == .brk then exec f k q.1 else [q]
        exec f k st ++ once
    else
      let iterate (s0 : St) : Out :=
        (exec f body s0).flatMap fun q =>
          if q.2 == .fall || q.2 == .cont then
            (exec f inc q.1).flatMap fun r => if r.2 == .fall then exec f (.loop h pre body inc k) r.1 else [r]
          else if q.2 == .brk then exec f k q.1 else [q]
      if kind == "do" then
        -- body, then the condition actions (`inc`), then the test
        (exec f body st).flatMap fun q =>
          if q.2 == .fall || q.2 == .cont then
            (exec f inc q.1).flatMap fun r =>
              if r.2 != .fall then [r] else
              match eval r.1 (h.x.getD 0 []) with
              | some 0 => exec f k r.1
              | some _ => if r.1.kbud == 0 then [(r.1, .cut)] else exec f (.loop h pre body inc k) { r.1 with kbud := r.1.kbud - 1 }
              | none => exec f k r.1 ++
                  (if r.1.bud == 0 then [] else exec f (.loop h pre body inc k) { r.1 with bud := r.1.bud - 1 })
          else if q.2 == .brk then exec f k q.1 else [q]
      else
        (execActs pre st).flatMap fun p =>
          if p.2 != .fall then [p] else
          let cx := h.x.getD 0 []
          match (if cx.isEmpty then some 1 else eval p.1 cx) with
          | some 0 => exec f k p.1
          | some _ => if p.1.kbud == 0 then [(p.1, .cut)] else iterate { p.1 with kbud := p.1.kbud - 1 }
          | none => exec f k p.1 ++ (if p.1.bud == 0 then [] else iterate { p.1 with bud := p.1.bud - 1 })
  | f + 1, .tryc body h k, st =>
    (exec f body st).flatMap fun q =>
      if q.2 == .fall then exec f k q.1
      else if q.2 == .thrw then
        (exec f h q.1).flatMap fun r => if r.2 == .fall then exec f k r.1 else [r]
      else [q]
  | f + 1, .handler c body next, st =>
    if catches c st.exc then exec f body { st with exc := "" }
    else match next with
      | .nil => [(st, .thrw)]
      | _ => exec f next st
  | f + 1, .lam body k, st =>
    (exec f body st).flatMap fun q => if q.2 == .fall || q.2 == .ret then exec f k q.1 else [q]

/-- a finished execution: how it ended and what it did (oldest first) -/
structure Run where
  exit : Exit
  tr : List Ev
  arrs : List Nat
  sz : List (Nat × Nat)
  env : List (String × Nat)

def initSt (env : List (String × Nat)) (nArr dsz kb : Nat) : St :=
  ⟨env, List.range nArr, [], dsz, nArr, 2, kb, "", []⟩

/-- all executions of `l` from `env`, with `nArr` lock arrays of `dsz` locks; `kb` bounds the iterations of loops whose
condition is determined (an execution that needs more ends with `Exit.cut`) -/
def runsOf (l : Sk) (env : List (String × Nat)) (nArr dsz : Nat := 3) (kb : Nat := 24) : List Run :=
  (exec 600 (toStmt l) (initSt env nArr dsz kb)).map fun p => ⟨p.2, p.1.tr.reverse, p.1.arrs, p.1.sz, p.1.env⟩


/-! ## example skeletons (extracted by the translator from deliberately broken `bad_…` and from refactored `alt_…` sources) -/

def bad_snapshot_swapped_loads : Sk := [
  ⟨.params, "", ["hv"], []⟩,
  ⟨.loop, "", ["while", "?", "true"], [[.num 1]]⟩,
  ⟨.do_, "", [], []⟩,
  ⟨.hpGet, "", [], [[]]⟩,
  ⟨.decl, "", ["hp", "hashpower()"], [[.call "hashpower" 0 "hashpower()"]]⟩,
  ⟨.loadRc, "", [], [[]]⟩,
  ⟨.decl, "", ["resize_counter", "load_resize_counter()"], [[.call "load_resize_counter" 0 "load_resize_counter()"]]⟩,
  ⟨.decl, "", ["i1", "index_hash(hp,hv.hash)"], [[.var "hp", .var "hv", .mem "hash" "hv.hash", .call "index_hash" 2 "index_hash(hp,hv.hash)"]]⟩,
  ⟨.decl, "", ["i2", "alt_index(hp,hv.partial,i1)"], [[.var "hp", .var "hv", .mem "partial" "hv.partial", .var "i1", .call "alt_index" 3 "alt_index(hp,hv.partial,i1)"]]⟩,
  ⟨.try_, "", [], []⟩,
  ⟨.lockTwo, "", ["resize_counter", "i1", "i2", "TABLE_MODE()"], [[], [.var "resize_counter"], [.var "i1"], [.var "i2"], [.call "TABLE_MODE" 0 "TABLE_MODE()"]]⟩,
  ⟨.ret, "", ["lock_two(resize_counter,i1,i2,TABLE_MODE())"], [[.var "resize_counter", .var "i1", .var "i2", .call "TABLE_MODE" 0 "TABLE_MODE()", .call "lock_two" 4 "lock_two(resize_counter,i1,i2,TABLE_MODE())"]]⟩,
  ⟨.catch_, "", ["resize_counter_changed&"], []⟩,
  ⟨.continue_, "", [], []⟩,
  ⟨.endTry, "", [], []⟩,
  ⟨.endLoop, "", [], []⟩
]

def bad_run_cuckoo_late_load : Sk := [
  ⟨.params, "", ["b", "insert_bucket", "insert_slot"], []⟩,
  ⟨.hpGet, "", [], [[]]⟩,
  ⟨.decl, "", ["hp", "hashpower()"], [[.call "hashpower" 0 "hashpower()"]]⟩,
  ⟨.unlock, "b", [], [[.var "b"]]⟩,
  ⟨.loadRc, "", [], [[]]⟩,
  ⟨.decl, "", ["resize_counter", "load_resize_counter()"], [[.call "load_resize_counter" 0 "load_resize_counter()"]]⟩,
  ⟨.decl, "", ["cuckoo_path", ""], []⟩,
  ⟨.decl, "", ["done", "false"], [[.num 0]]⟩,
  ⟨.try_, "", [], []⟩,
  ⟨.loop, "", ["while", "?", "!done"], [[.var "done", .op "u!"]]⟩,
  ⟨.do_, "", [], []⟩,
  ⟨.pathSearch, "", ["TABLE_MODE", "hp", "resize_counter", "cuckoo_path", "b.i1", "b.i2"], [[], [.var "hp"], [.var "resize_counter"], [.var "cuckoo_path"], [.var "b", .mem "i1" "b.i1"], [.var "b", .mem "i2" "b.i2"]]⟩,
  ⟨.decl, "", ["depth", "cuckoopath_search<TABLE_MODE>(hp,resize_counter,cuckoo_path,b.i1,b.i2)"], [[.var "hp", .var "resize_counter", .var "cuckoo_path", .var "b", .mem "i1" "b.i1", .var "b", .mem "i2" "b.i2", .call "cuckoopath_search" 5 "cuckoopath_search<TABLE_MODE>(hp,resize_counter,cuckoo_path,b.i1,b.i2)"]]⟩,
  ⟨.if_, "", ["<", "depth", "0"], [[.var "depth", .num 0, .op "<"]]⟩,
  ⟨.then_, "", [], []⟩,
  ⟨.break_, "", [], []⟩,
  ⟨.endIf, "", [], []⟩,
  ⟨.if_, "", ["?", "cuckoopath_move<TABLE_MODE>(resize_counter,cuckoo_path,depth,b)"], [[.var "resize_counter", .var "cuckoo_path", .var "depth", .var "b", .call "cuckoopath_move" 4 "cuckoopath_move<TABLE_MODE>(resize_counter,cuckoo_path,depth,b)"]]⟩,
  ⟨.pathMove, "", ["TABLE_MODE", "resize_counter", "cuckoo_path", "depth", "b"], [[], [.var "resize_counter"], [.var "cuckoo_path"], [.var "depth"], [.var "b"]]⟩,
  ⟨.then_, "", [], []⟩,
  ⟨.assign, "", ["insert_bucket", "cuckoo_path[0].bucket"], [[.var "cuckoo_path", .num 0, .sub "cuckoo_path[0]", .mem "bucket" "cuckoo_path[0].bucket"]]⟩,
  ⟨.assign, "", ["insert_slot", "cuckoo_path[0].slot"], [[.var "cuckoo_path", .num 0, .sub "cuckoo_path[0]", .mem "slot" "cuckoo_path[0].slot"]]⟩,
  ⟨.assign, "", ["done", "true"], [[.num 1]]⟩,
  ⟨.break_, "", [], []⟩,
  ⟨.endIf, "", [], []⟩,
  ⟨.endLoop, "", [], []⟩,
  ⟨.catch_, "", ["resize_counter_changed&"], []⟩,
  ⟨.ret, "", ["failure_under_expansion"], [[.var "failure_under_expansion"]]⟩,
  ⟨.endTry, "", [], []⟩,
  ⟨.ret, "", ["done?ok:failure"], [[.var "done", .var "ok", .var "failure", .op "?:"]]⟩
]

def bad_lock_two_reread_locks : Sk := [
  ⟨.params, "", ["resize_counter", "i1", "i2", ""], []⟩,
  ⟨.decl, "", ["l1", "lock_ind(i1)"], [[.var "i1", .call "lock_ind" 1 "lock_ind(i1)"]]⟩,
  ⟨.decl, "", ["l2", "lock_ind(i2)"], [[.var "i2", .call "lock_ind" 1 "lock_ind(i2)"]]⟩,
  ⟨.if_, "", ["<", "l2", "l1"], [[.var "l2", .var "l1", .op "<"]]⟩,
  ⟨.then_, "", [], []⟩,
  ⟨.swapVals, "", ["l1", "l2"], [[], [.var "l1"], [.var "l2"]]⟩,
  ⟨.endIf, "", [], []⟩,
  ⟨.getLocks, "", [], [[]]⟩,
  ⟨.decl, "", ["locks", "get_current_locks()"], [[.call "get_current_locks" 0 "get_current_locks()"]]⟩,
  ⟨.lock, "locks[l1]", ["locks", "l1"], [[.var "locks", .var "l1", .sub "locks[l1]"]]⟩,
  ⟨.checkRc, "", ["resize_counter", "locks[l1]"], [[], [.var "resize_counter"], [.var "locks", .var "l1", .sub "locks[l1]"]]⟩,
  ⟨.if_, "", ["!=", "l2", "l1"], [[.var "l2", .var "l1", .op "!="]]⟩,
  ⟨.then_, "", [], []⟩,
  ⟨.getLocks, "", [], [[]]⟩,
  ⟨.lock, "get_current_locks()[l2]", ["get_current_locks()", "l2"], [[.call "get_current_locks" 0 "get_current_locks()", .var "l2", .sub "get_current_locks()[l2]"]]⟩,
  ⟨.endIf, "", [], []⟩,
  ⟨.rehashLock, "", ["kIsLazy", "l1"], [[], [.var "l1"]]⟩,
  ⟨.rehashLock, "", ["kIsLazy", "l2"], [[], [.var "l2"]]⟩,
  ⟨.ret, "", ["TwoBuckets(locks,i1,i2,normal_mode())"], [[.var "locks", .var "i1", .var "i2", .call "normal_mode" 0 "normal_mode()", .call "TwoBuckets" 4 "TwoBuckets(locks,i1,i2,normal_mode())"]]⟩
]

def bad_lock_two_check_after_second : Sk := [
  ⟨.params, "", ["resize_counter", "i1", "i2", ""], []⟩,
  ⟨.decl, "", ["l1", "lock_ind(i1)"], [[.var "i1", .call "lock_ind" 1 "lock_ind(i1)"]]⟩,
  ⟨.decl, "", ["l2", "lock_ind(i2)"], [[.var "i2", .call "lock_ind" 1 "lock_ind(i2)"]]⟩,
  ⟨.if_, "", ["<", "l2", "l1"], [[.var "l2", .var "l1", .op "<"]]⟩,
  ⟨.then_, "", [], []⟩,
  ⟨.swapVals, "", ["l1", "l2"], [[], [.var "l1"], [.var "l2"]]⟩,
  ⟨.endIf, "", [], []⟩,
  ⟨.getLocks, "", [], [[]]⟩,
  ⟨.decl, "", ["locks", "get_current_locks()"], [[.call "get_current_locks" 0 "get_current_locks()"]]⟩,
  ⟨.lock, "locks[l1]", ["locks", "l1"], [[.var "locks", .var "l1", .sub "locks[l1]"]]⟩,
  ⟨.if_, "", ["!=", "l2", "l1"], [[.var "l2", .var "l1", .op "!="]]⟩,
  ⟨.then_, "", [], []⟩,
  ⟨.lock, "locks[l2]", ["locks", "l2"], [[.var "locks", .var "l2", .sub "locks[l2]"]]⟩,
  ⟨.endIf, "", [], []⟩,
  ⟨.checkRc, "", ["resize_counter", "locks[l1]"], [[], [.var "resize_counter"], [.var "locks", .var "l1", .sub "locks[l1]"]]⟩,
  ⟨.rehashLock, "", ["kIsLazy", "l1"], [[], [.var "l1"]]⟩,
  ⟨.rehashLock, "", ["kIsLazy", "l2"], [[], [.var "l2"]]⟩,
  ⟨.ret, "", ["TwoBuckets(locks,i1,i2,normal_mode())"], [[.var "locks", .var "i1", .var "i2", .call "normal_mode" 0 "normal_mode()", .call "TwoBuckets" 4 "TwoBuckets(locks,i1,i2,normal_mode())"]]⟩
]

def bad_lock_two_no_rehash_l2 : Sk := [
  ⟨.params, "", ["resize_counter", "i1", "i2", ""], []⟩,
  ⟨.decl, "", ["l1", "lock_ind(i1)"], [[.var "i1", .call "lock_ind" 1 "lock_ind(i1)"]]⟩,
  ⟨.decl, "", ["l2", "lock_ind(i2)"], [[.var "i2", .call "lock_ind" 1 "lock_ind(i2)"]]⟩,
  ⟨.if_, "", ["<", "l2", "l1"], [[.var "l2", .var "l1", .op "<"]]⟩,
  ⟨.then_, "", [], []⟩,
  ⟨.swapVals, "", ["l1", "l2"], [[], [.var "l1"], [.var "l2"]]⟩,
  ⟨.endIf, "", [], []⟩,
  ⟨.getLocks, "", [], [[]]⟩,
  ⟨.decl, "", ["locks", "get_current_locks()"], [[.call "get_current_locks" 0 "get_current_locks()"]]⟩,
  ⟨.lock, "locks[l1]", ["locks", "l1"], [[.var "locks", .var "l1", .sub "locks[l1]"]]⟩,
  ⟨.checkRc, "", ["resize_counter", "locks[l1]"], [[], [.var "resize_counter"], [.var "locks", .var "l1", .sub "locks[l1]"]]⟩,
  ⟨.if_, "", ["!=", "l2", "l1"], [[.var "l2", .var "l1", .op "!="]]⟩,
  ⟨.then_, "", [], []⟩,
  ⟨.lock, "locks[l2]", ["locks", "l2"], [[.var "locks", .var "l2", .sub "locks[l2]"]]⟩,
  ⟨.endIf, "", [], []⟩,
  ⟨.rehashLock, "", ["kIsLazy", "l1"], [[], [.var "l1"]]⟩,
  ⟨.ret, "", ["TwoBuckets(locks,i1,i2,normal_mode())"], [[.var "locks", .var "i1", .var "i2", .call "normal_mode" 0 "normal_mode()", .call "TwoBuckets" 4 "TwoBuckets(locks,i1,i2,normal_mode())"]]⟩
]

def bad_lock_two_descending : Sk := [
  ⟨.params, "", ["resize_counter", "i1", "i2", ""], []⟩,
  ⟨.decl, "", ["l1", "lock_ind(i1)"], [[.var "i1", .call "lock_ind" 1 "lock_ind(i1)"]]⟩,
  ⟨.decl, "", ["l2", "lock_ind(i2)"], [[.var "i2", .call "lock_ind" 1 "lock_ind(i2)"]]⟩,
  ⟨.if_, "", ["<", "l1", "l2"], [[.var "l1", .var "l2", .op "<"]]⟩,
  ⟨.then_, "", [], []⟩,
  ⟨.swapVals, "", ["l1", "l2"], [[], [.var "l1"], [.var "l2"]]⟩,
  ⟨.endIf, "", [], []⟩,
  ⟨.getLocks, "", [], [[]]⟩,
  ⟨.decl, "", ["locks", "get_current_locks()"], [[.call "get_current_locks" 0 "get_current_locks()"]]⟩,
  ⟨.lock, "locks[l1]", ["locks", "l1"], [[.var "locks", .var "l1", .sub "locks[l1]"]]⟩,
  ⟨.checkRc, "", ["resize_counter", "locks[l1]"], [[], [.var "resize_counter"], [.var "locks", .var "l1", .sub "locks[l1]"]]⟩,
  ⟨.if_, "", ["!=", "l2", "l1"], [[.var "l2", .var "l1", .op "!="]]⟩,
  ⟨.then_, "", [], []⟩,
  ⟨.lock, "locks[l2]", ["locks", "l2"], [[.var "locks", .var "l2", .sub "locks[l2]"]]⟩,
  ⟨.endIf, "", [], []⟩,
  ⟨.rehashLock, "", ["kIsLazy", "l1"], [[], [.var "l1"]]⟩,
  ⟨.rehashLock, "", ["kIsLazy", "l2"], [[], [.var "l2"]]⟩,
  ⟨.ret, "", ["TwoBuckets(locks,i1,i2,normal_mode())"], [[.var "locks", .var "i1", .var "i2", .call "normal_mode" 0 "normal_mode()", .call "TwoBuckets" 4 "TwoBuckets(locks,i1,i2,normal_mode())"]]⟩
]

def bad_lock_two_no_dup_guard : Sk := [
  ⟨.params, "", ["resize_counter", "i1", "i2", ""], []⟩,
  ⟨.decl, "", ["l1", "lock_ind(i1)"], [[.var "i1", .call "lock_ind" 1 "lock_ind(i1)"]]⟩,
  ⟨.decl, "", ["l2", "lock_ind(i2)"], [[.var "i2", .call "lock_ind" 1 "lock_ind(i2)"]]⟩,
  ⟨.if_, "", ["<", "l2", "l1"], [[.var "l2", .var "l1", .op "<"]]⟩,
  ⟨.then_, "", [], []⟩,
  ⟨.swapVals, "", ["l1", "l2"], [[], [.var "l1"], [.var "l2"]]⟩,
  ⟨.endIf, "", [], []⟩,
  ⟨.getLocks, "", [], [[]]⟩,
  ⟨.decl, "", ["locks", "get_current_locks()"], [[.call "get_current_locks" 0 "get_current_locks()"]]⟩,
  ⟨.lock, "locks[l1]", ["locks", "l1"], [[.var "locks", .var "l1", .sub "locks[l1]"]]⟩,
  ⟨.checkRc, "", ["resize_counter", "locks[l1]"], [[], [.var "resize_counter"], [.var "locks", .var "l1", .sub "locks[l1]"]]⟩,
  ⟨.lock, "locks[l2]", ["locks", "l2"], [[.var "locks", .var "l2", .sub "locks[l2]"]]⟩,
  ⟨.rehashLock, "", ["kIsLazy", "l1"], [[], [.var "l1"]]⟩,
  ⟨.rehashLock, "", ["kIsLazy", "l2"], [[], [.var "l2"]]⟩,
  ⟨.ret, "", ["TwoBuckets(locks,i1,i2,normal_mode())"], [[.var "locks", .var "i1", .var "i2", .call "normal_mode" 0 "normal_mode()", .call "TwoBuckets" 4 "TwoBuckets(locks,i1,i2,normal_mode())"]]⟩
]

def bad_lock_three_network : Sk := [
  ⟨.params, "", ["resize_counter", "i1", "i2", "i3", ""], []⟩,
  ⟨.decl, "", ["l", "{{lock_ind(i1),lock_ind(i2),lock_ind(i3)}}"], [[.var "i1", .call "lock_ind" 1 "lock_ind(i1)", .var "i2", .call "lock_ind" 1 "lock_ind(i2)", .var "i3", .call "lock_ind" 1 "lock_ind(i3)", .lst 3, .lst 1]]⟩,
  ⟨.if_, "", ["<", "l[2]", "l[1]"], [[.var "l", .num 2, .sub "l[2]", .var "l", .num 1, .sub "l[1]", .op "<"]]⟩,
  ⟨.then_, "", [], []⟩,
  ⟨.swapVals, "", ["l[2]", "l[1]"], [[], [.var "l", .num 2, .sub "l[2]"], [.var "l", .num 1, .sub "l[1]"]]⟩,
  ⟨.endIf, "", [], []⟩,
  ⟨.if_, "", ["<", "l[2]", "l[0]"], [[.var "l", .num 2, .sub "l[2]", .var "l", .num 0, .sub "l[0]", .op "<"]]⟩,
  ⟨.then_, "", [], []⟩,
  ⟨.swapVals, "", ["l[2]", "l[0]"], [[], [.var "l", .num 2, .sub "l[2]"], [.var "l", .num 0, .sub "l[0]"]]⟩,
  ⟨.endIf, "", [], []⟩,
  ⟨.getLocks, "", [], [[]]⟩,
  ⟨.decl, "", ["locks", "get_current_locks()"], [[.call "get_current_locks" 0 "get_current_locks()"]]⟩,
  ⟨.lock, "locks[l[0]]", ["locks", "l[0]"], [[.var "locks", .var "l", .num 0, .sub "l[0]", .sub "locks[l[0]]"]]⟩,
  ⟨.checkRc, "", ["resize_counter", "locks[l[0]]"], [[], [.var "resize_counter"], [.var "locks", .var "l", .num 0, .sub "l[0]", .sub "locks[l[0]]"]]⟩,
  ⟨.if_, "", ["!=", "l[1]", "l[0]"], [[.var "l", .num 1, .sub "l[1]", .var "l", .num 0, .sub "l[0]", .op "!="]]⟩,
  ⟨.then_, "", [], []⟩,
  ⟨.lock, "locks[l[1]]", ["locks", "l[1]"], [[.var "locks", .var "l", .num 1, .sub "l[1]", .sub "locks[l[1]]"]]⟩,
  ⟨.endIf, "", [], []⟩,
  ⟨.if_, "", ["!=", "l[2]", "l[1]"], [[.var "l", .num 2, .sub "l[2]", .var "l", .num 1, .sub "l[1]", .op "!="]]⟩,
  ⟨.then_, "", [], []⟩,
  ⟨.lock, "locks[l[2]]", ["locks", "l[2]"], [[.var "locks", .var "l", .num 2, .sub "l[2]", .sub "locks[l[2]]"]]⟩,
  ⟨.endIf, "", [], []⟩,
  ⟨.rehashLock, "", ["kIsLazy", "l[0]"], [[], [.var "l", .num 0, .sub "l[0]"]]⟩,
  ⟨.rehashLock, "", ["kIsLazy", "l[1]"], [[], [.var "l", .num 1, .sub "l[1]"]]⟩,
  ⟨.rehashLock, "", ["kIsLazy", "l[2]"], [[], [.var "l", .num 2, .sub "l[2]"]]⟩,
  ⟨.ret, "", ["std::make_pair(TwoBuckets(locks,i1,i2,normal_mode()),LockManager((lock_ind(i3)==lock_ind(i1)||lock_ind(i3)==lock_ind(i2))?nullptr:&locks[lock_ind(i3)]))"], [[.var "locks", .var "i1", .var "i2", .call "normal_mode" 0 "normal_mode()", .call "TwoBuckets" 4 "TwoBuckets(locks,i1,i2,normal_mode())", .var "i3", .call "lock_ind" 1 "lock_ind(i3)", .var "i1", .call "lock_ind" 1 "lock_ind(i1)", .op "==", .var "i3", .call "lock_ind" 1 "lock_ind(i3)", .var "i2", .call "lock_ind" 1 "lock_ind(i2)", .op "==", .op "||", .num 0, .var "locks", .var "i3", .call "lock_ind" 1 "lock_ind(i3)", .sub "locks[lock_ind(i3)]", .op "u&", .op "?:", .call "LockManager" 1 "LockManager((lock_ind(i3)==lock_ind(i1)||lock_ind(i3)==lock_ind(i2))?nullptr:&locks[lock_ind(i3)])", .call "std::make_pair" 2 "std::make_pair(TwoBuckets(locks,i1,i2,normal_mode()),LockManager((lock_ind(i3)==lock_ind(i1)||lock_ind(i3)==lock_ind(i2))?nullptr:&locks[lock_ind(i3)]))"]]⟩
]

def bad_check_no_unlock : Sk := [
  ⟨.params, "", ["resize_counter", "lock"], []⟩,
  ⟨.if_, "", ["!=", "load_resize_counter()", "resize_counter"], [[.call "load_resize_counter" 0 "load_resize_counter()", .var "resize_counter", .op "!="]]⟩,
  ⟨.loadRc, "", [], [[]]⟩,
  ⟨.then_, "", [], []⟩,
  ⟨.throw_, "", ["resize_counter_changed()"], [[.call "resize_counter_changed" 0 "resize_counter_changed()"]]⟩,
  ⟨.endIf, "", [], []⟩
]

def bad_lock_all_from_end : Sk := [
  ⟨.params, "", [""], []⟩,
  ⟨.decl, "", ["first_locked", "all_locks_.end()"], [[.var "all_locks_", .call ".end" 1 "all_locks_.end()"]]⟩,
  ⟨.decl, "", ["current_locks", "first_locked"], [[.var "first_locked"]]⟩,
  ⟨.loop, "", ["while", "!=", "current_locks", "all_locks_.end()"], [[.var "current_locks", .var "all_locks_", .call ".end" 1 "all_locks_.end()", .op "!="]]⟩,
  ⟨.do_, "", [], []⟩,
  ⟨.decl, "", ["locks", "*current_locks"], [[.var "current_locks", .op "u*"]]⟩,
  ⟨.loop, "", ["range", "lock", "locks"], [[.var "locks"]]⟩,
  ⟨.do_, "", [], []⟩,
  ⟨.lock, "lock", [], [[.var "lock"]]⟩,
  ⟨.endLoop, "", [], []⟩,
  ⟨.step, "", ["++current_locks", "current_locks"], [[.var "current_locks", .num 1, .op "+"]]⟩,
  ⟨.endLoop, "", [], []⟩,
  ⟨.ret, "", ["AllLocksManager(this,AllUnlocker{first_locked})"], [[.var "this", .var "first_locked", .call "AllUnlocker" 1 "AllUnlocker{first_locked}", .call "AllLocksManager" 2 "AllLocksManager(this,AllUnlocker{first_locked})"]]⟩
]

def bad_lock_all_other_iter : Sk := [
  ⟨.params, "", [""], []⟩,
  ⟨.decl, "", ["first_locked", "std::prev(all_locks_.end())"], [[.var "all_locks_", .call ".end" 1 "all_locks_.end()", .call "std::prev" 1 "std::prev(all_locks_.end())"]]⟩,
  ⟨.decl, "", ["current_locks", "first_locked"], [[.var "first_locked"]]⟩,
  ⟨.loop, "", ["while", "!=", "current_locks", "all_locks_.end()"], [[.var "current_locks", .var "all_locks_", .call ".end" 1 "all_locks_.end()", .op "!="]]⟩,
  ⟨.do_, "", [], []⟩,
  ⟨.decl, "", ["locks", "*current_locks"], [[.var "current_locks", .op "u*"]]⟩,
  ⟨.loop, "", ["range", "lock", "locks"], [[.var "locks"]]⟩,
  ⟨.do_, "", [], []⟩,
  ⟨.lock, "lock", [], [[.var "lock"]]⟩,
  ⟨.endLoop, "", [], []⟩,
  ⟨.step, "", ["++current_locks", "current_locks"], [[.var "current_locks", .num 1, .op "+"]]⟩,
  ⟨.endLoop, "", [], []⟩,
  ⟨.ret, "", ["AllLocksManager(this,AllUnlocker{all_locks_.end()})"], [[.var "this", .var "all_locks_", .call ".end" 1 "all_locks_.end()", .call "AllUnlocker" 1 "AllUnlocker{all_locks_.end()}", .call "AllLocksManager" 2 "AllLocksManager(this,AllUnlocker{all_locks_.end()})"]]⟩
]

def bad_unlocker_next : Sk := [
  ⟨.params, "", ["map"], []⟩,
  ⟨.decl, "", ["it", "std::next(first_locked)"], [[.var "first_locked", .call "std::next" 1 "std::next(first_locked)"]]⟩,
  ⟨.loop, "", ["for", "!=", "it", "map->all_locks_.end()"], [[.var "it", .var "map", .mem "all_locks_" "map->all_locks_", .call ".end" 1 "map->all_locks_.end()", .op "!="]]⟩,
  ⟨.do_, "", [], []⟩,
  ⟨.decl, "", ["locks", "*it"], [[.var "it", .op "u*"]]⟩,
  ⟨.loop, "", ["range", "lock", "locks"], [[.var "locks"]]⟩,
  ⟨.do_, "", [], []⟩,
  ⟨.unlock, "lock", [], [[.var "lock"]]⟩,
  ⟨.endLoop, "", [], []⟩,
  ⟨.incr_, "", [], []⟩,
  ⟨.step, "", ["++it", "it"], [[.var "it", .num 1, .op "+"]]⟩,
  ⟨.endLoop, "", [], []⟩
]

def bad_fast_double_bump_first : Sk := [
  ⟨.params, "", ["current_hp"], []⟩,
  ⟨.if_, "", ["?", "!is_data_nothrow_move_constructible()"], [[.call "is_data_nothrow_move_constructible" 0 "is_data_nothrow_move_constructible()", .op "u!"]]⟩,
  ⟨.then_, "", [], []⟩,
  ⟨.expandSimple, "", ["TABLE_MODE,AUTO_RESIZE", "current_hp+1"], [[], [.var "current_hp", .num 1, .op "+"]]⟩,
  ⟨.ret, "", ["cuckoo_expand_simple<TABLE_MODE,AUTO_RESIZE>(current_hp+1)"], [[.var "current_hp", .num 1, .op "+", .call "cuckoo_expand_simple" 1 "cuckoo_expand_simple<TABLE_MODE,AUTO_RESIZE>(current_hp+1)"]]⟩,
  ⟨.endIf, "", [], []⟩,
  ⟨.decl, "", ["new_hp", "current_hp+1"], [[.var "current_hp", .num 1, .op "+"]]⟩,
  ⟨.lockAll, "", ["TABLE_MODE()"], [[], [.call "TABLE_MODE" 0 "TABLE_MODE()"]]⟩,
  ⟨.decl, "", ["all_locks_manager", "lock_all(TABLE_MODE())"], [[.call "TABLE_MODE" 0 "TABLE_MODE()", .call "lock_all" 1 "lock_all(TABLE_MODE())"]]⟩,
  ⟨.checkValidity, "", ["AUTO_RESIZE", "current_hp", "new_hp"], [[], [.var "current_hp"], [.var "new_hp"]]⟩,
  ⟨.decl, "", ["st", "check_resize_validity<AUTO_RESIZE>(current_hp,new_hp)"], [[.var "current_hp", .var "new_hp", .call "check_resize_validity" 2 "check_resize_validity<AUTO_RESIZE>(current_hp,new_hp)"]]⟩,
  ⟨.if_, "", ["!=", "st", "ok"], [[.var "st", .var "ok", .op "!="]]⟩,
  ⟨.then_, "", [], []⟩,
  ⟨.ret, "", ["st"], [[.var "st"]]⟩,
  ⟨.endIf, "", [], []⟩,
  ⟨.getLocks, "", [], [[]]⟩,
  ⟨.decl, "", ["current_locks", "get_current_locks()"], [[.call "get_current_locks" 0 "get_current_locks()"]]⟩,
  ⟨.decl, "", ["i", "0"], [[.num 0]]⟩,
  ⟨.loop, "", ["for", "<", "i", "current_locks.size()"], [[.var "i", .var "current_locks", .call ".size" 1 "current_locks.size()", .op "<"]]⟩,
  ⟨.do_, "", [], []⟩,
  ⟨.rehashLock, "", ["kIsNotLazy", "i"], [[], [.var "i"]]⟩,
  ⟨.incr_, "", [], []⟩,
  ⟨.step, "", ["++i", "i"], [[.var "i", .num 1, .op "+"]]⟩,
  ⟨.endLoop, "", [], []⟩,
  ⟨.lazySet, "", ["0"], [[], [.num 0]]⟩,
  ⟨.decl, "", ["new_buckets", "(new_hp,get_allocator())"], []⟩,
  ⟨.maybeResizeLocks, "", ["size_type(1)<<new_hp"], [[], [.num 1, .call "size_type" 1 "size_type(1)", .var "new_hp", .op "<<"]]⟩,
  ⟨.getLocks, "", [], [[]]⟩,
  ⟨.decl, "", ["current_locks", "get_current_locks()"], [[.call "get_current_locks" 0 "get_current_locks()"]]⟩,
  ⟨.bumpRc, "resize_counter_", ["1", "std::memory_order_release"], [[.var "resize_counter_"], [.num 1], [.var "std::memory_order_release"]]⟩,
  ⟨.bucketsSwap, "old_buckets_", ["swap", "buckets_"], [[.var "old_buckets_"], [.var "buckets_"]]⟩,
  ⟨.bucketsAssign, "", ["buckets_", "std::move(new_buckets)"], [[], [.var "new_buckets", .call "std::move" 1 "std::move(new_buckets)"]]⟩,
  ⟨.assign, "", ["buckets_", "std::move(new_buckets)"], [[.var "new_buckets", .call "std::move" 1 "std::move(new_buckets)"]]⟩,
  ⟨.if_, "", ["<", "old_buckets_.size()", "kMaxNumLocks"], [[.var "old_buckets_", .call ".size" 1 "old_buckets_.size()", .var "kMaxNumLocks", .op "<"]]⟩,
  ⟨.then_, "", [], []⟩,
  ⟨.decl, "", ["i", "0"], [[.num 0]]⟩,
  ⟨.loop, "", ["for", "<", "i", "old_buckets_.size()"], [[.var "i", .var "old_buckets_", .call ".size" 1 "old_buckets_.size()", .op "<"]]⟩,
  ⟨.do_, "", [], []⟩,
  ⟨.moveBucket, "", ["old_buckets_", "buckets_", "i"], [[], [.var "old_buckets_"], [.var "buckets_"], [.var "i"]]⟩,
  ⟨.incr_, "", [], []⟩,
  ⟨.step, "", ["++i", "i"], [[.var "i", .num 1, .op "+"]]⟩,
  ⟨.endLoop, "", [], []⟩,
  ⟨.lazySet, "", ["0"], [[], [.num 0]]⟩,
  ⟨.else_, "", [], []⟩,
  ⟨.loop, "", ["range", "lock", "current_locks"], [[.var "current_locks"]]⟩,
  ⟨.do_, "", [], []⟩,
  ⟨.setMigrated, "lock", ["false"], [[.var "lock"], [.num 0]]⟩,
  ⟨.assign, "", ["lock.is_migrated()", "false"], [[.num 0]]⟩,
  ⟨.endLoop, "", [], []⟩,
  ⟨.lazySet, "", ["current_locks.size()"], [[], [.var "current_locks", .call ".size" 1 "current_locks.size()"]]⟩,
  ⟨.if_, "", ["?", "std::is_same<TABLE_MODE,locked_table_mode>::value"], [[.var "std::is_same<TABLE_MODE,locked_table_mode>::value"]]⟩,
  ⟨.then_, "", [], []⟩,
  ⟨.rehashWorkers, "", [], [[]]⟩,
  ⟨.endIf, "", [], []⟩,
  ⟨.endIf, "", [], []⟩,
  ⟨.ret, "", ["ok"], [[.var "ok"]]⟩
]

def bad_expand_simple_no_bump : Sk := [
  ⟨.params, "", ["new_hp"], []⟩,
  ⟨.lockAll, "", ["TABLE_MODE()"], [[], [.call "TABLE_MODE" 0 "TABLE_MODE()"]]⟩,
  ⟨.decl, "", ["all_locks_manager", "lock_all(TABLE_MODE())"], [[.call "TABLE_MODE" 0 "TABLE_MODE()", .call "lock_all" 1 "lock_all(TABLE_MODE())"]]⟩,
  ⟨.hpGet, "", [], [[]]⟩,
  ⟨.decl, "", ["hp", "hashpower()"], [[.call "hashpower" 0 "hashpower()"]]⟩,
  ⟨.checkValidity, "", ["AUTO_RESIZE", "hp", "new_hp"], [[], [.var "hp"], [.var "new_hp"]]⟩,
  ⟨.decl, "", ["st", "check_resize_validity<AUTO_RESIZE>(hp,new_hp)"], [[.var "hp", .var "new_hp", .call "check_resize_validity" 2 "check_resize_validity<AUTO_RESIZE>(hp,new_hp)"]]⟩,
  ⟨.if_, "", ["!=", "st", "ok"], [[.var "st", .var "ok", .op "!="]]⟩,
  ⟨.then_, "", [], []⟩,
  ⟨.ret, "", ["st"], [[.var "st"]]⟩,
  ⟨.endIf, "", [], []⟩,
  ⟨.rehashWorkers, "", [], [[]]⟩,
  ⟨.decl, "", ["new_map", "(hashsize(new_hp)*slot_per_bucket(),hash_function(),key_eq(),get_allocator())"], []⟩,
  ⟨.parallelExec, "", [], []⟩,
  ⟨.lambda_, "", [], []⟩,
  ⟨.try_, "", [], []⟩,
  ⟨.loop, "", ["for", "<", "i", "end"], [[.var "i", .var "end", .op "<"]]⟩,
  ⟨.do_, "", [], []⟩,
  ⟨.bucketAt, "", ["buckets_", "i"], [[], [.var "i"]]⟩,
  ⟨.decl, "", ["bucket", "buckets_[i]", "buckets_", "i"], [[.var "buckets_", .var "i", .sub "buckets_[i]"]]⟩,
  ⟨.decl, "", ["j", "0"], [[.num 0]]⟩,
  ⟨.loop, "", ["for", "<", "j", "slot_per_bucket()"], [[.var "j", .call "slot_per_bucket" 0 "slot_per_bucket()", .op "<"]]⟩,
  ⟨.do_, "", [], []⟩,
  ⟨.if_, "", ["?", "bucket.occupied(j)"], [[.var "bucket", .var "j", .call ".occupied" 2 "bucket.occupied(j)"]]⟩,
  ⟨.then_, "", [], []⟩,
  ⟨.endIf, "", [], []⟩,
  ⟨.incr_, "", [], []⟩,
  ⟨.step, "", ["++j", "j"], [[.var "j", .num 1, .op "+"]]⟩,
  ⟨.endLoop, "", [], []⟩,
  ⟨.incr_, "", [], []⟩,
  ⟨.step, "", ["++i", "i"], [[.var "i", .num 1, .op "+"]]⟩,
  ⟨.endLoop, "", [], []⟩,
  ⟨.catch_, "", ["..."], []⟩,
  ⟨.assign, "", ["eptr", "std::current_exception()"], [[.call "std::current_exception" 0 "std::current_exception()"]]⟩,
  ⟨.endTry, "", [], []⟩,
  ⟨.endLambda, "", [], []⟩,
  ⟨.rehashWorkers, "new_map", [], [[.var "new_map"]]⟩,
  ⟨.maybeResizeLocks, "", ["new_map.bucket_count()"], [[], [.var "new_map", .call ".bucket_count" 1 "new_map.bucket_count()"]]⟩,
  ⟨.bucketsSwap, "buckets_", ["swap", "new_map.buckets_"], [[.var "buckets_"], [.var "new_map", .mem "buckets_" "new_map.buckets_"]]⟩,
  ⟨.ret, "", ["ok"], [[.var "ok"]]⟩
]

def bad_expand_simple_temp_manager : Sk := [
  ⟨.params, "", ["new_hp"], []⟩,
  ⟨.lockAll, "", ["TABLE_MODE()"], [[], [.call "TABLE_MODE" 0 "TABLE_MODE()"]]⟩,
  ⟨.hpGet, "", [], [[]]⟩,
  ⟨.decl, "", ["hp", "hashpower()"], [[.call "hashpower" 0 "hashpower()"]]⟩,
  ⟨.checkValidity, "", ["AUTO_RESIZE", "hp", "new_hp"], [[], [.var "hp"], [.var "new_hp"]]⟩,
  ⟨.decl, "", ["st", "check_resize_validity<AUTO_RESIZE>(hp,new_hp)"], [[.var "hp", .var "new_hp", .call "check_resize_validity" 2 "check_resize_validity<AUTO_RESIZE>(hp,new_hp)"]]⟩,
  ⟨.if_, "", ["!=", "st", "ok"], [[.var "st", .var "ok", .op "!="]]⟩,
  ⟨.then_, "", [], []⟩,
  ⟨.ret, "", ["st"], [[.var "st"]]⟩,
  ⟨.endIf, "", [], []⟩,
  ⟨.rehashWorkers, "", [], [[]]⟩,
  ⟨.decl, "", ["new_map", "(hashsize(new_hp)*slot_per_bucket(),hash_function(),key_eq(),get_allocator())"], []⟩,
  ⟨.parallelExec, "", [], []⟩,
  ⟨.lambda_, "", [], []⟩,
  ⟨.try_, "", [], []⟩,
  ⟨.loop, "", ["for", "<", "i", "end"], [[.var "i", .var "end", .op "<"]]⟩,
  ⟨.do_, "", [], []⟩,
  ⟨.bucketAt, "", ["buckets_", "i"], [[], [.var "i"]]⟩,
  ⟨.decl, "", ["bucket", "buckets_[i]", "buckets_", "i"], [[.var "buckets_", .var "i", .sub "buckets_[i]"]]⟩,
  ⟨.decl, "", ["j", "0"], [[.num 0]]⟩,
  ⟨.loop, "", ["for", "<", "j", "slot_per_bucket()"], [[.var "j", .call "slot_per_bucket" 0 "slot_per_bucket()", .op "<"]]⟩,
  ⟨.do_, "", [], []⟩,
  ⟨.if_, "", ["?", "bucket.occupied(j)"], [[.var "bucket", .var "j", .call ".occupied" 2 "bucket.occupied(j)"]]⟩,
  ⟨.then_, "", [], []⟩,
  ⟨.endIf, "", [], []⟩,
  ⟨.incr_, "", [], []⟩,
  ⟨.step, "", ["++j", "j"], [[.var "j", .num 1, .op "+"]]⟩,
  ⟨.endLoop, "", [], []⟩,
  ⟨.incr_, "", [], []⟩,
  ⟨.step, "", ["++i", "i"], [[.var "i", .num 1, .op "+"]]⟩,
  ⟨.endLoop, "", [], []⟩,
  ⟨.catch_, "", ["..."], []⟩,
  ⟨.assign, "", ["eptr", "std::current_exception()"], [[.call "std::current_exception" 0 "std::current_exception()"]]⟩,
  ⟨.endTry, "", [], []⟩,
  ⟨.endLambda, "", [], []⟩,
  ⟨.rehashWorkers, "new_map", [], [[.var "new_map"]]⟩,
  ⟨.maybeResizeLocks, "", ["new_map.bucket_count()"], [[], [.var "new_map", .call ".bucket_count" 1 "new_map.bucket_count()"]]⟩,
  ⟨.bucketsSwap, "buckets_", ["swap", "new_map.buckets_"], [[.var "buckets_"], [.var "new_map", .mem "buckets_" "new_map.buckets_"]]⟩,
  ⟨.bumpRc, "resize_counter_", ["1", "std::memory_order_release"], [[.var "resize_counter_"], [.num 1], [.var "std::memory_order_release"]]⟩,
  ⟨.ret, "", ["ok"], [[.var "ok"]]⟩
]

def bad_maybe_resize_emplace_first : Sk := [
  ⟨.params, "", ["new_bucket_count"], []⟩,
  ⟨.getLocks, "", [], [[]]⟩,
  ⟨.decl, "", ["current_locks", "get_current_locks()"], [[.call "get_current_locks" 0 "get_current_locks()"]]⟩,
  ⟨.if_, "", ["?", "!(current_locks.size()<kMaxNumLocks&&current_locks.size()<new_bucket_count)"], [[.var "current_locks", .call ".size" 1 "current_locks.size()", .var "kMaxNumLocks", .op "<", .var "current_locks", .call ".size" 1 "current_locks.size()", .var "new_bucket_count", .op "<", .op "&&", .op "u!"]]⟩,
  ⟨.then_, "", [], []⟩,
  ⟨.ret, "", [], []⟩,
  ⟨.endIf, "", [], []⟩,
  ⟨.decl, "", ["new_locks", "(get_allocator())"], []⟩,
  ⟨.resizeVec, "new_locks", ["std::min(size_type(kMaxNumLocks),new_bucket_count)"], [[.var "new_locks"], [.var "kMaxNumLocks", .call "size_type" 1 "size_type(kMaxNumLocks)", .var "new_bucket_count", .call "std::min" 2 "std::min(size_type(kMaxNumLocks),new_bucket_count)"]]⟩,
  ⟨.emplaceBack, "all_locks_", ["std::move(new_locks)"], [[.var "all_locks_"], [.var "new_locks", .call "std::move" 1 "std::move(new_locks)"]]⟩,
  ⟨.locksBack, "all_locks_", [], [[.var "all_locks_"]]⟩,
  ⟨.loop, "", ["range", "lock", "all_locks_.back()"], [[.var "all_locks_", .call ".back" 1 "all_locks_.back()"]]⟩,
  ⟨.do_, "", [], []⟩,
  ⟨.lock, "lock", [], [[.var "lock"]]⟩,
  ⟨.endLoop, "", [], []⟩
]

def bad_istream_no_bump : Sk := [
  ⟨.params, "", ["is", "lt"], []⟩,
  ⟨.streamIn, "", ["is", "lt.buckets()"], [[.var "is"], [.var "lt", .call ".buckets" 1 "lt.buckets()"]]⟩,
  ⟨.bucketsRef, "lt", [], [[.var "lt"]]⟩,
  ⟨.maybeResizeLocks, "lt", ["lt.bucket_count()"], [[.var "lt"], [.var "lt", .call ".bucket_count" 1 "lt.bucket_count()"]]⟩,
  ⟨.getLocks, "lt", [], [[.var "lt"]]⟩,
  ⟨.loop, "", ["range", "lock", "lt.get_current_locks()"], [[.var "lt", .call ".get_current_locks" 1 "lt.get_current_locks()"]]⟩,
  ⟨.do_, "", [], []⟩,
  ⟨.assign, "", ["lock.elem_counter()", "0"], [[.num 0]]⟩,
  ⟨.endLoop, "", [], []⟩,
  ⟨.decl, "", ["size", ""], []⟩,
  ⟨.if_, "", [">", "size", "0"], [[.var "size", .num 0, .op ">"]]⟩,
  ⟨.then_, "", [], []⟩,
  ⟨.getLocks, "lt", [], [[.var "lt"]]⟩,
  ⟨.assign, "", ["lt.get_current_locks()[0].elem_counter()", "size"], [[.var "size"]]⟩,
  ⟨.endIf, "", [], []⟩,
  ⟨.decl, "", ["mlf", ""], []⟩,
  ⟨.decl, "", ["mhp", ""], []⟩,
  ⟨.ret, "", ["is"], [[.var "is"]]⟩
]

def bad_rehash_lock_dec_first : Sk := [
  ⟨.params, "", ["l"], []⟩,
  ⟨.getLocks, "", [], [[]]⟩,
  ⟨.decl, "", ["locks", "get_current_locks()"], [[.call "get_current_locks" 0 "get_current_locks()"]]⟩,
  ⟨.decl, "", ["lock", "locks[l]", "locks", "l"], [[.var "locks", .var "l", .sub "locks[l]"]]⟩,
  ⟨.if_, "", ["?", "lock.is_migrated()"], [[.var "lock", .call ".is_migrated" 1 "lock.is_migrated()"]]⟩,
  ⟨.isMigrated, "lock", [], [[.var "lock"]]⟩,
  ⟨.then_, "", [], []⟩,
  ⟨.ret, "", [], []⟩,
  ⟨.endIf, "", [], []⟩,
  ⟨.if_, "", ["?", "IS_LAZY"], [[.var "IS_LAZY"]]⟩,
  ⟨.then_, "", [], []⟩,
  ⟨.lazyDec, "", [], [[]]⟩,
  ⟨.endIf, "", [], []⟩,
  ⟨.decl, "", ["bucket_ind", "l"], [[.var "l"]]⟩,
  ⟨.loop, "", ["for", "<", "bucket_ind", "old_buckets_.size()"], [[.var "bucket_ind", .var "old_buckets_", .call ".size" 1 "old_buckets_.size()", .op "<"]]⟩,
  ⟨.do_, "", [], []⟩,
  ⟨.moveBucket, "", ["old_buckets_", "buckets_", "bucket_ind"], [[], [.var "old_buckets_"], [.var "buckets_"], [.var "bucket_ind"]]⟩,
  ⟨.incr_, "", [], []⟩,
  ⟨.step, "", ["bucket_ind+=kMaxNumLocks", "bucket_ind"], [[.var "bucket_ind", .var "kMaxNumLocks", .op "+"]]⟩,
  ⟨.endLoop, "", [], []⟩,
  ⟨.setMigrated, "lock", ["true"], [[.var "lock"], [.num 1]]⟩,
  ⟨.assign, "", ["lock.is_migrated()", "true"], [[.num 1]]⟩
]

def bad_two_buckets_one_reset : Sk := [
  ⟨.params, "", [], []⟩,
  ⟨.reset, "first_manager_", [], [[.var "first_manager_"]]⟩
]

def bad_clear_before_lock : Sk := [
  ⟨.params, "", [], []⟩,
  ⟨.cuckooClear, "", [], [[]]⟩,
  ⟨.lockAll, "", ["normal_mode()"], [[], [.call "normal_mode" 0 "normal_mode()"]]⟩,
  ⟨.decl, "", ["all_locks_manager", "lock_all(normal_mode())"], [[.call "normal_mode" 0 "normal_mode()", .call "lock_all" 1 "lock_all(normal_mode())"]]⟩
]

def bad_slot_search_read_first : Sk := [
  ⟨.params, "", ["hp", "resize_counter", "i1", "i2"], []⟩,
  ⟨.decl, "", ["q", ""], []⟩,
  ⟨.loop, "", ["while", "?", "!q.empty()"], [[.var "q", .call ".empty" 1 "q.empty()", .op "u!"]]⟩,
  ⟨.do_, "", [], []⟩,
  ⟨.decl, "", ["x", "q.dequeue()"], [[.var "q", .call ".dequeue" 1 "q.dequeue()"]]⟩,
  ⟨.bucketAt, "", ["buckets_", "x.bucket"], [[], [.var "x", .mem "bucket" "x.bucket"]]⟩,
  ⟨.decl, "", ["b", "buckets_[x.bucket]", "buckets_", "x.bucket"], [[.var "buckets_", .var "x", .mem "bucket" "x.bucket", .sub "buckets_[x.bucket]"]]⟩,
  ⟨.lockOne, "", ["resize_counter", "x.bucket", "TABLE_MODE()"], [[], [.var "resize_counter"], [.var "x", .mem "bucket" "x.bucket"], [.call "TABLE_MODE" 0 "TABLE_MODE()"]]⟩,
  ⟨.decl, "", ["lock_manager", "lock_one(resize_counter,x.bucket,TABLE_MODE())"], [[.var "resize_counter", .var "x", .mem "bucket" "x.bucket", .call "TABLE_MODE" 0 "TABLE_MODE()", .call "lock_one" 3 "lock_one(resize_counter,x.bucket,TABLE_MODE())"]]⟩,
  ⟨.decl, "", ["starting_slot", "x.pathcode%slot_per_bucket()"], [[.var "x", .mem "pathcode" "x.pathcode", .call "slot_per_bucket" 0 "slot_per_bucket()", .op "%"]]⟩,
  ⟨.decl, "", ["i", "0"], [[.num 0]]⟩,
  ⟨.loop, "", ["for", "<", "i", "slot_per_bucket()"], [[.var "i", .call "slot_per_bucket" 0 "slot_per_bucket()", .op "<"]]⟩,
  ⟨.do_, "", [], []⟩,
  ⟨.decl, "", ["slot", "(starting_slot+i)%slot_per_bucket()"], [[.var "starting_slot", .var "i", .op "+", .call "slot_per_bucket" 0 "slot_per_bucket()", .op "%"]]⟩,
  ⟨.if_, "", ["?", "!b.occupied(slot)"], [[.var "b", .var "slot", .call ".occupied" 2 "b.occupied(slot)", .op "u!"]]⟩,
  ⟨.then_, "", [], []⟩,
  ⟨.assign, "", ["x.pathcode", "x.pathcode*slot_per_bucket()+slot"], [[.var "x", .mem "pathcode" "x.pathcode", .call "slot_per_bucket" 0 "slot_per_bucket()", .op "*", .var "slot", .op "+"]]⟩,
  ⟨.ret, "", ["x"], [[.var "x"]]⟩,
  ⟨.endIf, "", [], []⟩,
  ⟨.decl, "", ["partial", "b.partial(slot)"], [[.var "b", .var "slot", .call ".partial" 2 "b.partial(slot)"]]⟩,
  ⟨.if_, "", ["<", "x.depth", "MAX_BFS_PATH_LEN-1"], [[.var "x", .mem "depth" "x.depth", .var "MAX_BFS_PATH_LEN", .num 1, .op "-", .op "<"]]⟩,
  ⟨.then_, "", [], []⟩,
  ⟨.decl, "", ["y", "(alt_index(hp,partial,x.bucket),x.pathcode*slot_per_bucket()+slot,x.depth+1)"], []⟩,
  ⟨.endIf, "", [], []⟩,
  ⟨.incr_, "", [], []⟩,
  ⟨.step, "", ["++i", "i"], [[.var "i", .num 1, .op "+"]]⟩,
  ⟨.endLoop, "", [], []⟩,
  ⟨.endLoop, "", [], []⟩,
  ⟨.ret, "", ["b_slot(0,0,-1)"], [[.num 0, .num 0, .num 1, .op "u-", .call "b_slot" 3 "b_slot(0,0,-1)"]]⟩
]

def alt_lock_all_for : Sk := [
  ⟨.params, "", [""], []⟩,
  ⟨.decl, "", ["first_locked", "std::prev(all_locks_.end())"], [[.var "all_locks_", .call ".end" 1 "all_locks_.end()", .call "std::prev" 1 "std::prev(all_locks_.end())"]]⟩,
  ⟨.decl, "", ["locks_it", "first_locked"], [[.var "first_locked"]]⟩,
  ⟨.loop, "", ["for", "!=", "locks_it", "all_locks_.end()"], [[.var "locks_it", .var "all_locks_", .call ".end" 1 "all_locks_.end()", .op "!="]]⟩,
  ⟨.do_, "", [], []⟩,
  ⟨.loop, "", ["range", "lock", "*locks_it"], [[.var "locks_it", .op "u*"]]⟩,
  ⟨.do_, "", [], []⟩,
  ⟨.lock, "lock", [], [[.var "lock"]]⟩,
  ⟨.endLoop, "", [], []⟩,
  ⟨.incr_, "", [], []⟩,
  ⟨.step, "", ["++locks_it", "locks_it"], [[.var "locks_it", .num 1, .op "+"]]⟩,
  ⟨.endLoop, "", [], []⟩,
  ⟨.ret, "", ["AllLocksManager(this,AllUnlocker{first_locked})"], [[.var "this", .var "first_locked", .call "AllUnlocker" 1 "AllUnlocker{first_locked}", .call "AllLocksManager" 2 "AllLocksManager(this,AllUnlocker{first_locked})"]]⟩
]

def alt_unlocker_for_each : Sk := [
  ⟨.params, "", ["map"], []⟩,
  ⟨.decl, "", ["locks_it", "first_locked"], [[.var "first_locked"]]⟩,
  ⟨.loop, "", ["while", "!=", "locks_it", "map->all_locks_.end()"], [[.var "locks_it", .var "map", .mem "all_locks_" "map->all_locks_", .call ".end" 1 "map->all_locks_.end()", .op "!="]]⟩,
  ⟨.do_, "", [], []⟩,
  ⟨.loop, "", ["range", "lock", "*locks_it"], [[.var "locks_it", .op "u*"]]⟩,
  ⟨.do_, "", [], []⟩,
  ⟨.unlock, "lock", [], [[.var "lock"]]⟩,
  ⟨.endLoop, "", [], []⟩,
  ⟨.step, "", ["++locks_it", "locks_it"], [[.var "locks_it", .num 1, .op "+"]]⟩,
  ⟨.endLoop, "", [], []⟩
]

def alt_lock_three_locals : Sk := [
  ⟨.params, "", ["resize_counter", "i1", "i2", "i3", ""], []⟩,
  ⟨.decl, "", ["l1", "lock_ind(i1)"], [[.var "i1", .call "lock_ind" 1 "lock_ind(i1)"]]⟩,
  ⟨.decl, "", ["l2", "lock_ind(i2)"], [[.var "i2", .call "lock_ind" 1 "lock_ind(i2)"]]⟩,
  ⟨.decl, "", ["l3", "lock_ind(i3)"], [[.var "i3", .call "lock_ind" 1 "lock_ind(i3)"]]⟩,
  ⟨.decl, "", ["lo", "l1"], [[.var "l1"]]⟩,
  ⟨.decl, "", ["mid", "l2"], [[.var "l2"]]⟩,
  ⟨.decl, "", ["hi", "l3"], [[.var "l3"]]⟩,
  ⟨.if_, "", ["<", "hi", "mid"], [[.var "hi", .var "mid", .op "<"]]⟩,
  ⟨.then_, "", [], []⟩,
  ⟨.swapVals, "", ["hi", "mid"], [[], [.var "hi"], [.var "mid"]]⟩,
  ⟨.endIf, "", [], []⟩,
  ⟨.if_, "", ["<", "hi", "lo"], [[.var "hi", .var "lo", .op "<"]]⟩,
  ⟨.then_, "", [], []⟩,
  ⟨.swapVals, "", ["hi", "lo"], [[], [.var "hi"], [.var "lo"]]⟩,
  ⟨.endIf, "", [], []⟩,
  ⟨.if_, "", ["<", "mid", "lo"], [[.var "mid", .var "lo", .op "<"]]⟩,
  ⟨.then_, "", [], []⟩,
  ⟨.swapVals, "", ["mid", "lo"], [[], [.var "mid"], [.var "lo"]]⟩,
  ⟨.endIf, "", [], []⟩,
  ⟨.getLocks, "", [], [[]]⟩,
  ⟨.decl, "", ["locks", "get_current_locks()"], [[.call "get_current_locks" 0 "get_current_locks()"]]⟩,
  ⟨.lock, "locks[lo]", ["locks", "lo"], [[.var "locks", .var "lo", .sub "locks[lo]"]]⟩,
  ⟨.checkRc, "", ["resize_counter", "locks[lo]"], [[], [.var "resize_counter"], [.var "locks", .var "lo", .sub "locks[lo]"]]⟩,
  ⟨.if_, "", ["!=", "mid", "lo"], [[.var "mid", .var "lo", .op "!="]]⟩,
  ⟨.then_, "", [], []⟩,
  ⟨.lock, "locks[mid]", ["locks", "mid"], [[.var "locks", .var "mid", .sub "locks[mid]"]]⟩,
  ⟨.endIf, "", [], []⟩,
  ⟨.if_, "", ["!=", "hi", "mid"], [[.var "hi", .var "mid", .op "!="]]⟩,
  ⟨.then_, "", [], []⟩,
  ⟨.lock, "locks[hi]", ["locks", "hi"], [[.var "locks", .var "hi", .sub "locks[hi]"]]⟩,
  ⟨.endIf, "", [], []⟩,
  ⟨.rehashLock, "", ["kIsLazy", "lo"], [[], [.var "lo"]]⟩,
  ⟨.rehashLock, "", ["kIsLazy", "mid"], [[], [.var "mid"]]⟩,
  ⟨.rehashLock, "", ["kIsLazy", "hi"], [[], [.var "hi"]]⟩,
  ⟨.decl, "", ["i3_has_own_lock", "!(l3==l1||l3==l2)"], [[.var "l3", .var "l1", .op "==", .var "l3", .var "l2", .op "==", .op "||", .op "u!"]]⟩,
  ⟨.ret, "", ["std::make_pair(TwoBuckets(locks,i1,i2,normal_mode()),LockManager(i3_has_own_lock?&locks[l3]:nullptr))"], [[.var "locks", .var "i1", .var "i2", .call "normal_mode" 0 "normal_mode()", .call "TwoBuckets" 4 "TwoBuckets(locks,i1,i2,normal_mode())", .var "i3_has_own_lock", .var "locks", .var "l3", .sub "locks[l3]", .op "u&", .num 0, .op "?:", .call "LockManager" 1 "LockManager(i3_has_own_lock?&locks[l3]:nullptr)", .call "std::make_pair" 2 "std::make_pair(TwoBuckets(locks,i1,i2,normal_mode()),LockManager(i3_has_own_lock?&locks[l3]:nullptr))"]]⟩
]

def alt_lock_two_minmax : Sk := [
  ⟨.params, "", ["resize_counter", "i1", "i2", ""], []⟩,
  ⟨.decl, "", ["la", "lock_ind(i1)"], [[.var "i1", .call "lock_ind" 1 "lock_ind(i1)"]]⟩,
  ⟨.decl, "", ["lb", "lock_ind(i2)"], [[.var "i2", .call "lock_ind" 1 "lock_ind(i2)"]]⟩,
  ⟨.decl, "", ["l1", "std::min(la,lb)"], [[.var "la", .var "lb", .call "std::min" 2 "std::min(la,lb)"]]⟩,
  ⟨.decl, "", ["l2", "std::max(la,lb)"], [[.var "la", .var "lb", .call "std::max" 2 "std::max(la,lb)"]]⟩,
  ⟨.getLocks, "", [], [[]]⟩,
  ⟨.decl, "", ["locks", "get_current_locks()"], [[.call "get_current_locks" 0 "get_current_locks()"]]⟩,
  ⟨.decl, "", ["first_lock", "locks[l1]", "locks", "l1"], [[.var "locks", .var "l1", .sub "locks[l1]"]]⟩,
  ⟨.lock, "first_lock", [], [[.var "first_lock"]]⟩,
  ⟨.checkRc, "", ["resize_counter", "first_lock"], [[], [.var "resize_counter"], [.var "first_lock"]]⟩,
  ⟨.if_, "", ["!=", "l1", "l2"], [[.var "l1", .var "l2", .op "!="]]⟩,
  ⟨.then_, "", [], []⟩,
  ⟨.lock, "locks[l2]", ["locks", "l2"], [[.var "locks", .var "l2", .sub "locks[l2]"]]⟩,
  ⟨.endIf, "", [], []⟩,
  ⟨.rehashLock, "", ["kIsLazy", "l1"], [[], [.var "l1"]]⟩,
  ⟨.rehashLock, "", ["kIsLazy", "l2"], [[], [.var "l2"]]⟩,
  ⟨.ret, "", ["TwoBuckets(locks,i1,i2,normal_mode())"], [[.var "locks", .var "i1", .var "i2", .call "normal_mode" 0 "normal_mode()", .call "TwoBuckets" 4 "TwoBuckets(locks,i1,i2,normal_mode())"]]⟩
]

def alt_check_early_return : Sk := [
  ⟨.params, "", ["resize_counter", "lock"], []⟩,
  ⟨.if_, "", ["==", "load_resize_counter()", "resize_counter"], [[.call "load_resize_counter" 0 "load_resize_counter()", .var "resize_counter", .op "=="]]⟩,
  ⟨.loadRc, "", [], [[]]⟩,
  ⟨.then_, "", [], []⟩,
  ⟨.ret, "", [], []⟩,
  ⟨.endIf, "", [], []⟩,
  ⟨.unlock, "lock", [], [[.var "lock"]]⟩,
  ⟨.throw_, "", ["resize_counter_changed()"], [[.call "resize_counter_changed" 0 "resize_counter_changed()"]]⟩
]

def alt_maybe_resize_index_loop : Sk := [
  ⟨.params, "", ["new_bucket_count"], []⟩,
  ⟨.getLocks, "", [], [[]]⟩,
  ⟨.decl, "", ["current_locks", "get_current_locks()"], [[.call "get_current_locks" 0 "get_current_locks()"]]⟩,
  ⟨.decl, "", ["num_current_locks", "current_locks.size()"], [[.var "current_locks", .call ".size" 1 "current_locks.size()"]]⟩,
  ⟨.if_, "", ["?", "num_current_locks>=kMaxNumLocks||num_current_locks>=new_bucket_count"], [[.var "num_current_locks", .var "kMaxNumLocks", .op ">=", .var "num_current_locks", .var "new_bucket_count", .op ">=", .op "||"]]⟩,
  ⟨.then_, "", [], []⟩,
  ⟨.ret, "", [], []⟩,
  ⟨.endIf, "", [], []⟩,
  ⟨.decl, "", ["num_new_locks", "new_bucket_count<kMaxNumLocks?new_bucket_count:size_type(kMaxNumLocks)"], [[.var "new_bucket_count", .var "kMaxNumLocks", .op "<", .var "new_bucket_count", .var "kMaxNumLocks", .call "size_type" 1 "size_type(kMaxNumLocks)", .op "?:"]]⟩,
  ⟨.decl, "", ["new_locks", "(get_allocator())"], []⟩,
  ⟨.resizeVec, "new_locks", ["num_new_locks"], [[.var "new_locks"], [.var "num_new_locks"]]⟩,
  ⟨.decl, "", ["i", "0"], [[.num 0]]⟩,
  ⟨.loop, "", ["for", "<", "i", "num_new_locks"], [[.var "i", .var "num_new_locks", .op "<"]]⟩,
  ⟨.do_, "", [], []⟩,
  ⟨.lock, "new_locks[i]", ["new_locks", "i"], [[.var "new_locks", .var "i", .sub "new_locks[i]"]]⟩,
  ⟨.incr_, "", [], []⟩,
  ⟨.step, "", ["++i", "i"], [[.var "i", .num 1, .op "+"]]⟩,
  ⟨.endLoop, "", [], []⟩,
  ⟨.emplaceBack, "all_locks_", ["std::move(new_locks)"], [[.var "all_locks_"], [.var "new_locks", .call "std::move" 1 "std::move(new_locks)"]]⟩
]

def alt_cuckoopath_move_flipped : Sk := [
  ⟨.params, "", ["resize_counter", "cuckoo_path", "depth", "b"], []⟩,
  ⟨.if_, "", ["==", "depth", "0"], [[.var "depth", .num 0, .op "=="]]⟩,
  ⟨.then_, "", [], []⟩,
  ⟨.decl, "", ["bucket_i", "cuckoo_path[0].bucket"], [[.var "cuckoo_path", .num 0, .sub "cuckoo_path[0]", .mem "bucket" "cuckoo_path[0].bucket"]]⟩,
  ⟨.lockTwo, "", ["resize_counter", "b.i1", "b.i2", "TABLE_MODE()"], [[], [.var "resize_counter"], [.var "b", .mem "i1" "b.i1"], [.var "b", .mem "i2" "b.i2"], [.call "TABLE_MODE" 0 "TABLE_MODE()"]]⟩,
  ⟨.assign, "", ["b", "lock_two(resize_counter,b.i1,b.i2,TABLE_MODE())"], [[.var "resize_counter", .var "b", .mem "i1" "b.i1", .var "b", .mem "i2" "b.i2", .call "TABLE_MODE" 0 "TABLE_MODE()", .call "lock_two" 4 "lock_two(resize_counter,b.i1,b.i2,TABLE_MODE())"]]⟩,
  ⟨.if_, "", ["?", "buckets_[bucket_i].occupied(cuckoo_path[0].slot)"], [[.var "buckets_", .var "bucket_i", .sub "buckets_[bucket_i]", .var "cuckoo_path", .num 0, .sub "cuckoo_path[0]", .mem "slot" "cuckoo_path[0].slot", .call ".occupied" 2 "buckets_[bucket_i].occupied(cuckoo_path[0].slot)"]]⟩,
  ⟨.bucketAt, "", ["buckets_", "bucket_i"], [[], [.var "bucket_i"]]⟩,
  ⟨.then_, "", [], []⟩,
  ⟨.unlock, "b", [], [[.var "b"]]⟩,
  ⟨.ret, "", ["false"], [[.num 0]]⟩,
  ⟨.endIf, "", [], []⟩,
  ⟨.ret, "", ["true"], [[.num 1]]⟩,
  ⟨.endIf, "", [], []⟩,
  ⟨.loop, "", ["while", ">", "depth", "0"], [[.var "depth", .num 0, .op ">"]]⟩,
  ⟨.do_, "", [], []⟩,
  ⟨.decl, "", ["from", "cuckoo_path[depth-1]", "cuckoo_path", "depth-1"], [[.var "cuckoo_path", .var "depth", .num 1, .op "-", .sub "cuckoo_path[depth-1]"]]⟩,
  ⟨.decl, "", ["to", "cuckoo_path[depth]", "cuckoo_path", "depth"], [[.var "cuckoo_path", .var "depth", .sub "cuckoo_path[depth]"]]⟩,
  ⟨.decl, "", ["fs", "from.slot"], [[.var "from", .mem "slot" "from.slot"]]⟩,
  ⟨.decl, "", ["ts", "to.slot"], [[.var "to", .mem "slot" "to.slot"]]⟩,
  ⟨.decl, "", ["hop_locks", ""], []⟩,
  ⟨.decl, "", ["third_lock", ""], []⟩,
  ⟨.if_, "", ["==", "depth", "1"], [[.var "depth", .num 1, .op "=="]]⟩,
  ⟨.then_, "", [], []⟩,
  ⟨.lockThree, "", ["resize_counter", "b.i1", "b.i2", "to.bucket", "TABLE_MODE()"], [[], [.var "resize_counter"], [.var "b", .mem "i1" "b.i1"], [.var "b", .mem "i2" "b.i2"], [.var "to", .mem "bucket" "to.bucket"], [.call "TABLE_MODE" 0 "TABLE_MODE()"]]⟩,
  ⟨.assign, "", ["std::tie(hop_locks,third_lock)", "lock_three(resize_counter,b.i1,b.i2,to.bucket,TABLE_MODE())"], [[.var "resize_counter", .var "b", .mem "i1" "b.i1", .var "b", .mem "i2" "b.i2", .var "to", .mem "bucket" "to.bucket", .call "TABLE_MODE" 0 "TABLE_MODE()", .call "lock_three" 5 "lock_three(resize_counter,b.i1,b.i2,to.bucket,TABLE_MODE())"]]⟩,
  ⟨.else_, "", [], []⟩,
  ⟨.lockTwo, "", ["resize_counter", "from.bucket", "to.bucket", "TABLE_MODE()"], [[], [.var "resize_counter"], [.var "from", .mem "bucket" "from.bucket"], [.var "to", .mem "bucket" "to.bucket"], [.call "TABLE_MODE" 0 "TABLE_MODE()"]]⟩,
  ⟨.assign, "", ["hop_locks", "lock_two(resize_counter,from.bucket,to.bucket,TABLE_MODE())"], [[.var "resize_counter", .var "from", .mem "bucket" "from.bucket", .var "to", .mem "bucket" "to.bucket", .call "TABLE_MODE" 0 "TABLE_MODE()", .call "lock_two" 4 "lock_two(resize_counter,from.bucket,to.bucket,TABLE_MODE())"]]⟩,
  ⟨.endIf, "", [], []⟩,
  ⟨.bucketAt, "", ["buckets_", "from.bucket"], [[], [.var "from", .mem "bucket" "from.bucket"]]⟩,
  ⟨.decl, "", ["fb", "buckets_[from.bucket]", "buckets_", "from.bucket"], [[.var "buckets_", .var "from", .mem "bucket" "from.bucket", .sub "buckets_[from.bucket]"]]⟩,
  ⟨.bucketAt, "", ["buckets_", "to.bucket"], [[], [.var "to", .mem "bucket" "to.bucket"]]⟩,
  ⟨.decl, "", ["tb", "buckets_[to.bucket]", "buckets_", "to.bucket"], [[.var "buckets_", .var "to", .mem "bucket" "to.bucket", .sub "buckets_[to.bucket]"]]⟩,
  ⟨.if_, "", ["?", "tb.occupied(ts)"], [[.var "tb", .var "ts", .call ".occupied" 2 "tb.occupied(ts)"]]⟩,
  ⟨.then_, "", [], []⟩,
  ⟨.ret, "", ["false"], [[.num 0]]⟩,
  ⟨.endIf, "", [], []⟩,
  ⟨.if_, "", ["?", "!fb.occupied(fs)||hashed_key_only_hash(fb.key(fs))!=from.hv.hash"], [[.var "fb", .var "fs", .call ".occupied" 2 "fb.occupied(fs)", .op "u!", .var "fb", .var "fs", .call ".key" 2 "fb.key(fs)", .call "hashed_key_only_hash" 1 "hashed_key_only_hash(fb.key(fs))", .var "from", .mem "hv" "from.hv", .mem "hash" "from.hv.hash", .op "!=", .op "||"]]⟩,
  ⟨.then_, "", [], []⟩,
  ⟨.ret, "", ["false"], [[.num 0]]⟩,
  ⟨.endIf, "", [], []⟩,
  ⟨.bucketsMeth, "buckets_", ["setKV", "to.bucket", "ts", "fb.partial(fs)", "fb.movable_key(fs)", "std::move(fb.mapped(fs))"], [[.var "buckets_"], [.var "to", .mem "bucket" "to.bucket"], [.var "ts"], [.var "fb", .var "fs", .call ".partial" 2 "fb.partial(fs)"], [.var "fb", .var "fs", .call ".movable_key" 2 "fb.movable_key(fs)"], [.var "fb", .var "fs", .call ".mapped" 2 "fb.mapped(fs)", .call "std::move" 1 "std::move(fb.mapped(fs))"]]⟩,
  ⟨.bucketsMeth, "buckets_", ["eraseKV", "from.bucket", "fs"], [[.var "buckets_"], [.var "from", .mem "bucket" "from.bucket"], [.var "fs"]]⟩,
  ⟨.if_, "", ["==", "depth", "1"], [[.var "depth", .num 1, .op "=="]]⟩,
  ⟨.then_, "", [], []⟩,
  ⟨.assign, "", ["b", "std::move(hop_locks)"], [[.var "hop_locks", .call "std::move" 1 "std::move(hop_locks)"]]⟩,
  ⟨.endIf, "", [], []⟩,
  ⟨.step, "", ["--depth", "depth"], [[.var "depth", .num 1, .op "-"]]⟩,
  ⟨.endLoop, "", [], []⟩,
  ⟨.ret, "", ["true"], [[.num 1]]⟩
]


/-! ## predicates on executions -/

def Run.kinds (r : Run) : List K := r.tr.map (·.k)
def Run.evs (r : Run) (k : K) : List Ev := r.tr.filter (·.k == k)

def evIdxsFrom (p : Ev → Bool) : Nat → List Ev → List Nat
  | _, [] => []
  | n, x :: xs => if p x then n :: evIdxsFrom p (n + 1) xs else evIdxsFrom p (n + 1) xs

/-- positions of the events satisfying `p` -/
def Run.idxs (r : Run) (p : Ev → Bool) : List Nat := evIdxsFrom p 0 r.tr

/-- every `p` event (if any) precedes every `q` event (if any) -/
def Run.noneAfter (r : Run) (p q : Ev → Bool) : Bool := (r.idxs p).all fun i => (r.idxs q).all fun j => i < j

def allKnown : List (Option Nat) → Option (List Nat)
  | [] => some []
  | none :: _ => none
  | some v :: t => (allKnown t).map (v :: ·)

def strictAsc : List Nat → Bool
  | [] => true
  | a :: t => (match t with | b :: _ => a < b | [] => true) && strictAsc t

def insertSorted (x : Nat) : List Nat → List Nat
  | [] => [x]
  | y :: ys => if x < y then x :: y :: ys else if x == y then y :: ys else y :: insertSorted x ys

/-- sorted, duplicates removed -/
def asSet (l : List Nat) : List Nat := l.foldr insertSorted []

/-- all assignments of the given values to the names -/
def assigns (vals : List Nat) : List String → List (List (String × Nat))
  | [] => [[]]
  | n :: ns => (assigns vals ns).flatMap fun e => vals.map fun v => (n, v) :: e

/-- the locks of the arrays at positions `p .. n-1`, `sz` locks each, in ascending (array, index) order -/
def locksFrom (p n sz : Nat) : List Nat :=
  ((List.range n).filter (· ≥ p)).flatMap fun j => (List.range sz).map fun i => 100 * j + i

def isReleaseK (k : K) : Bool := k == .unlock || k == .reset || k == .releaseMgr
def isReplaceK (k : K) : Bool := k == .bucketsSwap || k == .bucketsAssign || k == .hpSet || k == .streamIn
def isBookK (k : K) : Bool :=
  k == .moveBucket || k == .setMigrated || k == .lazySet || k == .rehashWorkers || k == .rehashLock || k == .parallelExec ||
  k == .lazyDec
def finished (r : Run) : Bool := r.exit == .fall || r.exit == .ret

/-- the skeleton could be parsed completely (no `switch`, no malformed nesting) -/
def interpretable (l : Sk) : Bool := !(toStmt l).hasBad

/-! ## rule S — a sound snapshot before the first lock -/

/-- shape of every execution of `snapshot_and_lock_two`: rounds of (counter load, hashpower load, `lock_two`) -/
def rounds : List K → Bool
  | [] => true
  | [.ret] => true
  | a :: b :: c :: rest => a == .loadRc && b == .hpGet && c == .lockTwo && rounds rest
  | _ => false

/-- `snapshot_and_lock_two`, on every execution (the loop is run, `lock_two` may succeed or throw
`resize_counter_changed`): each round is exactly counter load, then hashpower load, then `lock_two` with the counter
just loaded; the function returns right after a `lock_two` that did not throw; a throw leads to another complete round
(never out of the function); and (data flow) the bucket indices passed to `lock_two` are computed from the hashpower
that was loaded -/
def chkSnapshot (l : Sk) : Bool :=
  let rs := runsOf l [("load_resize_counter()", 7), ("hashpower()", 5)] 3 3 4
  interpretable l &&
  rs.all (fun r => (r.exit == .ret || r.exit == .cut) && rounds r.kinds &&
    (r.evs .lockTwo).all (fun e => e.v.head? == some (some 7) && e.a.r == "") &&
    (r.tr.all fun e => (e.k != .hpGet && e.k != .loadRc) || e.a.r == "") &&
    (r.exit != .ret || r.kinds.getLast? == some .ret)) &&
  rs.any (fun r => r.exit == .ret && (r.evs .lockTwo).length == 1) &&
  rs.any (fun r => r.exit == .ret && (r.evs .lockTwo).length ≥ 2) &&
  (match localWithInit l "hashpower()", l.find? (isK .lockTwo) with
   | some hp, some lt =>
     (match lt.a with
      | [_, i1, i2, _] =>
        (match declOf l i1, declOf l i2 with
         | some d1, some d2 =>
           mentions (d1.a.getD 1 "") ("(" ++ hp ++ ",") && mentions (d2.a.getD 1 "") ("(" ++ hp ++ ",")
         | _, _ => false)
      | _ => false)
   | _, _ => false)

/-- **Rule S** (`snapshot_and_lock_two`): resize counter BEFORE hashpower BEFORE `lock_two`, in every round of the
retry loop, and a failed validation (`resize_counter_changed`) starts a new complete round.  Violated by: swapping the
two loads, hoisting a load out of the loop, dropping the `try` / replacing `continue` by `break` or `return`, passing a
different counter -/
theorem S_snapshot_and_lock_two : chkSnapshot snapshot_and_lock_two = true := by decide

/-- non-vacuity: hashpower loaded before the counter is rejected -/
example : chkSnapshot bad_snapshot_swapped_loads = false := by decide

/-- `run_cuckoo`, on every execution: the hashpower and the counter are loaded (in either order) while the two buckets
are still locked, then `b.unlock()`, and only then the search / move, which receive exactly these two values; no
`resize_counter_changed` escapes; (structure) the handler reports `failure_under_expansion` -/
def chkRunCuckoo (l : Sk) : Bool :=
  let b := (params l).getD 0 "?"
  let rs := runsOf l [("load_resize_counter()", 7), ("hashpower()", 5), (b, 55)] 3 3 4
  interpretable l && b != "" && !rs.isEmpty &&
  rs.all (fun r =>
    (r.exit == .ret || r.exit == .cut) &&
    (let ks := r.kinds.take 3
     ks == [.hpGet, .loadRc, .unlock] || ks == [.loadRc, .hpGet, .unlock]) &&
    ((r.tr.take 3).all fun e => if e.k == .unlock then e.r == some 55 else e.a.r == "") &&
    ((r.tr.drop 3).all fun e =>
      (e.k == .pathSearch && e.v.take 2 == [some 5, some 7]) ||
      (e.k == .pathMove && e.v.head? == some (some 7) && e.v.getLast? == some (some 55)) || e.k == .ret)) &&
  rs.any (fun r => r.tr.any (·.k == .pathMove)) &&
  (between (isK .catch_) (isK .endTry) l).map (fun x => (x.k, x.a)) == [(.ret, ["failure_under_expansion"])] &&
  l.any (fun x => x.k == .catch_ && mentions (x.a.getD 0 "") "resize_counter_changed")

/-- **Rule S** (`run_cuckoo`): both loads precede `b.unlock()`, the cuckoo path functions get that snapshot, a failed
validation anywhere below is reported as `failure_under_expansion`.  Violated by: moving a load after `b.unlock()`,
dropping the unlock, swallowing `resize_counter_changed` -/
theorem S_run_cuckoo : chkRunCuckoo run_cuckoo = true := by decide

example : chkRunCuckoo bad_run_cuckoo_late_load = false := by decide

/-! ### `lock_one`, `lock_two`, `lock_three`: all executions on all small bucket indices -/

/-- the bucket-index parameters (everything but the counter and the unnamed mode tag) -/
def idxParams (l : Sk) : List String := ((params l).drop 1).filter (· != "")

/-- inputs: the counter parameter is 7, every bucket index ranges over 0..2 (`lock_ind` is the identity of the
machine, so equal indices = same stripe, different indices = different stripes: all coincidence patterns occur) -/
def lockEnvs (l : Sk) : List (List (String × Nat)) :=
  (assigns [0, 1, 2] (idxParams l)).map fun e => ((params l).getD 0 "?", 7) :: e

/-- on every input there is exactly one execution that returns (it satisfies `P`) and the others leave by the
exception of the validation (they satisfy `Q`) -/
def lockRuns (l : Sk) (P : List (String × Nat) → Run → Bool) (Q : Run → Bool) : Bool :=
  interpretable l && !(idxParams l).isEmpty && (params l).getD 0 "" != "" &&
  (lockEnvs l).all fun env =>
    let rs := runsOf l env
    (rs.filter (·.exit == .ret)).length == 1 &&
    rs.all fun r => if r.exit == .ret then P env r else r.exit == .thrw && Q r

/-- the current lock array is read once, before the first `lock()`, and every lock taken is one of that array (the
last of `all_locks_`, position 2 of 3 here) -/
def pSnapshotLocks (r : Run) : Bool :=
  (r.evs .getLocks).length == 1 && !(r.evs .lock).isEmpty &&
  r.noneAfter (·.k == .getLocks) (·.k == .lock) &&
  (r.evs .lock).all fun e => match e.r with | some c => c / 100 == 2 | none => false

/-- **Rule S** (`lock_one`, `lock_two`, `lock_three`): `get_current_locks()` precedes the first `.lock()` and all
locks of the episode are taken in the array that was read.  Violated by: reading the array after the first lock,
re-reading it between two locks, locking through another array -/
theorem S_locks_from_snapshot :
    lockRuns lock_one (fun _ r => pSnapshotLocks r) pSnapshotLocks = true ∧
    lockRuns lock_two (fun _ r => pSnapshotLocks r) pSnapshotLocks = true ∧
    lockRuns lock_three (fun _ r => pSnapshotLocks r) pSnapshotLocks = true := by decide

example : lockRuns bad_lock_two_reread_locks (fun _ r => pSnapshotLocks r) pSnapshotLocks = false := by decide

/-! ## rule V — validate right after the first lock -/

/-- the event after the first `lock()` is `check_resize_counter(<counter parameter>, <that very lock>)`, it is the only
validation, and nothing is touched before the first lock -/
def pValidate (r : Run) : Bool :=
  (match r.tr.dropWhile (·.k != .lock) with
   | lk :: ck :: rest =>
     ck.k == .checkRc && lk.r.isSome && ck.v == [some 7, lk.r] && ck.a.r == "" && rest.all (·.k != .checkRc)
   | _ => false) &&
  ((r.tr.takeWhile (·.k != .lock)).all fun e => e.k == .getLocks || e.k == .locksBack)

/-- the validation failed: exactly one lock had been taken and nothing at all was done after the check -/
def qValidate (r : Run) : Bool :=
  pValidate r && (r.evs .lock).length == 1 && r.kinds.getLast? == some .checkRc

/-- **Rule V** (`lock_one`, `lock_two`, `lock_three`): after the first lock the next action is the validation, before
any further `.lock()`, `rehash_lock` or bucket access.  Violated by: moving `check_resize_counter` after the second
lock, dropping it, making it conditional, validating another lock than the one just taken -/
theorem V_validate_after_first_lock :
    lockRuns lock_one (fun _ r => pValidate r) qValidate = true ∧
    lockRuns lock_two (fun _ r => pValidate r) qValidate = true ∧
    lockRuns lock_three (fun _ r => pValidate r) qValidate = true := by decide

/-- non-vacuity: `lock_two` with the validation moved after the second lock -/
example : lockRuns bad_lock_two_check_after_second (fun _ r => pValidate r) qValidate = false := by decide

/-- the set of stripes passed to `rehash_lock<kIsLazy>` is the set of stripes locked, and every such call comes after
the last lock and after the validation -/
def pRehashEvery (r : Run) : Bool :=
  let rh := r.evs .rehashLock
  (match allKnown ((r.evs .lock).map (·.r)), allKnown (rh.map fun e => e.v.getD 0 none) with
   | some cs, some is => !cs.isEmpty && asSet is == asSet (cs.map (· % 100))
   | _, _ => false) &&
  rh.all (fun e => e.a.a.head? == some "kIsLazy" && e.a.r == "") &&
  r.noneAfter (·.k == .lock) (·.k == .rehashLock) && r.noneAfter (·.k == .checkRc) (·.k == .rehashLock)

/-- **Rule V / lazy migration** (`lock_one`, `lock_two`, `lock_three`): every acquired stripe is migrated
(`rehash_lock<kIsLazy>`) before the buckets are handed to the caller, and only after the validation; when the
validation fails nothing is rehashed.  Violated by: dropping `rehash_lock(l2)`, rehashing a stripe that is not
locked, rehashing before `check_resize_counter` -/
theorem V_every_stripe_rehashed :
    lockRuns lock_one (fun _ r => pRehashEvery r) (fun r => (r.evs .rehashLock).isEmpty) = true ∧
    lockRuns lock_two (fun _ r => pRehashEvery r) (fun r => (r.evs .rehashLock).isEmpty) = true ∧
    lockRuns lock_three (fun _ r => pRehashEvery r) (fun r => (r.evs .rehashLock).isEmpty) = true := by decide

example : lockRuns bad_lock_two_no_rehash_l2 (fun _ r => pRehashEvery r) (fun r => (r.evs .rehashLock).isEmpty) = false := by
  decide

/-- `check_resize_counter(rc, lock)`, on the four combinations (snapshot, current counter): equal ⇒ the counter is
loaded and nothing else happens; different ⇒ the counter is loaded, the lock passed in is released, and only then
`resize_counter_changed` is thrown -/
def chkCheckRc (l : Sk) : Bool :=
  match params l with
  | [rc, lk] =>
    rc != "" && lk != "" && interpretable l &&
    [0, 1].all fun a => [0, 1].all fun b =>
      match runsOf l [(rc, a), (lk, 205), ("load_resize_counter()", b)] with
      | [r] =>
        if a == b then finished r && r.kinds.filter (· != .ret) == [.loadRc]
        else r.exit == .thrw && r.kinds == [.loadRc, .unlock, .throw_] &&
             (r.evs .unlock).map (·.r) == [some 205] &&
             (r.evs .throw_).all (fun e => mentions (e.a.a.getD 0 "") "resize_counter_changed")
      | _ => false
  | _ => false

/-- **Rule V** (`check_resize_counter`): load the counter, compare with the snapshot, on mismatch release the lock
just taken and only then throw.  Violated by: throwing without unlocking, unlocking after the throw, comparing with
`==`, not re-loading the counter -/
theorem V_check_resize_counter : chkCheckRc check_resize_counter = true := by decide

example : chkCheckRc bad_check_no_unlock = false := by decide

/-- the early-return form (`if (load == rc) return; unlock; throw`) is the same thing -/
example : chkCheckRc alt_check_early_return = true := by decide

/-! ## rule A — ascending order, no double acquisition -/

/-- the locks are taken in strictly ascending order (so none twice) and their stripes are exactly the stripes of the
bucket indices passed in; nothing is unlocked -/
def pAscending (env : List (String × Nat)) (r : Run) : Bool :=
  (match allKnown ((r.evs .lock).map (·.r)) with
   | some cs => strictAsc cs && cs.map (· % 100) == asSet ((env.drop 1).map (·.2))
   | none => false) &&
  r.tr.all (fun e => !isReleaseK e.k)

/-- **Rule A** (`lock_one`, `lock_two`): whatever the bucket indices, the stripes are locked in ascending order, each
once (the second lock is skipped when both buckets share a stripe), and they are the stripes of the given buckets.
Violated by: descending order (`if (l1 < l2) swap`), dropping the swap, dropping the `l2 != l1` guard, locking the
stripe of another bucket -/
theorem A_lock_two_ascending :
    lockRuns lock_two pAscending (fun _ => true) = true ∧ lockRuns lock_one pAscending (fun _ => true) = true := by
  decide

/-- non-vacuity: descending order is rejected -/
example : lockRuns bad_lock_two_descending pAscending (fun _ => true) = false := by decide

/-- non-vacuity: a missing duplicate-stripe guard is rejected (the same stripe would be locked twice: self-deadlock) -/
example : lockRuns bad_lock_two_no_dup_guard pAscending (fun _ => true) = false := by decide

/-- ordering by `std::min` / `std::max` instead of a conditional swap is accepted -/
example : lockRuns alt_lock_two_minmax pAscending (fun _ => true) = true ∧
    lockRuns alt_lock_two_minmax (fun _ r => pValidate r) qValidate = true ∧
    lockRuns alt_lock_two_minmax (fun _ r => pRehashEvery r) (fun r => (r.evs .rehashLock).isEmpty) = true := by decide

/-- **Rule A** (`lock_three`): on all 27 index triples the three stripes are locked in ascending order, each once, and
they are the stripes of the three buckets — i.e. the compare-exchanges before the first lock do sort, and the
duplicate guards are right.  Violated by: removing or reordering a compare-exchange so that some input order is not
sorted, locking `l[2]` before `l[1]`, dropping a duplicate guard -/
theorem A_lock_three_ascending : lockRuns lock_three pAscending (fun _ => true) = true := by decide

/-- non-vacuity: a network with the last compare-exchange missing does not sort -/
example : lockRuns bad_lock_three_network pAscending (fun _ => true) = false := by decide

/-- three named locals sorted by the same network instead of a `std::array` are accepted -/
example : lockRuns alt_lock_three_locals pAscending (fun _ => true) = true ∧
    lockRuns alt_lock_three_locals (fun _ r => pValidate r) qValidate = true := by decide

/-- `lock_all(normal_mode)`, for several shapes of `all_locks_` (n arrays of sz locks): one execution; it locks, in
ascending order and each once, exactly the locks of the arrays from some position `p ≤ n-1` up to the end (the whole
current array included), does nothing else, and hands that very position `p` to `AllUnlocker`.  (`p = n-1` in the
source; starting earlier — `all_locks_.begin()` — only takes more locks in the same order and is accepted.) -/
def chkLockAll (l : Sk) : Bool :=
  interpretable l &&
  [(3, 2), (1, 3), (2, 1)].all fun (n, sz) =>
    match runsOf l [] n sz with
    | [r] =>
      r.exit == .ret &&
      r.tr.all (fun e => e.k == .lock || e.k == .ret || e.k == .getLocks || e.k == .locksBack) &&
      (match allKnown ((r.evs .lock).map (·.r)), r.tr.getLast? with
       | some (c :: cs), some last =>
         let p := c / 100
         last.k == .ret && p < n && (c :: cs) == locksFrom p n sz && last.r == some p
       | _, _ => false)
    | _ => false

/-- **Rule A** (`lock_all`): starts at (or before) the current lock array, walks to `all_locks_.end()`, locks every
lock of every array on the way in ascending order, releases nothing, and hands the *same* starting point to
`AllUnlocker`.  Violated by: starting at `end()` / `std::next(..)`, skipping the `++`, an `unlock` / `break` inside
the walk, giving `AllUnlocker` another iterator than the one the walk started from -/
theorem A_lock_all_walk : chkLockAll lock_all = true := by decide

example : chkLockAll bad_lock_all_from_end = false := by decide
example : chkLockAll bad_lock_all_other_iter = false := by decide

/-- a `for` loop instead of the `while` is the same walk -/
example : chkLockAll alt_lock_all_for = true := by decide

/-- the `locked_table_mode` overloads take no lock and touch nothing -/
theorem A_locked_table_mode_overloads_are_noops :
    (vocab lock_one_lt).isEmpty ∧ (vocab lock_two_lt).isEmpty ∧ (vocab lock_three_lt).isEmpty ∧
    (vocab lock_all_lt).isEmpty := by decide

/-! ## rule R — resizes: own the table, replace, bump the counter, only then release -/

/-- `cuckoo_fast_double` / `cuckoo_expand_simple`, on every path (all conditions both ways):
* nothing is released by hand, `all_locks_` is not touched directly, the counter is only advanced by
  `resize_counter_.fetch_add(1, release)`;
* a path that changes the lock array or the bucket array / hashpower starts with `lock_all(TABLE_MODE())`, calls
  `maybe_resize_locks` once, before the first replacement, bumps the counter exactly once, after the last replacement
  and after all migration bookkeeping, and returns immediately after the bump;
* a path that changes nothing does not bump the counter;
* there is a path that replaces the bucket array; and (structure) the result of `lock_all` is kept in a named local,
  not a temporary that dies at once -/
def chkResize (l : Sk) : Bool :=
  let rs := runsOf l []
  interpretable l && rs.all finished && rs.any (fun r => r.tr.any (fun e => isReplaceK e.k)) &&
  hasSeq [fun x => x.k == .lockAll && x.r == "" && x.a == ["TABLE_MODE()"],
          fun x => x.k == .decl && x.a.getD 1 "" == "lock_all(TABLE_MODE())"] l &&
  rs.all fun r =>
    r.tr.all (fun e => !isReleaseK e.k && e.k != .emplaceBack && e.k != .allLocksOther && e.k != .rcOther &&
                       e.k != .bumpRcCall && e.k != .throw_) &&
    (r.evs .bumpRc).all (fun e => e.a.r == "resize_counter_" && e.a.a == ["1", "std::memory_order_release"]) &&
    (r.evs .lockAll).length ≤ 1 &&
    (if r.tr.any (fun e => isReplaceK e.k || e.k == .maybeResizeLocks) then
      (r.tr.head?.map (·.k) == some .lockAll) &&
      (r.evs .maybeResizeLocks).length == 1 && r.tr.any (fun e => isReplaceK e.k) &&
      r.noneAfter (·.k == .maybeResizeLocks) (fun e => isReplaceK e.k) &&
      (r.evs .bumpRc).length == 1 &&
      r.noneAfter (fun e => isReplaceK e.k || isBookK e.k || e.k == .maybeResizeLocks) (·.k == .bumpRc) &&
      ((r.tr.dropWhile (·.k != .bumpRc)).map (·.k) == [.bumpRc, .ret])
    else (r.evs .bumpRc).isEmpty)

/-- `cuckoo_fast_double`: a path that does not start with `lock_all` is the early delegation to
`cuckoo_expand_simple`, returned at once -/
def chkFastDoublePrefix (l : Sk) : Bool :=
  (runsOf l []).all fun r =>
    r.tr.head?.map (·.k) == some .lockAll || r.kinds == [.expandSimple, .ret]

/-- **Rule R** (`cuckoo_fast_double`): `lock_all` first (after the nothrow-move delegation), `maybe_resize_locks`
before `old_buckets_.swap(buckets_)` / `buckets_ = …`, the `fetch_add` after the replacement and after the migration
bookkeeping (un-migrated marks, pending-stripe counter, immediate rehash), every return of a changing path right
after it, the early `return st` before anything changed, no manual release.  Violated by: bumping the counter before
the swap, dropping the bump, resizing the locks after the swap, returning on a path without the bump -/
theorem R_fast_double : chkResize cuckoo_fast_double = true ∧ chkFastDoublePrefix cuckoo_fast_double = true := by
  decide

/-- the replacement in `cuckoo_fast_double` is the pair `old_buckets_.swap(buckets_)` ; `buckets_ = std::move(new)`
in this order, and the lazy bookkeeping follows it -/
theorem R_fast_double_replacement :
    ((cuckoo_fast_double.filter isReplace).map fun x => (x.k, x.r, x.a.take 1)) =
      [(.bucketsSwap, "old_buckets_", ["swap"]), (.bucketsAssign, "", ["buckets_"])] ∧
    allBefore isReplace (fun x => x.k == .setMigrated || x.k == .moveBucket) cuckoo_fast_double = true ∧
    -- the stripes still pending from the previous doubling are migrated before old_buckets_ is overwritten
    before (isK .rehashLock) isReplace cuckoo_fast_double = true := by decide

/-- non-vacuity: counter bumped before the swap -/
example : chkResize bad_fast_double_bump_first = false := by decide

/-- **Rule R** (`cuckoo_expand_simple`): `lock_all` is the very first action, `maybe_resize_locks` precedes
`buckets_.swap(new_map.buckets_)`, the `fetch_add` follows, the return of the changing path comes right after it,
`return st` before anything changed.  Violated by: dropping the `fetch_add`, swapping before the lock array is grown,
reading `hashpower()` before `lock_all`, letting the lock manager die before the end -/
theorem R_expand_simple :
    chkResize cuckoo_expand_simple = true ∧
    (vocab cuckoo_expand_simple).head?.map (·.k) = some .lockAll ∧
    ((cuckoo_expand_simple.filter isReplace).map fun x => (x.k, x.r, x.a)) =
      [(.bucketsSwap, "buckets_", ["swap", "new_map.buckets_"])] := by decide

/-- non-vacuity: no bump at all / the manager is a temporary -/
example : chkResize bad_expand_simple_no_bump = false := by decide
example : chkResize bad_expand_simple_temp_manager = false := by decide

/-- `maybe_resize_locks`, with 3 arrays of 2 locks, `kMaxNumLocks = 4`, for several requested bucket counts: when the
current array is already large enough nothing is locked or appended; otherwise exactly one new vector is appended to
`all_locks_`, it has `min(kMaxNumLocks, n)` locks, *all* of them were locked (ascending, each once) before the
`emplace_back`, which is the last thing done; nothing is unlocked -/
def chkMaybeResizeLocks (l : Sk) : Bool :=
  match params l with
  | [nbc] =>
    interpretable l && nbc != "" &&
    [1, 2, 3, 4, 8].all fun n =>
      match runsOf l [(nbc, n), ("kMaxNumLocks", 4)] 3 2 with
      | [r] =>
        finished r && r.tr.all (fun e => !isReleaseK e.k) &&
        (if n ≤ 2 then r.tr.all (fun e => e.k != .lock && e.k != .emplaceBack) && r.arrs == [0, 1, 2]
         else
          match r.evs .emplaceBack with
          | [eb] =>
            (match eb.v.head? with
             | some (some nw) =>
               eb.r == some LIST && r.arrs == [0, 1, 2, nw] && !([0, 1, 2].contains nw) &&
               r.sz.lookup nw == some (min 4 n) &&
               allKnown ((r.evs .lock).map (·.r)) == some ((List.range (min 4 n)).map fun i => 100 * nw + i) &&
               ((r.tr.filter (·.k != .ret)).getLast?.map (·.k) == some .emplaceBack)
             | _ => false)
          | _ => false)
      | _ => false
  | _ => false

/-- **Rules A/R** (`maybe_resize_locks`): a lock array is appended *born locked* — all of its locks are taken before
`all_locks_.emplace_back`.  Violated by: appending first and locking afterwards, appending an unlocked or partly
locked array, unlocking inside -/
theorem R_maybe_resize_locks_born_locked : chkMaybeResizeLocks maybe_resize_locks = true := by decide

example : chkMaybeResizeLocks bad_maybe_resize_emplace_first = false := by decide

/-- an index loop over the resized vector (and a De-Morgan'ed guard) instead of the range-`for` is accepted -/
example : chkMaybeResizeLocks alt_maybe_resize_index_loop = true := by decide

/-- `operator>>(istream, locked_table)`: the bucket array is read in, then the lock array is grown, then the counter is
bumped — each once, unconditionally, on the locked table that was passed in -/
def chkIstream (l : Sk) : Bool :=
  match params l with
  | [is, lt] =>
    ((vocab l).head?.map (eqAct .streamIn "" [is, lt ++ ".buckets()"]) == some true) &&
    count isReplace l == 1 && count (isK .maybeResizeLocks) l == 1 && count (isK .bumpRcCall) l == 1 &&
    count (isK .bumpRc) l == 0 &&
    unconditional (fun x => isReplace x || x.k == .maybeResizeLocks || x.k == .bumpRcCall) l &&
    l.any (eqAct .maybeResizeLocks lt [lt ++ ".bucket_count()"]) && l.any (eqAct .bumpRcCall lt []) &&
    allBefore isReplace (isK .bumpRcCall) l && allBefore (isK .maybeResizeLocks) (isK .bumpRcCall) l &&
    count isRelease l == 0
  | _ => false

/-- **Rule R** (`operator>>` of `locked_table`): `maybe_resize_locks` and the bucket array replacement precede
`bump_resize_counter`, and the two wrappers are what their names say (`maybe_resize_locks` of the map,
`resize_counter_.fetch_add(1, release)` of the map).  Violated by: dropping the bump, bumping before reading the
buckets, bumping a different counter -/
theorem R_istream :
    chkIstream locked_table_istream = true ∧
    (vocab locked_table_maybe_resize_locks).map (fun x => (x.k, x.r, x.a)) =
      [(.maybeResizeLocks, "map_.get()", [(params locked_table_maybe_resize_locks).getD 0 ""])] ∧
    (vocab locked_table_bump_resize_counter).map (fun x => (x.k, x.r, x.a)) =
      [(.bumpRc, "map_.get().resize_counter_", ["1", "std::memory_order_release"])] := by decide

example : chkIstream bad_istream_no_bump = false := by decide

example : chkIstream
    [A .params "" ["is", "lt"], A .streamIn "" ["is", "lt.buckets()"], A .bucketsRef "lt", A .bumpRcCall "lt",
     A .maybeResizeLocks "lt" ["lt.bucket_count()"], A .ret "" ["is"]] = false := by decide

/-- the resize counter is only ever advanced by `fetch_add`, and only in the three resize paths; `all_locks_` only
grows, only in `maybe_resize_locks`; the table's hashpower / bucket array is only replaced in the resize paths -/
theorem R_only_resizers_write :
    (skeletons.all fun (n, l) =>
      (count (isK .rcOther) l == 0 && count (isK .allLocksOther) l == 0) &&
      (count (isK .bumpRc) l == 0 ||
        ["cuckoo_fast_double", "cuckoo_expand_simple", "locked_table_bump_resize_counter"].contains n) &&
      (count (isK .emplaceBack) l == 0 || n == "maybe_resize_locks") &&
      (count isReplace l == 0 || ["cuckoo_fast_double", "cuckoo_expand_simple", "locked_table_istream"].contains n)) = true := by
  decide

/-! ## rule E — everything taken is given back -/

/-- `AllUnlocker::operator()(map)`, with 3 arrays of 2 locks, for every starting position `first_locked`: one
execution; it unlocks, in order and each once, exactly the locks of the arrays from `first_locked` to
`map->all_locks_.end()`, and does nothing else -/
def chkAllUnlocker (l : Sk) : Bool :=
  match params l with
  | [m] =>
    interpretable l && m != "" &&
    [0, 1, 2].all fun p =>
      match runsOf l [("first_locked", p), (m, 1)] 3 2 with
      | [r] =>
        finished r && r.tr.all (fun e => e.k == .unlock || e.k == .ret) &&
        allKnown ((r.evs .unlock).map (·.r)) == some (locksFrom p 3 2)
      | _ => false
  | _ => false

/-- **Rule E** (`AllUnlocker`): walks from `first_locked` (the position `lock_all` started from, see
`A_lock_all_walk`) to `all_locks_.end()` and unlocks every lock of every array — including arrays appended while the
table was owned.  `AllLocksManager` is a `unique_ptr` with this deleter.  Violated by: starting at
`std::next(first_locked)`, stopping early, skipping locks -/
theorem E_all_unlocker :
    chkAllUnlocker AllUnlocker = true ∧
    fields.any (fun f => f.1 == "AllUnlocker" && f.2.1 == "first_locked") = true ∧
    aliases.lookup "AllLocksManager" = some "std::unique_ptr<cuckoohash_map,AllUnlocker>" := by decide

example : chkAllUnlocker bad_unlocker_next = false := by decide

/-- a `while` loop with `std::for_each` + lambda inside is the same walk -/
example : chkAllUnlocker alt_unlocker_for_each = true := by decide

/-- **Rule E** (`TwoBuckets::unlock`, `LockDeleter`): `unlock()` resets *every* `LockManager` member of `TwoBuckets`
(both of them), a `LockManager` is a `unique_ptr<spinlock, LockDeleter>`, and `LockDeleter` unlocks the spinlock it
is given.  Violated by: resetting only one manager, a deleter that does not unlock -/
theorem E_two_buckets_and_lock_deleter :
    samePerm ((TwoBuckets_unlock.filter (isK .reset)).map (·.r))
      ((fields.filter fun f => f.1 == "TwoBuckets" && f.2.2 == "LockManager").map (·.2.1)) = true ∧
    (TwoBuckets_unlock.filter (isK .reset)).length = 2 ∧
    (vocab TwoBuckets_unlock).all (isK .reset) = true ∧
    unconditional (isK .reset) TwoBuckets_unlock = true ∧
    aliases.lookup "LockManager" = some "std::unique_ptr<spinlock,LockDeleter>" ∧
    (match params LockDeleter, vocab LockDeleter with
     | [p], [u] => u.k == .unlock && u.r == p && p != "" && unconditional (isK .unlock) LockDeleter
     | _, _ => false) = true := by decide

example : samePerm ((bad_two_buckets_one_reset.filter (isK .reset)).map (·.r))
    ((fields.filter fun f => f.1 == "TwoBuckets" && f.2.2 == "LockManager").map (·.2.1)) = false := by decide

/-- `clear`: every execution is `lock_all(normal_mode())` then `cuckoo_clear()`, and the manager lives in a local -/
def chkClear (l : Sk) : Bool :=
  interpretable l &&
  (runsOf l []).all (fun r => finished r && r.kinds.filter (· != .ret) == [.lockAll, .cuckooClear]) &&
  hasSeq [eqAct .lockAll "" ["normal_mode()"], fun x => x.k == .decl && x.a.getD 1 "" == "lock_all(normal_mode())"] l

/-- **Rule E / R** (`clear`): `lock_all(normal_mode())`, kept in a local for the whole body, then `cuckoo_clear()`.
Violated by: clearing before / without owning the table, discarding the manager before clearing -/
theorem E_clear : chkClear clear = true := by decide

example : chkClear bad_clear_before_lock = false := by decide

/-- **Rule E / A** (`locked_table`): the constructor takes `map.lock_all(normal_mode())` (into the
`AllLocksManager` member, in the initialiser list) before `map.rehash_with_workers()`; `unlock()` resets exactly
that member.  Violated by: rehashing before owning the table, constructing without the locks, `unlock()` that keeps
the manager -/
theorem E_locked_table :
    (match params locked_table_ctor with
     | [m] => m != "" && (vocab locked_table_ctor).map (fun x => (x.k, x.r, x.a)) ==
                [(.lockAll, m, ["normal_mode()"]), (.rehashWorkers, m, [])] &&
              unconditional (fun _ => true) locked_table_ctor
     | _ => false) = true ∧
    (vocab locked_table_unlock).map (fun x => (x.k, x.r, x.a)) = [(.reset, "all_locks_manager_", [])] ∧
    unconditional (isK .reset) locked_table_unlock = true ∧
    fields.contains ("locked_table", "all_locks_manager_", "AllLocksManager") = true := by decide

example : ((vocab ([A .params "" ["map"], A .rehashWorkers "map", A .lockAll "map" ["normal_mode()"]] : Sk)).map
    (fun x => (x.k, x.r, x.a)) == [(.lockAll, "map", ["normal_mode()"]), (.rehashWorkers, "map", [])]) = false := by decide

/-! ## lazy migration (`rehash_lock`, `rehash_with_workers`) -/

/-- `rehash_lock<IS_LAZY>(l)`, with `kMaxNumLocks = 2`, 4 old buckets, for both stripes, both values of `IS_LAZY`, and
the stripe migrated or not: the flag of the stripe's lock (`get_current_locks()[l]`) is tested first; if set nothing
else happens; otherwise the old buckets `l, l + kMaxNumLocks, …` are moved into the current array, then the flag of
that lock is set, and the pending-stripe counter is decremented last and only if `IS_LAZY` -/
def chkRehashLock (l : Sk) : Bool :=
  match params l with
  | [p] =>
    interpretable l && p != "" &&
    [0, 1].all fun s => [0, 1].all fun lz => [0, 1].all fun mg =>
      match runsOf l [(p, s), ("kMaxNumLocks", 2), ("old_buckets_.size()", 4), ("IS_LAZY", lz), (".is_migrated", mg)] 3 2 with
      | [r] =>
        finished r &&
        (let ks := r.kinds.filter (· != .ret)
         if mg == 1 then ks == [.getLocks, .isMigrated]
         else ks == [.getLocks, .isMigrated, .moveBucket, .moveBucket, .setMigrated] ++ (if lz == 1 then [.lazyDec] else [])) &&
        (r.evs .isMigrated).map (·.r) == [some (200 + s)] &&
        (r.evs .moveBucket).all (fun e => e.a.a.take 2 == ["old_buckets_", "buckets_"]) &&
        (mg == 1 || (r.evs .moveBucket).map (fun e => e.v.getD 2 none) == [some s, some (s + 2)]) &&
        (r.evs .setMigrated).all (fun e => e.r == some (200 + s) && e.v == [some 1])
      | _ => false
  | _ => false

/-- **Lazy migration** (`rehash_lock`): test `is_migrated()` first, move the buckets, mark migrated, and only then
decrement the pending-stripe counter (whose reaching zero frees `old_buckets_`).  Violated by: decrementing before the
moves (old array freed while still needed), marking before moving, not testing the flag (double migration) -/
theorem M_rehash_lock : chkRehashLock rehash_lock = true := by decide

example : chkRehashLock bad_rehash_lock_dec_first = false := by decide

/-- `rehash_with_workers`: every stripe of the current array is rehashed non-lazily, then the pending counter is
cleared -/
theorem M_rehash_with_workers :
    kinds (vocab rehash_with_workers) = [.getLocks, .parallelExec, .rehashLock, .lazySet] ∧
    rehash_with_workers.any (fun x => x.k == .rehashLock && x.a.head? == some "kIsNotLazy") = true ∧
    (vocab rehash_with_workers).getLast?.map (fun x => (x.k, x.r, x.a)) = some (.lazySet, "", ["0"]) := by decide

/-! ## bucket accesses happen under a validated lock (cuckoo path functions) -/

/-- every `buckets_[i]` / `buckets_.setKV/eraseKV` is preceded, since the last point where locks were dropped
(loop start / end, or `b.unlock()`), by a `lock_one / lock_two / lock_three` call — with `sameIdx`, one that is passed
the very same index expression -/
def coveredBy (sameIdx : Bool) (idx : String) (x : Act) : Bool :=
  (x.k == .lockOne || x.k == .lockTwo || x.k == .lockThree) && (!sameIdx || x.a.contains idx)

def chkAccessUnderLock (sameIdx : Bool) : Sk → Sk → Bool
  | _, [] => true
  | held, x :: xs =>
    if x.k == .loop || x.k == .endLoop || x.k == .unlock then chkAccessUnderLock sameIdx [] xs
    else if x.k == .lockOne || x.k == .lockTwo || x.k == .lockThree then chkAccessUnderLock sameIdx (x :: held) xs
    else if x.k == .bucketAt || x.k == .bucketsMeth then
      held.any (coveredBy sameIdx (x.a.getD 1 "?")) && chkAccessUnderLock sameIdx held xs
    else chkAccessUnderLock sameIdx held xs

/-- **Rule V** (cuckoo path functions): in `slot_search` and `cuckoopath_search` every bucket read follows, in the same
loop iteration, a `lock_one` of exactly that bucket index; in `cuckoopath_move` every bucket read / write follows a
`lock_two` / `lock_three` taken since the last release (that the path's first bucket is one of `b.i1`, `b.i2` is an
`assert` of the source, not a syntactic fact).  All these calls validate against the counter snapshot handed down by
`run_cuckoo`; none of the three functions re-loads the counter, the hashpower or the lock array.  Violated by:
reading a bucket before `lock_one`, locking another bucket than the one read, re-snapshotting below `run_cuckoo` -/
theorem V_path_functions_access_under_lock :
    chkAccessUnderLock true [] slot_search = true ∧ chkAccessUnderLock true [] cuckoopath_search = true ∧
    chkAccessUnderLock false [] cuckoopath_move = true ∧
    -- every lock_* call in these functions passes on the counter parameter of the function (the snapshot of run_cuckoo)
    ([slot_search, cuckoopath_search, cuckoopath_move].all fun l =>
      (l.filter fun x => x.k == .lockOne || x.k == .lockTwo || x.k == .lockThree).all fun x =>
        (params l).contains (x.a.getD 0 "?") && mentions (x.a.getD 0 "") "resize_counter") = true ∧
    -- and none of them loads the counter or the hashpower itself
    ([slot_search, cuckoopath_search, cuckoopath_move].all fun l =>
      count (fun x => x.k == .loadRc || x.k == .hpGet || x.k == .getLocks) l == 0) = true := by decide

/-- non-vacuity: a bucket read before its `lock_one` is rejected -/
example : chkAccessUnderLock true [] bad_slot_search_read_first = false := by decide

/-- `cuckoopath_move` with `depth == 0`, on every path: the two insert buckets are re-locked by `lock_two` before the
bucket is looked at; a `return false` is preceded by exactly one `b.unlock()` after that `lock_two`, a `return true`
by none (the caller then owns the locks); if `lock_two` throws nothing was touched -/
def chkPathMoveDepth0 (l : Sk) : Bool :=
  match params l with
  | [_, _, d, b] =>
    let rs := runsOf l [(d, 0), (b, 55)]
    interpretable l && d != "" && b != "" &&
    rs.any (fun r => r.exit == .ret && (r.tr.getLast?.bind (·.r)) == some 0) &&
    rs.any (fun r => r.exit == .ret && (r.tr.getLast?.bind (·.r)) == some 1) &&
    rs.all fun r =>
      let aft := (r.tr.dropWhile (·.k != .lockTwo)).drop 1
      (r.evs .lockTwo).length == 1 &&
      (r.tr.takeWhile (·.k != .lockTwo)).all (fun e => e.k != .bucketAt && e.k != .bucketsMeth && e.k != .unlock) &&
      (if r.exit == .ret then
        (match r.tr.getLast? with
         | some last =>
           last.k == .ret &&
           (if last.r == some 0 then (aft.filter (·.k == .unlock)).map (·.a.r) == [b]
            else last.r == some 1 && aft.all (·.k != .unlock))
         | none => false)
       else r.exit == .thrw && aft.isEmpty)
  | _ => false

/-- **Rule E** (`cuckoopath_move`, contract "unsuccessful ⇒ unlocked, successful ⇒ still locked"): with `depth == 0`
the two buckets are unlocked before `return false` and kept on `return true`.  Violated by: returning `false` with
the locks held, unlocking on the success path -/
theorem E_cuckoopath_move_failure_unlocks : chkPathMoveDepth0 cuckoopath_move = true := by decide

/-- the flipped form `if (occupied) { b.unlock(); return false; } return true;` is the same thing -/
example : chkPathMoveDepth0 alt_cuckoopath_move_flipped = true := by decide

/-! ## `cuckoo_insert_loop`: what happens after a failed `cuckoo_insert` -/

/-- the hashpower handed to `cuckoo_fast_double` is the one loaded *before* `cuckoo_insert` (so that a concurrent
resize is detected by `check_resize_validity`); `failure_table_full` ⇒ `cuckoo_fast_double` then re-snapshot and
re-lock; `failure_under_expansion` ⇒ re-snapshot and re-lock; both stay in the retry loop -/
theorem S_insert_loop :
    kinds (vocab cuckoo_insert_loop) = [.hpGet, .cuckooInsert, .fastDouble, .snapshotLockTwo, .snapshotLockTwo] ∧
    allInLoop (fun x => !isMarker x.k) cuckoo_insert_loop = true ∧
    (match localWithInit cuckoo_insert_loop "hashpower()", cuckoo_insert_loop.find? (isK .fastDouble) with
     | some hp, some fd => fd.a.getLast? == some hp
     | _, _ => false) = true ∧
    hasSeq [eqAct .case_ "" ["failure_table_full"], isK .fastDouble, isK .snapshotLockTwo, isK .assign, isK .break_]
      cuckoo_insert_loop = true ∧
    hasSeq [eqAct .case_ "" ["failure_under_expansion"], isK .snapshotLockTwo, isK .assign, isK .break_]
      cuckoo_insert_loop = true ∧
    hasSeq [eqAct .case_ "" ["ok"], eqAct .case_ "" ["failure_key_duplicated"], isK .ret] cuckoo_insert_loop = true := by
  decide

/-! ## the two primitive reads -/

/-- `get_current_locks()` is `all_locks_.back()` (the model's `genLoad`), `load_resize_counter()` is one acquire load
of `resize_counter_` (the model's `rcLoad`) -/
theorem S_primitive_reads :
    (get_current_locks.drop 1).map (fun x => (x.k, x.r, x.a)) =
      [(.locksBack, "all_locks_", []), (.ret, "", ["all_locks_.back()"])] ∧
    kinds (vocab load_resize_counter) = [.rcLoadRaw] ∧
    load_resize_counter.any (eqAct .rcLoadRaw "resize_counter_" ["std::memory_order_acquire"]) = true := by decide

/-- the generated table covers every function the theorems above talk about (a dropped entry cannot make a
quantified statement vacuous) -/
theorem coverage : skeletons.length = 31 ∧ (skeletons.all fun (_, l) => (l.head?.map (·.k)) == some .params) = true := by
  decide

end Cuckoo.Props.C01Sync
