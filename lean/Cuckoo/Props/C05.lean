import Cuckoo.Props.C02
import Cuckoo.Proofs.Stats
/-!
# C05 — size() and the derived statistics are exact whenever the table is quiescent

Sequentially every state between two calls is quiescent.  `Rel c t m` contains `sumCnt t = |m|`, and every
operation re-establishes `Rel` (C02), so `size()` equals the number of stored pairs after any history — across
displacement between stripes, doubling with deferred migration, growth of the lock array, shrinking, clear and
stream extraction (C12).
-/
namespace Cuckoo.Props.C05
open Cuckoo Cuckoo.Model Cuckoo.Spec
variable {κ ν : Type}

/-- `size()` is the number of key-value pairs -/
theorem size_eq_card (c : Cfg κ) (t : Table κ ν) (m : AMap κ ν) (hr : Rel c t m) : t.size = m.length := by
  have h : t.size = t.sumCnt.toNat := rfl
  rw [h, hr.count]
  exact Int.toNat_natCast _

/-- `empty()` iff there is no pair -/
theorem empty_iff (c : Cfg κ) (t : Table κ ν) (m : AMap κ ν) (hr : Rel c t m) : (t.size = 0) ↔ m = [] := by
  rw [size_eq_card c t m hr]
  exact List.length_eq_zero_iff

/-- `capacity()` = `bucket_count() * slot_per_bucket()` with `bucket_count() = 2^hashpower()`, and the bucket array
really has that many cells -/
theorem capacity_eq (c : Cfg κ) (t : Table κ ν) (h : Inv c t) :
    t.capacity c = 2 ^ t.hp * c.S ∧ t.cur.cells.size = t.capacity c := by
  exact ⟨rfl, h.cur_wf.size⟩

/-- `load_factor()` is `size()/capacity()` computed in double precision -/
theorem load_factor_eq (c : Cfg κ) (t : Table κ ν) :
    t.lfBelow c = decide (lfOf t.size (t.capacity c) < t.mlf) := by
  rfl

/-- there are never more elements than slots -/
theorem size_le_capacity [DecidableEq κ] (c : Cfg κ) (t : Table κ ν) (m : AMap κ ν) (h : Inv c t) (hr : Rel c t m)
    (hl : AllMig t) : t.size ≤ t.capacity c := by
  rw [size_eq_card c t m hr, ← (capacity_eq c t h).2]
  exact card_le_cells h hr hl

/-- growth of the lock array keeps the sum of the counters -/
theorem counters_move_with_growth (c : Cfg κ) (t : Table κ ν) (n : Nat) :
    (t.maybeResizeLocks c n).sumCnt = t.sumCnt := (maybeResizeLocks_spec c t n).2.2.2.2.2.2.2.1

/-- a displacement hop changes no counter -/
theorem displacement_keeps_sum (c : Cfg κ) (t t' : Table κ ν) (fr to : PathRec) (h : hop c t fr to = some t') :
    t'.sumCnt = t.sumCnt := by
  unfold hop at h
  split at h
  · split at h
    · cases h; rfl
    · cases h
  · cases h

/-- after any sequence of operations, `size()` is the number of pairs of the abstract map the run ends with -/
theorem size_exact_after_any_run [DecidableEq κ] (c : Cfg κ) (ops : List (C02.Op κ ν)) (s : C02.MT κ ν) (m : AMap κ ν)
    (hg : C02.Good c s m) :
    ∃ m', C02.specRun s.locked m ops (C02.run c s ops).2 m' ∧ (C02.run c s ops).1.t.size = m'.length := by
  obtain ⟨m', h1, h2⟩ := C02.seq_refines c ops s m hg
  exact ⟨m', h1, size_eq_card c _ m' h2.2.1⟩

end Cuckoo.Props.C05
