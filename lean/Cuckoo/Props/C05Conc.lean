import Cuckoo.Props.C05
import Cuckoo.Props.C06Conc
/-!
# C05 (concurrent half) — size() and the derived statistics after ANY concurrent execution

`Props/C05.lean` covers single-threaded histories.  The property also says "this holds after any concurrent
execution".  At the granularity of `Model/Conc.lean` (atomic critical sections with arbitrary stale local data,
`Props/C01Conc.lean`) and with whole locked sections as additional atomic steps (`Props/C06Conc.lean`), every point
*between* two steps of a schedule is a point at which no section is running; the table reached there
represents the map obtained by the linearization, and therefore

* `size()` (the sum of the per-stripe counters) is the number of pairs of that map,
* `empty()` iff that map is empty,
* `capacity()` is `2^hashpower() * slot_per_bucket()` and is the real number of cells of the bucket array,

whatever the interleaving did to the bookkeeping: displacement between stripes by competing inserters, doubling with
deferred migration finished lazily by arbitrary threads, growth of the lock array, shrinking, clear, locked sections
that rebuilt or replaced the table.  (A state in the middle of a critical section is not quiescent and nothing is
claimed about it; that a lock-protected block of the code is one atomic step is `Props/C01Red.lean`.)
-/
namespace Cuckoo.Props.C05Conc
open Cuckoo Cuckoo.Model Cuckoo.Model.Conc Cuckoo.Spec
variable {κ ν : Type} [DecidableEq κ]

/-- after every interleaving of critical sections: `size()` = number of pairs of the linearized map, `empty()` iff it
is empty, and the capacity is exact -/
theorem size_exact_after_any_interleaving (c : Cfg κ) (evs : List (C01Conc.Ev c ν)) (t : Table κ ν) (m : AMap κ ν)
    (h : Inv c t) (hr : Rel c t m) :
    ∃ m', C01Conc.linRun m (evs.map (·.call)) (exec t (evs.map (·.f))).2 m' ∧
      (exec t (evs.map (·.f))).1.size = m'.length ∧
      ((exec t (evs.map (·.f))).1.size = 0 ↔ m' = []) ∧
      (exec t (evs.map (·.f))).1.cur.cells.size = 2 ^ (exec t (evs.map (·.f))).1.hp * c.S := by
  obtain ⟨m', h1, h2, h3⟩ := C01Conc.conc_linearizable c evs t m h hr
  exact ⟨m', h1, C05.size_eq_card c _ m' h3, C05.empty_iff c _ m' h3, (C05.capacity_eq c _ h2).2⟩

/-- the same with whole locked sections (growth, shrinking, clear, stream extraction inside a section) interleaved -/
theorem size_exact_with_locked_sections (c : Cfg κ) (evs : List (C06Conc.GEv c ν)) (t : Table κ ν) (m : AMap κ ν)
    (h : Inv c t) (hr : Rel c t m) :
    ∃ m', C06Conc.glin m evs (C06Conc.gexec c t evs).2 m' ∧
      (C06Conc.gexec c t evs).1.size = m'.length ∧
      ((C06Conc.gexec c t evs).1.size = 0 ↔ m' = []) ∧
      (C06Conc.gexec c t evs).1.cur.cells.size = 2 ^ (C06Conc.gexec c t evs).1.hp * c.S := by
  obtain ⟨m', h1, h2, h3⟩ := C06Conc.conc_with_sections_linearizable c evs t m h hr
  exact ⟨m', h1, C05.size_eq_card c _ m' h3, C05.empty_iff c _ m' h3, (C05.capacity_eq c _ h2).2⟩

/-- the sum of the counters is exact at EVERY cut of a schedule (every prefix of a schedule is a schedule), so a
counter that is moved to another stripe by one thread's displacement or migration and back by another's never makes
`size()` drift -/
theorem size_exact_at_every_cut (c : Cfg κ) (evs : List (C01Conc.Ev c ν)) (n : Nat) (t : Table κ ν) (m : AMap κ ν)
    (h : Inv c t) (hr : Rel c t m) :
    ∃ m', (exec t ((evs.take n).map (·.f))).1.size = m'.length ∧ Rel c (exec t ((evs.take n).map (·.f))).1 m' := by
  obtain ⟨m', _, _, h3⟩ := C01Conc.conc_linearizable c (evs.take n) t m h hr
  exact ⟨m', C05.size_eq_card c _ m' h3, h3⟩

/-- non-vacuity: two inserters and an eraser on one key, any parameters -/
example (c : Cfg Nat) (t : Table Nat Nat) (m : AMap Nat Nat) (h : Inv c t) (hr : Rel c t m) :
    ∃ m' : AMap Nat Nat, (exec t [insertTrySec c 1 2 false false (fun _ v => .ret v false),
                   lookupSec c true 1 (fun v => .ret v true),
                   insertTrySec c 1 3 false false (fun _ v => .ret v false)]).1.size = m'.length := by
  have := size_exact_after_any_interleaving c
    [⟨.uprase 1 2 false false (fun _ v => .ret v false), _, C01Conc.insertTrySec_sec c 1 2 false false _⟩,
     ⟨.lookup true 1 (fun v => .ret v true), _, C01Conc.lookupSec_sec c true 1 _⟩,
     ⟨.uprase 1 3 false false (fun _ v => .ret v false), _, C01Conc.insertTrySec_sec c 1 3 false false _⟩] t m h hr
  obtain ⟨m', _, h2, _⟩ := this
  exact ⟨m', h2⟩

end Cuckoo.Props.C05Conc
