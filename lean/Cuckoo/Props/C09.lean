import Cuckoo.Props.C02
/-!
# C09 — locked_table iteration enumerates each element exactly once, in both directions

Iterators of a `locked_table` are positions `(bucket, slot)` of the current bucket array; `begin()` is the
first occupied position, `end()` is `(2^hp, 0)`.  The statements are about an arbitrary store of the right
size (every layout: sparse, full, elements only in the first/last slot of the first/last bucket) and any
slots-per-bucket `S > 0`.
-/
namespace Cuckoo.Props.C09
open Cuckoo Cuckoo.Model Cuckoo.Spec
variable {κ ν : Type}

/-- the occupied positions in index order: what an iteration is supposed to visit -/
def occupiedPositions (S : Nat) (st : Store κ ν) : List Pos :=
  ((List.range (2 ^ st.hp * S)).filter (fun i => (st.cells.getD i none).isSome)).map (fun i => (i / S, i % S))

/-- forward traversal visits exactly the occupied positions, each once, in index order, and then reaches `end()` -/
theorem forward_visits_occupied_in_order (S : Nat) (st : Store κ ν) (hS : 0 < S) (hsz : st.cells.size = 2 ^ st.hp * S) :
    st.traverse S = occupiedPositions S st := by
  sorry

/-- backward traversal from `end()` visits the same positions in exactly the reverse order -/
theorem backward_is_reverse (S : Nat) (st : Store κ ν) (hS : 0 < S) (hsz : st.cells.size = 2 ^ st.hp * S) :
    st.traverseBack S = (occupiedPositions S st).reverse := by
  sorry

/-- every visited position holds an element, and every element is visited -/
theorem visited_iff_occupied (S : Nat) (st : Store κ ν) (hS : 0 < S) (hsz : st.cells.size = 2 ^ st.hp * S) (b s : Nat) :
    (b, s) ∈ st.traverse S ↔ ∃ sl, st.get S b s = some sl := by
  sorry

/-- no position is visited twice -/
theorem traverse_nodup (S : Nat) (st : Store κ ν) (hS : 0 < S) (hsz : st.cells.size = 2 ^ st.hp * S) :
    (st.traverse S).Nodup := by
  sorry

/-- `begin() == end()` iff the table is empty -/
theorem begin_eq_end_iff_empty (S : Nat) (st : Store κ ν) (hS : 0 < S) (hsz : st.cells.size = 2 ^ st.hp * S) :
    st.itBegin S = st.endPos ↔ ∀ b s, st.get S b s = none := by
  sorry

/-- iteration of a locked table yields exactly the pairs of the abstract map -/
theorem iteration_matches_map [DecidableEq κ] (c : Cfg κ) (t : Table κ ν) (m : AMap κ ν) (h : Inv c t) (hr : Rel c t m)
    (hl : AllMig t) (k : κ) (v : ν) :
    (k, v) ∈ m ↔ ∃ p ∈ t.cur.traverse c.S, ∃ sl, t.cur.get c.S p.1 p.2 = some sl ∧ sl.key = k ∧ sl.val = v := by
  sorry

/-- and each key is met at exactly one visited position -/
theorem iteration_each_key_once [DecidableEq κ] (c : Cfg κ) (t : Table κ ν) (h : Inv c t) (p q : Pos)
    (hp : p ∈ t.cur.traverse c.S) (hq : q ∈ t.cur.traverse c.S) (sl sl' : Slot κ ν)
    (h1 : t.cur.get c.S p.1 p.2 = some sl) (h2 : t.cur.get c.S q.1 q.2 = some sl') (hk : sl.key = sl'.key) : p = q := by
  sorry

/-- `find` agrees with the map: it returns the position of the key, or `end()` -/
theorem ltFind_agrees [DecidableEq κ] (c : Cfg κ) (t : Table κ ν) (m : AMap κ ν) (k : κ) (h : Inv c t) (hr : Rel c t m)
    (hl : AllMig t) :
    match m.lookup k with
    | some v => ∃ sl, t.cur.get c.S (t.ltFind c k).1 (t.ltFind c k).2 = some sl ∧ sl.key = k ∧ sl.val = v
    | none => t.ltFind c k = t.cur.endPos := by
  sorry

/-- `erase(it)` removes exactly the element at `it`, returns the position of its successor in iteration order,
and changes no other cell (so every other iterator stays valid) -/
theorem ltEraseAt_spec [DecidableEq κ] (c : Cfg κ) (t : Table κ ν) (m : AMap κ ν) (p : Pos) (sl : Slot κ ν)
    (h : Inv c t) (hr : Rel c t m) (hl : AllMig t) (hget : t.cur.get c.S p.1 p.2 = some sl) :
    Inv c (t.ltEraseAt c p).1 ∧ AllMig (t.ltEraseAt c p).1 ∧ Rel c (t.ltEraseAt c p).1 (m.erase sl.key) ∧
    (t.ltEraseAt c p).2 = t.cur.itNext c.S p ∧
    (∀ b s, (b, s) ≠ p → (t.ltEraseAt c p).1.cur.get c.S b s = t.cur.get c.S b s) ∧
    (t.ltEraseAt c p).1.cur.get c.S p.1 p.2 = none := by
  sorry

end Cuckoo.Props.C09
