import Cuckoo.Props.C02
import Cuckoo.Proofs.Iter
/-!
# C09 — locked_table iteration enumerates each element exactly once, in both directions

Iterators of a `locked_table` are positions `(bucket, slot)` of the current bucket array; `begin()` is the
first occupied position, `end()` is `(2^hp, 0)`.  The statements are about an arbitrary store of the right
size (every layout: sparse, full, elements only in the first/last slot of the first/last bucket) and any
slots-per-bucket `S > 0`.
-/
namespace Cuckoo.Props.C09
open Cuckoo Cuckoo.Model Cuckoo.Spec
variable {κ ν : Type}

/-- the occupied positions in index order: what an iteration is supposed to visit -/
def occupiedPositions (S : Nat) (st : Store κ ν) : List Pos :=
  ((List.range (2 ^ st.hp * S)).filter (fun i => (st.cells.getD i none).isSome)).map (fun i => (i / S, i % S))

/-- forward traversal visits exactly the occupied positions, each once, in index order, and then reaches `end()` -/
theorem forward_visits_occupied_in_order (S : Nat) (st : Store κ ν) (hS : 0 < S) (hsz : st.cells.size = 2 ^ st.hp * S) :
    st.traverse S = occupiedPositions S st := by
  exact st.traverse_eq S hsz

/-- backward traversal from `end()` visits the same positions in exactly the reverse order -/
theorem backward_is_reverse (S : Nat) (st : Store κ ν) (hS : 0 < S) (hsz : st.cells.size = 2 ^ st.hp * S) :
    st.traverseBack S = (occupiedPositions S st).reverse := by
  exact st.traverseBack_eq S hsz

/-- every visited position holds an element, and every element is visited -/
theorem visited_iff_occupied (S : Nat) (st : Store κ ν) (hS : 0 < S) (hsz : st.cells.size = 2 ^ st.hp * S) (b s : Nat) :
    (b, s) ∈ st.traverse S ↔ ∃ sl, st.get S b s = some sl := by
  exact st.mem_traverse S hS hsz b s

/-- no position is visited twice -/
theorem traverse_nodup (S : Nat) (st : Store κ ν) (hS : 0 < S) (hsz : st.cells.size = 2 ^ st.hp * S) :
    (st.traverse S).Nodup := by
  exact st.traverse_nodup' S hsz

/-- `begin() == end()` iff the table is empty -/
theorem begin_eq_end_iff_empty (S : Nat) (st : Store κ ν) (hS : 0 < S) (hsz : st.cells.size = 2 ^ st.hp * S) :
    st.itBegin S = st.endPos ↔ ∀ b s, st.get S b s = none := by
  exact st.begin_eq_end_iff S hS hsz

/-- membership in the traversal of the current array of a well-formed table -/
private theorem st_mem (c : Cfg κ) (t : Table κ ν) (h : Inv c t) (b s : Nat) :
    (b, s) ∈ t.cur.traverse c.S ↔ ∃ sl, t.cur.get c.S b s = some sl :=
  Store.mem_traverse c.S t.cur h.S_pos h.cur_wf.size b s

/-- iteration of a locked table yields exactly the pairs of the abstract map -/
theorem iteration_matches_map [DecidableEq κ] (c : Cfg κ) (t : Table κ ν) (m : AMap κ ν) (h : Inv c t) (hr : Rel c t m)
    (hl : AllMig t) (k : κ) (v : ν) :
    (k, v) ∈ m ↔ ∃ p ∈ t.cur.traverse c.S, ∃ sl, t.cur.get c.S p.1 p.2 = some sl ∧ sl.key = k ∧ sl.val = v := by
  rw [hr.pairs k v]
  constructor
  · rintro ⟨tag, hlive⟩
    obtain ⟨b, s, hg⟩ := (live_iff_cur hl _).mp hlive
    exact ⟨(b, s), (st_mem c t h b s).mpr ⟨_, hg⟩, _, hg, rfl, rfl⟩
  · rintro ⟨p, _, sl, hg, rfl, rfl⟩
    exact ⟨sl.tag, (live_iff_cur hl _).mpr ⟨p.1, p.2, hg⟩⟩

/-- and each key is met at exactly one visited position -/
theorem iteration_each_key_once [DecidableEq κ] (c : Cfg κ) (t : Table κ ν) (h : Inv c t) (p q : Pos)
    (hp : p ∈ t.cur.traverse c.S) (hq : q ∈ t.cur.traverse c.S) (sl sl' : Slot κ ν)
    (h1 : t.cur.get c.S p.1 p.2 = some sl) (h2 : t.cur.get c.S q.1 q.2 = some sl') (hk : sl.key = sl'.key) : p = q := by
  have := h.uniq (.cur p.1 p.2) (.cur q.1 q.2) sl sl' h1 h2 hk
  injection this with e1 e2
  exact Prod.ext e1 e2

/-- `find` agrees with the map: it returns the position of the key, or `end()` -/
theorem ltFind_agrees [DecidableEq κ] (c : Cfg κ) (t : Table κ ν) (m : AMap κ ν) (k : κ) (h : Inv c t) (hr : Rel c t m)
    (hl : AllMig t) :
    match m.lookup k with
    | some v => ∃ sl, t.cur.get c.S (t.ltFind c k).1 (t.ltFind c k).2 = some sl ∧ sl.key = k ∧ sl.val = v
    | none => t.ltFind c k = t.cur.endPos := by
  have hloc : (t.locate c true k).2 = cuckooFind c t.cur (c.i1 t.hp k) (c.i2 t.hp k) k := rfl
  have cf := cuckooFind_spec c t k h (hl.unmigB _) (hl.unmigB _)
  unfold Table.ltFind
  rw [hloc]
  cases hlk : m.lookup k with
  | some v =>
    simp only
    obtain ⟨tag, p', hp'⟩ := (hr.pairs k v).mp ((AMap.lookup_eq_some_iff m hr.nodup k v).mp hlk)
    cases hcf : cuckooFind c t.cur (c.i1 t.hp k) (c.i2 t.hp k) k with
    | none =>
      rw [hcf] at cf
      exact absurd ⟨p', hp'⟩ (cf tag v)
    | some bs =>
      obtain ⟨b, s⟩ := bs
      rw [hcf] at cf
      obtain ⟨sl, hg, hk, _⟩ := cf
      simp only
      rw [Store.itAt_occ t.cur h.cur_wf.size hg]
      have hu := h.uniq (.cur b s) p' sl ⟨tag, k, v⟩ hg hp' hk
      subst hu
      have : sl = ⟨tag, k, v⟩ := Option.some.inj (hg.symm.trans hp')
      exact ⟨sl, hg, hk, by rw [this]⟩
  | none =>
    simp only
    cases hcf : cuckooFind c t.cur (c.i1 t.hp k) (c.i2 t.hp k) k with
    | none => rfl
    | some bs =>
      obtain ⟨b, s⟩ := bs
      rw [hcf] at cf
      obtain ⟨sl, hg, hk, _⟩ := cf
      have hmem : (k, sl.val) ∈ m := (hr.pairs k sl.val).mpr ⟨sl.tag, .cur b s, by rw [← hk]; exact hg⟩
      exact absurd hmem ((AMap.lookup_eq_none_iff m k).mp hlk sl.val)

/-- `erase(it)` removes exactly the element at `it`, returns the position of its successor in iteration order,
and changes no other cell (so every other iterator stays valid) -/
theorem ltEraseAt_spec [DecidableEq κ] (c : Cfg κ) (t : Table κ ν) (m : AMap κ ν) (p : Pos) (sl : Slot κ ν)
    (h : Inv c t) (hr : Rel c t m) (hl : AllMig t) (hget : t.cur.get c.S p.1 p.2 = some sl) :
    Inv c (t.ltEraseAt c p).1 ∧ AllMig (t.ltEraseAt c p).1 ∧ Rel c (t.ltEraseAt c p).1 (m.erase sl.key) ∧
    (t.ltEraseAt c p).2 = t.cur.itNext c.S p ∧
    (∀ b s, (b, s) ≠ p → (t.ltEraseAt c p).1.cur.get c.S b s = t.cur.get c.S b s) ∧
    (t.ltEraseAt c p).1.cur.get c.S p.1 p.2 = none := by
  obtain ⟨b, s⟩ := p
  have ⟨hs, hlt⟩ := Store.get_some_lt hget
  obtain ⟨d1, d2, d3, d4, _, _, _⟩ := delFrom_spec c t b s sl h hget
  have hmem : (sl.key, sl.val) ∈ m := (hr.pairs _ _).mpr ⟨sl.tag, .cur b s, hget⟩
  refine ⟨d1, d4.allmig hl, ⟨?_, AMap.nodup_erase m hr.nodup _, ?_⟩, ?_, ?_, ?_⟩
  · intro k v
    rw [AMap.mem_erase, hr.pairs k v]
    constructor
    · rintro ⟨⟨tag, hlive⟩, hne⟩
      exact ⟨tag, (d2 _).mpr ⟨hlive, hne⟩⟩
    · rintro ⟨tag, hlive⟩
      have := (d2 _).mp hlive
      exact ⟨⟨tag, this.1⟩, this.2⟩
  · show (t.delFrom c b s).sumCnt = _
    have hlen := AMap.length_erase_of_mem m hr.nodup sl.key sl.val hmem
    rw [d3, hr.count]
    omega
  · exact Store.itAt_set_none t.cur h.cur_wf.size hget
  · intro b' s' hne
    exact Store.get_set_other c.S t.cur b s b' s' none hs (fun hh => hne (by rw [hh.1, hh.2]))
  · exact Store.get_set_same c.S t.cur b s none hs hlt

/-! ### the remaining lookup members of the locked table: `count`, `at`, `equal_range`, `operator[]` -/

/-- a stored key is never found at `end()` -/
private theorem ltFind_ne_end [DecidableEq κ] (c : Cfg κ) (t : Table κ ν) (m : AMap κ ν) (k : κ) (v : ν) (h : Inv c t)
    (hr : Rel c t m) (hl : AllMig t) (hlk : m.lookup k = some v) :
    t.ltFind c k ≠ t.cur.endPos ∧ ∃ sl, t.cur.get c.S (t.ltFind c k).1 (t.ltFind c k).2 = some sl ∧ sl.key = k ∧ sl.val = v := by
  have hf := ltFind_agrees c t m k h hr hl
  rw [hlk] at hf
  obtain ⟨sl, hg, hk, hv⟩ := hf
  refine ⟨fun he => ?_, sl, hg, hk, hv⟩
  rw [he] at hg
  have := Store.get_some_bucket_lt h.cur_wf.size hg
  simp [Store.endPos] at this

/-- `count(key)` is 1 for a stored key and 0 otherwise -/
theorem ltCount_agrees [DecidableEq κ] (c : Cfg κ) (t : Table κ ν) (m : AMap κ ν) (k : κ) (h : Inv c t) (hr : Rel c t m)
    (hl : AllMig t) : t.ltCount c k = if (m.lookup k).isSome then 1 else 0 := by
  unfold Table.ltCount
  cases hlk : m.lookup k with
  | some v => simp [(ltFind_ne_end c t m k v h hr hl hlk).1]
  | none =>
    have hf := ltFind_agrees c t m k h hr hl
    rw [hlk] at hf
    simp [hf]

/-- `at(key)` returns the value stored under the key and throws `std::out_of_range` exactly when the key is absent -/
theorem ltAt_agrees [DecidableEq κ] (c : Cfg κ) (t : Table κ ν) (m : AMap κ ν) (k : κ) (h : Inv c t) (hr : Rel c t m)
    (hl : AllMig t) :
    t.ltAt c k = (match m.lookup k with | some v => .ok v | none => .err .outOfRange) := by
  unfold Table.ltAt
  cases hlk : m.lookup k with
  | some v =>
    obtain ⟨hne, sl, hg, _, hv⟩ := ltFind_ne_end c t m k v h hr hl hlk
    simp [hne, hg, hv]
  | none =>
    have hf := ltFind_agrees c t m k h hr hl
    rw [hlk] at hf
    simp [hf]

/-- `equal_range(key)`: for a stored key the half-open range `[find(key), successor)` — exactly that one element in
iteration order —, for an absent key the empty range `(end, end)` -/
theorem ltEqualRange_agrees [DecidableEq κ] (c : Cfg κ) (t : Table κ ν) (m : AMap κ ν) (k : κ) (h : Inv c t) (hr : Rel c t m)
    (hl : AllMig t) :
    match m.lookup k with
    | some _ => t.ltEqualRange c k = (t.ltFind c k, t.cur.itNext c.S (t.ltFind c k)) ∧ t.ltFind c k ≠ t.cur.endPos
    | none => t.ltEqualRange c k = (t.cur.endPos, t.cur.endPos) := by
  unfold Table.ltEqualRange
  cases hlk : m.lookup k with
  | some v =>
    have hne := (ltFind_ne_end c t m k v h hr hl hlk).1
    simp [hne]
  | none =>
    have hf := ltFind_agrees c t m k h hr hl
    rw [hlk] at hf
    simp [hf]

/-- `operator[](key)`: a reference to the value stored under the key, which is the old value if the key was there and
a freshly inserted default-constructed one otherwise (possibly after growing the table) -/
theorem ltIndex_agrees [DecidableEq κ] (c : Cfg κ) (t : Table κ ν) (m : AMap κ ν) (k : κ) (dflt : ν) (h : Inv c t)
    (hr : Rel c t m) (hl : AllMig t) :
    Inv c (t.ltIndex c k dflt).1 ∧ AllMig (t.ltIndex c k dflt).1 ∧
    match (t.ltIndex c k dflt).2 with
    | .err e => ResizeErr e ∧ Rel c (t.ltIndex c k dflt).1 m
    | .ok (p, inserted) =>
      inserted = (m.lookup k).isNone ∧
      Rel c (t.ltIndex c k dflt).1 (if inserted then m.add k dflt else m) ∧
      ∃ sl, (t.ltIndex c k dflt).1.cur.get c.S p.1 p.2 = some sl ∧ sl.key = k ∧
        sl.val = (match m.lookup k with | some old => old | none => dflt) :=
  C02.ltInsert_refines c t m k dflt h hr hl


/-! ### iteration order after `erase(it)` (session 5) -/

/-- erasing through an iterator removes exactly that position from the iteration order and keeps the relative
order of all the others: an `it = erase(it)` loop therefore visits every element exactly once -/
theorem traverse_after_erase (S : Nat) (st : Store κ ν) (hS : 0 < S) (hsz : st.cells.size = 2 ^ st.hp * S)
    (b s : Nat) (hs : s < S) :
    (st.set S b s none).traverse S = (st.traverse S).filter (fun p => decide (p ≠ (b, s))) := by
  have hsz' : (st.set S b s none).cells.size = 2 ^ (st.set S b s none).hp * S := by
    simp [Store.set, hsz]
  rw [Store.traverse_eq S _ hsz', Store.traverse_eq S st hsz, List.filter_map, List.filter_filter]
  have hhp : (st.set S b s none).hp = st.hp := rfl
  rw [hhp]
  congr 1
  apply List.filter_congr
  intro i hi
  have hi' : i < 2 ^ st.hp * S := List.mem_range.mp hi
  simp only [Store.occI, Store.set, Function.comp, posOf]
  by_cases e : i = b * S + s
  · subst e
    have h1 : (b * S + s) / S = b := by
      rw [Nat.mul_comm, Nat.mul_add_div hS, Nat.div_eq_of_lt hs]; omega
    have h2 : (b * S + s) % S = s := by
      rw [Nat.mul_comm, Nat.mul_add_mod, Nat.mod_eq_of_lt hs]
    simp [Array.getD_eq_getD_getElem?, h1, h2]
  · have hne : (i / S, i % S) ≠ (b, s) := by
      intro hh
      have h1 : i / S = b := congrArg Prod.fst hh
      have h2 : i % S = s := congrArg Prod.snd hh
      apply e
      have := Nat.div_add_mod i S
      rw [h1, h2] at this
      rw [← this, Nat.mul_comm]
    simp [Array.getD_eq_getD_getElem?, Array.getElem?_setIfInBounds_ne (Ne.symm e), hne]

/-- the same for the table operation: after `erase(it)` the iteration visits exactly the former sequence without `it`,
in the same relative order, and the returned iterator is a member of it or `end()` (`ltEraseAt_spec`) -/
theorem ltEraseAt_iteration [DecidableEq κ] (c : Cfg κ) (t : Table κ ν) (p : Pos) (sl : Slot κ ν)
    (h : Inv c t) (hget : t.cur.get c.S p.1 p.2 = some sl) :
    (t.ltEraseAt c p).1.cur.traverse c.S = (t.cur.traverse c.S).filter (fun q => decide (q ≠ p)) := by
  obtain ⟨b, s⟩ := p
  have ⟨hs, _⟩ := Store.get_some_lt hget
  exact traverse_after_erase c.S t.cur h.S_pos h.cur_wf.size b s hs

/-- removing the one occurrence of `p` from a duplicate-free list shortens it by one -/
private theorem len_filter_ne (l : List Pos) (p : Pos) (hm : p ∈ l) (hnd : l.Nodup) :
    (l.filter (fun q => decide (q ≠ p))).length + 1 = l.length := by
  induction l with
  | nil => cases hm
  | cons a l ih =>
    rw [List.nodup_cons] at hnd
    by_cases e : a = p
    · subst e
      have hself : l.filter (fun q => decide (q ≠ a)) = l := by
        apply List.filter_eq_self.mpr
        intro q hq
        exact decide_eq_true (fun hh => hnd.1 (hh ▸ hq))
      rw [show List.filter (fun q => decide (q ≠ a)) (a :: l) = List.filter (fun q => decide (q ≠ a)) l by simp [List.filter_cons],
        hself, List.length_cons]
    · have hm2 : p ∈ l := by
        cases hm with
        | head => exact absurd rfl e
        | tail _ hm => exact hm
      have := ih hm2 hnd.2
      simp [List.filter_cons, e] at this ⊢
      omega

/-- consequence: an erase shortens the iteration by exactly one -/
theorem ltEraseAt_iteration_length [DecidableEq κ] (c : Cfg κ) (t : Table κ ν) (p : Pos) (sl : Slot κ ν)
    (h : Inv c t) (hget : t.cur.get c.S p.1 p.2 = some sl) :
    ((t.ltEraseAt c p).1.cur.traverse c.S).length + 1 = (t.cur.traverse c.S).length := by
  rw [ltEraseAt_iteration c t p sl h hget]
  have hmem : p ∈ t.cur.traverse c.S :=
    (Store.mem_traverse c.S t.cur h.S_pos h.cur_wf.size p.1 p.2).mpr ⟨sl, hget⟩
  have hnd : (t.cur.traverse c.S).Nodup := Store.traverse_nodup' c.S t.cur h.cur_wf.size
  exact len_filter_ne _ p hmem hnd

/-! ### the erase-while-iterating loop -/

/-- the idiom `for (it = lt.begin(); it != lt.end(); ) it = lt.erase(it);` with a step budget -/
def eraseAll (c : Cfg κ) : Nat → Table κ ν → Table κ ν
  | 0, t => t
  | n + 1, t =>
    if t.cur.itBegin c.S = t.cur.endPos then t
    else eraseAll c n (t.ltEraseAt c (t.cur.itBegin c.S)).1

/-- `begin()` of a non-empty table is an occupied position -/
theorem begin_occupied (S : Nat) (st : Store κ ν) (hS : 0 < S) (hne : st.itBegin S ≠ st.endPos) :
    ∃ sl, st.get S (st.itBegin S).1 (st.itBegin S).2 = some sl := by
  rw [Store.itBegin_eq] at hne ⊢
  rcases st.firstFrom_spec S 0 with ⟨he, _⟩ | ⟨j, _, _, ho, _, hf⟩
  · exact absurd he hne
  · rw [hf, Store.get_posOf st hS j]
    unfold Store.occI at ho
    exact Option.isSome_iff_exists.mp ho

/-- the erase loop terminates within `size` steps with an empty, well-formed table: every element is erased exactly once
(each step removes exactly the visited position, `ltEraseAt_iteration`) -/
theorem erase_loop_empties [DecidableEq κ] (c : Cfg κ) (n : Nat) (t : Table κ ν) (h : Inv c t)
    (hn : (t.cur.traverse c.S).length ≤ n) :
    Inv c (eraseAll c n t) ∧ (eraseAll c n t).cur.traverse c.S = [] := by
  induction n generalizing t with
  | zero => exact ⟨h, List.eq_nil_of_length_eq_zero (Nat.le_zero.mp hn)⟩
  | succ n ih =>
    unfold eraseAll
    split
    · rename_i heq
      refine ⟨h, List.eq_nil_iff_forall_not_mem.mpr ?_⟩
      intro p hp
      obtain ⟨sl, hg⟩ := (Store.mem_traverse c.S t.cur h.S_pos h.cur_wf.size p.1 p.2).mp hp
      have := (Store.begin_eq_end_iff c.S t.cur h.S_pos h.cur_wf.size).mp heq p.1 p.2
      rw [this] at hg
      cases hg
    · rename_i hne
      obtain ⟨sl, hg⟩ := begin_occupied c.S t.cur h.S_pos hne
      have hinv : Inv c (t.ltEraseAt c (t.cur.itBegin c.S)).1 := (delFrom_spec c t _ _ sl h hg).1
      have hlen := ltEraseAt_iteration_length c t (t.cur.itBegin c.S) sl h hg
      exact ih _ hinv (by omega)

/-- a fully migrated table whose iteration is empty represents the empty map -/
theorem map_empty_of_no_iteration [DecidableEq κ] (c : Cfg κ) (t : Table κ ν) (m : AMap κ ν) (h : Inv c t) (hr : Rel c t m)
    (hl : AllMig t) (he : t.cur.traverse c.S = []) : m = [] := by
  apply List.eq_nil_iff_forall_not_mem.mpr
  rintro ⟨k, v⟩ hm
  obtain ⟨p, hp, _⟩ := (iteration_matches_map c t m h hr hl k v).mp hm
  rw [he] at hp
  cases hp

/-- the erase loop, seen through the abstraction: it ends with the empty map -/
theorem erase_loop_map_empty [DecidableEq κ] (c : Cfg κ) (n : Nat) (t : Table κ ν) (m : AMap κ ν) (h : Inv c t)
    (hr : Rel c t m) (hl : AllMig t) (hn : (t.cur.traverse c.S).length ≤ n) :
    Rel c (eraseAll c n t) [] ∧ AllMig (eraseAll c n t) := by
  induction n generalizing t m with
  | zero =>
    have he : t.cur.traverse c.S = [] := List.eq_nil_of_length_eq_zero (Nat.le_zero.mp hn)
    have := map_empty_of_no_iteration c t m h hr hl he
    subst this
    exact ⟨hr, hl⟩
  | succ n ih =>
    unfold eraseAll
    split
    · rename_i heq
      have he : t.cur.traverse c.S = [] := by
        apply List.eq_nil_iff_forall_not_mem.mpr
        intro p hp
        obtain ⟨sl, hg⟩ := (Store.mem_traverse c.S t.cur h.S_pos h.cur_wf.size p.1 p.2).mp hp
        have := (Store.begin_eq_end_iff c.S t.cur h.S_pos h.cur_wf.size).mp heq p.1 p.2
        rw [this] at hg
        cases hg
      have := map_empty_of_no_iteration c t m h hr hl he
      subst this
      exact ⟨hr, hl⟩
    · rename_i hne
      obtain ⟨sl, hg⟩ := begin_occupied c.S t.cur h.S_pos hne
      obtain ⟨hinv, hl', hr', _⟩ := ltEraseAt_spec c t m (t.cur.itBegin c.S) sl h hr hl hg
      have hlen := ltEraseAt_iteration_length c t (t.cur.itBegin c.S) sl h hg
      exact ih _ _ hinv hr' hl' (by omega)
end Cuckoo.Props.C09
