import Cuckoo.Model.Sched
import Cuckoo.Proofs.SchedAux5
/-!
# C01 (link between the two models) — a sequential operation is one particular schedule of critical sections

`Model/Core … Ops` is the sequential replica that the differential harness (K2) compares with the C++ table cell by
cell; `Model/Conc` cuts the concurrent operations into atomic critical sections and `Props/C01Conc` proves every
interleaving of such sections linearizable.  Here the two developments are tied together: for every operation the
sequential replica **is** the run (`Conc.exec`) of a list of sections of `Model/Conc`, with the same final table and
the same answer — so the sections of the concurrent model are exactly the pieces of the K2-validated replica.

* `fnOp_is_lookupSec`, `rehash_is_rehashSec`, `reserve_is_reserveSec`, `clear_is_clearSec`: the one-section operations.
* `uprase_is_schedule`: `Table.uprase c false` (insert / insert_or_assign / upsert / uprase_fn) is the run of
  `Sched.upraseSched`, the list computed by mirroring the recursion of the sequential code:
  `insertTrySec`; per attempt of `run_cuckoo` one `lockSec [b]` per bucket dequeued by the BFS, one `lockSec [b]` per
  record read by `cuckoopath_search`, a `hopSec` per hop but the last and an `insertLastSec` for the last hop (which
  in the concurrent model also carries the duplicate re-check, `add_to_bucket` and the functor); after a failed hop the
  next attempt; if the BFS finds nothing `doubleSec`, and the whole insertion again on the grown table.
  Every response but the last is `none`; the last one is the answer of `uprase` (`.bool r.res r.calls`; for a refused
  or failed expansion `r.calls = []`, which is how `doubleSec` reports it).
  The statement holds for **every** table (no invariant), for every run in which the model's fuel does not run out
  (`hne`; the `.fuel` outcomes of the replica have no counterpart in the concurrent model).
  What makes the two formulations agree (the substance of the proof, `Proofs/SchedAux1-4`): lazy migration and hops change
  neither hashpower nor resize counter, so the snapshot `(t.hp, t.rc)` stays `valid`; the paths `buildPath` decodes from
  a `slotSearch` result start in `i1` or `i2`, have slots `< S` and consecutive buckets that are alternates under the
  recorded hashes, so the additional checks of `hopSec` / `insertLastSec` pass; the tail of `uprase` is `finishInsert`.
* `slotSearch_is_lockSecs`, `buildPath_is_lockSecs`, `pathMove_is_hops`: the pieces of one attempt.
* `uprase_no_displacement`: without displacement the schedule is the single section `insertTrySec`.
* `seq_uprase_linearizable_instance`: `C01Conc.conc_linearizable` instantiated with this schedule re-derives that the
  sequential operation refines the abstract map (the two developments meet).
* two concrete schedules evaluated by the kernel.
-/
namespace Cuckoo.Props.C01Sched
open Cuckoo Cuckoo.Model Cuckoo.Model.Conc Cuckoo.Model.Sched Cuckoo.Model.SchedA Cuckoo.Props.C01Conc Cuckoo.Spec
variable {κ ν : Type} [DecidableEq κ]

/-! ### the one-section operations -/

/-- find_fn / update_fn / erase_fn -/
theorem fnOp_is_lookupSec (c : Cfg κ) (ce : Bool) (k : κ) (fn : ν → FnOut ν) (t : Table κ ν) :
    lookupSec c ce k fn t =
      ((t.fnOp c ce k fn).1, some (.bool (t.fnOp c ce k fn).2.res (t.fnOp c ce k fn).2.calls)) := rfl

theorem rehash_is_rehashSec (c : Cfg κ) (n : Nat) (t : Table κ ν) :
    rehashSec c n t = ((t.rehash c false n).1, some .unit) := rfl

theorem reserve_is_reserveSec (c : Cfg κ) (n : Nat) (t : Table κ ν) :
    reserveSec c n t = ((t.reserve c false n).1, some .unit) := rfl

omit [DecidableEq κ] in
theorem clear_is_clearSec (c : Cfg κ) (t : Table κ ν) : clearSec c t = (t.clear c, some .unit) := rfl

/-- as schedules: the run of the one-element list -/
theorem fnOp_is_schedule (c : Cfg κ) (ce : Bool) (k : κ) (fn : ν → FnOut ν) (t : Table κ ν) :
    exec t [lookupSec c ce k fn] =
      ((t.fnOp c ce k fn).1, [some (.bool (t.fnOp c ce k fn).2.res (t.fnOp c ce k fn).2.calls)]) := rfl

theorem rehash_is_schedule (c : Cfg κ) (n : Nat) (t : Table κ ν) :
    exec t [rehashSec c n] = ((t.rehash c false n).1, [some .unit]) := rfl

theorem reserve_is_schedule (c : Cfg κ) (n : Nat) (t : Table κ ν) :
    exec t [reserveSec c n] = ((t.reserve c false n).1, [some .unit]) := rfl

omit [DecidableEq κ] in
theorem clear_is_schedule (c : Cfg κ) (t : Table κ ν) : exec t [clearSec c] = (t.clear c, [some .unit]) := rfl

/-! ### the pieces of one attempt of `run_cuckoo` -/

omit [DecidableEq κ] in
/-- `slot_search` is a run of `lock_one` sections, one per dequeued bucket, all internal -/
theorem slotSearch_is_lockSecs (c : Cfg κ) (hp : Nat) (t : Table κ ν) (i1 i2 : Nat) :
    exec t (slotSearchSched c hp (maxCuckooCount c.S + 1) t #[⟨i1, 0, 0⟩, ⟨i2, 1, 0⟩] 0) =
      ((slotSearch c false hp t i1 i2).1,
       List.replicate (slotSearchSched c hp (maxCuckooCount c.S + 1) t #[⟨i1, 0, 0⟩, ⟨i2, 1, 0⟩] 0).length none) ∧
    ∀ f ∈ slotSearchSched c hp (maxCuckooCount c.S + 1) t #[⟨i1, 0, 0⟩, ⟨i2, 1, 0⟩] 0, ∃ b, f = lockSec c [b] :=
  ⟨(slotSearch_quiet c hp t i1 i2).eq, slotSearchSched_locks c hp _ t _ _⟩

/-- `cuckoopath_search` is a run of `lock_one` sections, one per record read, all internal -/
theorem buildPath_is_lockSecs (c : Cfg κ) (hp : Nat) (t : Table κ ν) (i1 i2 : Nat) (x : BSlot) :
    exec t (buildPathSched c hp t i1 i2 x) =
      ((buildPath c false hp t i1 i2 x).1, List.replicate (buildPathSched c hp t i1 i2 x).length none) ∧
    ∀ f ∈ buildPathSched c hp t i1 i2 x, ∃ b, f = lockSec c [b] :=
  ⟨(buildPath_quiet c hp t i1 i2 x).eq, buildPathSchedGo_locks c hp _ t _⟩

/-- `cuckoopath_move` on a well-shaped path, with a current snapshot `(hp, rc)`: if a hop fails the hops are a silent
run ending in the table `pathMove` returns; if all succeed, the run's last section (`insertLastSec`) also does the
re-check, `add_to_bucket` and the functor (`tailOf`), and answers -/
theorem pathMove_is_hops (c : Cfg κ) (k : κ) (v : ν) (ca me : Bool) (fn : Ctx → ν → FnOut ν) (t : Table κ ν)
    (path : List PathRec) (hok : PathOK c t.hp path)
    (hhead : ∀ p0, path.head? = some p0 → p0.bucket = c.i1 t.hp k ∨ p0.bucket = c.i2 t.hp k) :
    ((pathMove c false t (c.i1 t.hp k) (c.i2 t.hp k) path).2 = false →
      exec t (pathMoveSched c k v ca me fn t.hp t.rc t path) =
        ((pathMove c false t (c.i1 t.hp k) (c.i2 t.hp k) path).1,
         List.replicate (pathMoveSched c k v ca me fn t.hp t.rc t path).length none)) ∧
    (∀ p0, path.head? = some p0 → (pathMove c false t (c.i1 t.hp k) (c.i2 t.hp k) path).2 = true →
      exec t (pathMoveSched c k v ca me fn t.hp t.rc t path) =
        ((tailOf c k v ca me fn t.hp (pathMove c false t (c.i1 t.hp k) (c.i2 t.hp k) path).1 p0).1,
         List.replicate ((pathMoveSched c k v ca me fn t.hp t.rc t path).length - 1) none ++
           [some (tailOf c k v ca me fn t.hp (pathMove c false t (c.i1 t.hp k) (c.i2 t.hp k) path).1 p0).2])) := by
  obtain ⟨_, h2, h3⟩ := pathMove_sched c k v ca me fn t.hp t.rc t path ⟨rfl, rfl⟩ hok hhead
  exact ⟨fun e => (h2 e).eq, fun p0 e0 e => (h3 p0 e0 e).eq⟩

/-- the paths handed to `cuckoopath_move` are well shaped: for a `slot_search` result `x`, the decoded path starts in
`i1` or `i2`, its slots are `< S` and consecutive buckets are alternates under the recorded hashes (every table) -/
theorem buildPath_path_ok (c : Cfg κ) (hp : Nat) (t t1 : Table κ ν) (i1 i2 : Nat) (x : BSlot)
    (hx : (slotSearch c false hp t i1 i2).2 = some x) :
    PathOK c hp (buildPath c false hp t1 i1 i2 x).2 ∧
    ∀ p0, (buildPath c false hp t1 i1 i2 x).2.head? = some p0 → p0.bucket = i1 ∨ p0.bucket = i2 :=
  buildPath_path c hp t1 i1 i2 x (slotSearch_some_pos c hp t i1 i2 x hx)

/-! ### the inserting family -/

/-- `run_cuckoo` with a current snapshot `(hp, rc)`, followed by what `cuckoo_insert_loop` and `uprase_fn` do with its
outcome (`afterCuckoo`, `fin`): the attempts (lock_one sections, hops), closed either by `insertLastSec` or by `doubleSec`
and — if the expansion succeeded — the schedule `restart` of the insertion on the grown table -/
theorem runCuckoo_is_schedule (c : Cfg κ) (k : κ) (v : ν) (ca me : Bool) (fn : Ctx → ν → FnOut ν) (hp rc dfuel : Nat)
    (restart : Table κ ν → List (Section κ ν))
    (hrestart : ∀ t2, (insertLoop c false dfuel t2 k).2 ≠ .err .fuel →
      exec t2 (restart t2) =
        ((fin c k v ca me fn (insertLoop c false dfuel t2 k)).1,
         List.replicate ((restart t2).length - 1) none ++ [some (fin c k v ca me fn (insertLoop c false dfuel t2 k)).2]))
    (fuel : Nat) (t : Table κ ν) (hhp : t.hp = hp) (hrc : t.rc = rc)
    (hne : (afterCuckoo c k dfuel hp (runCuckoo.go c false (c.i1 hp k) (c.i2 hp k) hp fuel t)).2 ≠ .err .fuel) :
    exec t (cuckooSched c k v ca me fn hp rc dfuel restart fuel t) =
      ((fin c k v ca me fn (afterCuckoo c k dfuel hp (runCuckoo.go c false (c.i1 hp k) (c.i2 hp k) hp fuel t))).1,
       List.replicate ((cuckooSched c k v ca me fn hp rc dfuel restart fuel t).length - 1) none ++
         [some (fin c k v ca me fn (afterCuckoo c k dfuel hp (runCuckoo.go c false (c.i1 hp k) (c.i2 hp k) hp fuel t))).2]) :=
  (cuckoo_sched c k v ca me fn hp rc dfuel restart (fun t2 h2 => ⟨_, hrestart t2 h2⟩) fuel t ⟨hhp, hrc⟩ hne).eq

/-- the insertion loop with the tail of `uprase_fn` (`fin`), for every fuel -/
theorem insertLoop_is_schedule (c : Cfg κ) (k : κ) (v : ν) (ca me : Bool) (fn : Ctx → ν → FnOut ν) (fuel : Nat)
    (t : Table κ ν) (hne : (insertLoop c false fuel t k).2 ≠ .err .fuel) :
    exec t (insSched c k v ca me fn fuel t) =
      ((fin c k v ca me fn (insertLoop c false fuel t k)).1,
       List.replicate ((insSched c k v ca me fn fuel t).length - 1) none ++
         [some (fin c k v ca me fn (insertLoop c false fuel t k)).2]) :=
  (ins_sched c k v ca me fn fuel t hne).eq

/-- **the sequential `uprase_fn` is the run of its schedule**: same final table; every response but the last is `none`;
the last is the operation's answer -/
theorem uprase_is_schedule (c : Cfg κ) (t : Table κ ν) (k : κ) (v : ν) (ca me : Bool) (fn : Ctx → ν → FnOut ν)
    (hne : (t.uprase c false k v ca me fn).2.1.res ≠ .err .fuel) :
    exec t (upraseSched c t k v ca me fn) =
      ((t.uprase c false k v ca me fn).1,
       List.replicate ((upraseSched c t k v ca me fn).length - 1) none ++
         [some (.bool (t.uprase c false k v ca me fn).2.1.res (t.uprase c false k v ca me fn).2.1.calls)]) := by
  obtain ⟨e1, e2⟩ := uprase_eq_fin c k v ca me fn t
  rw [e1, e2]
  exact insertLoop_is_schedule c k v ca me fn _ t (uprase_res_fuel c k v ca me fn t hne)

/-- the three parts of `uprase_is_schedule` separately -/
theorem uprase_schedule_table (c : Cfg κ) (t : Table κ ν) (k : κ) (v : ν) (ca me : Bool) (fn : Ctx → ν → FnOut ν)
    (hne : (t.uprase c false k v ca me fn).2.1.res ≠ .err .fuel) :
    (exec t (upraseSched c t k v ca me fn)).1 = (t.uprase c false k v ca me fn).1 := by
  rw [uprase_is_schedule c t k v ca me fn hne]

theorem uprase_schedule_last (c : Cfg κ) (t : Table κ ν) (k : κ) (v : ν) (ca me : Bool) (fn : Ctx → ν → FnOut ν)
    (hne : (t.uprase c false k v ca me fn).2.1.res ≠ .err .fuel) :
    (exec t (upraseSched c t k v ca me fn)).2.getLast? =
      some (some (.bool (t.uprase c false k v ca me fn).2.1.res (t.uprase c false k v ca me fn).2.1.calls)) := by
  rw [uprase_is_schedule c t k v ca me fn hne]
  simp only [List.getLast?_append, List.getLast?_singleton, Option.some_or]

theorem uprase_schedule_internal (c : Cfg κ) (t : Table κ ν) (k : κ) (v : ν) (ca me : Bool) (fn : Ctx → ν → FnOut ν)
    (hne : (t.uprase c false k v ca me fn).2.1.res ≠ .err .fuel) :
    ∀ r ∈ (exec t (upraseSched c t k v ca me fn)).2.dropLast, r = none := by
  rw [uprase_is_schedule c t k v ca me fn hne]
  simp only [List.dropLast_concat]
  intro r hr
  exact (List.mem_replicate.mp hr).2

/-- an expansion refused or failed ends the call with the exception and no functor call: what `doubleSec` reports -/
theorem uprase_schedule_last_err (c : Cfg κ) (t : Table κ ν) (k : κ) (v : ν) (ca me : Bool) (fn : Ctx → ν → FnOut ν)
    (e : Err) (he : (insertLoop c false (c.fuel t.cur.cells.size) t k).2 = .err e) (hne : e ≠ .fuel) :
    (exec t (upraseSched c t k v ca me fn)).2.getLast? = some (some (.bool (.err e) [])) := by
  have hu : (t.uprase c false k v ca me fn).2.1 = { res := .err e } := by
    unfold Table.uprase
    generalize insertLoop c false (c.fuel t.cur.cells.size) t k = r at he
    obtain ⟨t1, pos | e'⟩ := r
    · cases he
    · cases he; rfl
  have hne2 : (t.uprase c false k v ca me fn).2.1.res ≠ .err .fuel := by
    rw [hu]; intro h; cases h; exact hne rfl
  rw [uprase_schedule_last c t k v ca me fn hne2, hu]

/-- without displacement (the first two bucket scans find the key or a free slot) the schedule is the single section
`insertTrySec`, which yields the final table and the answer -/
theorem uprase_no_displacement (c : Cfg κ) (t : Table κ ν) (k : κ) (v : ν) (ca me : Bool) (fn : Ctx → ν → FnOut ν)
    (p : InsPos)
    (hp : tryInsert c (t.lockTwo c (c.i1 t.hp k) (c.i2 t.hp k)).cur (c.i1 t.hp k) (c.i2 t.hp k) k = .pos p) :
    upraseSched c t k v ca me fn = [insertTrySec c k v ca me fn] ∧
    insertTrySec c k v ca me fn t =
      ((t.uprase c false k v ca me fn).1,
       some (.bool (t.uprase c false k v ca me fn).2.1.res (t.uprase c false k v ca me fn).2.1.calls)) := by
  have hf : c.fuel t.cur.cells.size = (4 * (c.hpLimit + 2) + 7) + 1 := rfl
  obtain ⟨e1, e2⟩ := uprase_eq_fin c k v ca me fn t
  constructor
  · unfold upraseSched
    rw [hf]
    simp only [insSched, hp]
  · rw [e1, e2, hf, insertLoop_succ]
    unfold insertTrySec
    simp only [hp]
    rfl

/-! ### the two developments meet -/

/-- every section of the schedule is a legitimate section of the call (`C01Conc.SecOf`) -/
theorem upraseSched_legitimate (c : Cfg κ) (t : Table κ ν) (k : κ) (v : ν) (ca me : Bool) (fn : Ctx → ν → FnOut ν) :
    ∀ f ∈ upraseSched c t k v ca me fn, SecOf c (.uprase k v ca me fn) f :=
  insSched_all c k v ca me fn _ t

/-- `conc_linearizable` instantiated with the schedule of the sequential operation: the sequential `uprase_fn` preserves
the invariant and transforms the abstract map and answers as the specification of the call says — the statement of
`C02.uprase_refines` (normal mode), obtained here through the concurrent development -/
theorem seq_uprase_linearizable_instance (c : Cfg κ) (t : Table κ ν) (m : AMap κ ν) (k : κ) (v : ν) (ca me : Bool)
    (fn : Ctx → ν → FnOut ν) (h : Inv c t) (hr : Rel c t m)
    (hne : (t.uprase c false k v ca me fn).2.1.res ≠ .err .fuel) :
    ∃ m', specOf m (.uprase k v ca me fn)
        (.bool (t.uprase c false k v ca me fn).2.1.res (t.uprase c false k v ca me fn).2.1.calls) m' ∧
      Inv c (t.uprase c false k v ca me fn).1 ∧ Rel c (t.uprase c false k v ca me fn).1 m' := by
  have hall : AllSec c (.uprase k v ca me fn) (upraseSched c t k v ca me fn) := upraseSched_legitimate c t k v ca me fn
  have hs := uprase_is_schedule c t k v ca me fn hne
  obtain ⟨m', l1, l2, l3⟩ := conc_linearizable c (mkEvs c (.uprase k v ca me fn) _ hall) t m h hr
  rw [mkEvs_f, hs] at l2 l3
  rw [mkEvs_f, mkEvs_call, hs] at l1
  have hlen : (upraseSched c t k v ca me fn).length = ((upraseSched c t k v ca me fn).length - 1) + 1 := by
    have := exec_length t (upraseSched c t k v ca me fn)
    rw [hs] at this
    simp only [List.length_append, List.length_replicate, List.length_cons, List.length_nil] at this
    omega
  rw [hlen] at l1
  simp only [Nat.add_sub_cancel] at l1
  exact ⟨m', linRun_single _ _ _ m m' l1, l2, l3⟩

/-! ### two concrete schedules, evaluated by the kernel -/

namespace Ex
/-- one slot per bucket, four stripes, an arbitrary hash -/
def cE : Cfg Nat := ⟨1, 4, fun k => k * 37 + 5, false, true, 6⟩
def fnE : Ctx → Nat → FnOut Nat := fun _ v => .ret v false
def ins (t : Table Nat Nat) (k : Nat) : Table Nat Nat := (t.uprase cE false k (k + 100) false false fnE).1
def keysOf (t : Table Nat Nat) : List (Option Nat) := t.cur.cells.toList.map (·.map (·.key))
def shape (r : Option (Resp Nat)) : Option (Option Bool × Option Err × Nat) :=
  r.map fun
    | .bool (.ok b) calls => (some b, none, calls.length)
    | .bool (.err e) calls => (none, some e, calls.length)
    | .unit => (none, none, 0)

/-- eight buckets, six of them occupied -/
def tE : Table Nat Nat := [0, 3, 6, 9, 12, 15].foldl ins (Table.init cE 8)
/-- four buckets, all occupied, `maximum_hashpower(2)` -/
def tF : Table Nat Nat := { ([0, 1, 2, 3].foldl ins (Table.init cE 4)) with mhp := 2 }

example : keysOf tE = [some 15, some 12, some 9, some 6, some 3, some 0, none, none] := by decide +kernel

/-- inserting 59 displaces 0 and 6 (a path of depth 2): twelve sections — `insertTrySec`, lock_one sections of the BFS
and of the path decoding, one `hopSec`, and `insertLastSec` which answers `true` -/
example : (upraseSched cE tE 59 159 false false fnE).length = 12 := by decide +kernel
example : keysOf (exec tE (upraseSched cE tE 59 159 false false fnE)).1 =
    [some 15, some 12, some 9, some 0, some 3, some 59, none, some 6] := by decide +kernel
example : keysOf (tE.uprase cE false 59 159 false false fnE).1 =
    [some 15, some 12, some 9, some 0, some 3, some 59, none, some 6] := by decide +kernel
example : (exec tE (upraseSched cE tE 59 159 false false fnE)).2.map shape =
    List.replicate 11 none ++ [some (some true, none, 0)] := by decide +kernel

/-- inserting into the full table whose hashpower may not grow: the BFS finds nothing, the last section is `doubleSec`,
which answers with `maximum_hashpower_exceeded`; the table keeps its contents -/
example : (exec tF (upraseSched cE tF 4 104 false false fnE)).2.map shape =
    List.replicate 11 none ++ [some (none, some .maxHpExceeded, 0)] := by decide +kernel
example : keysOf (exec tF (upraseSched cE tF 4 104 false false fnE)).1 = [some 3, some 0, some 1, some 2] := by
  decide +kernel
example : keysOf (tF.uprase cE false 4 104 false false fnE).1 = [some 3, some 0, some 1, some 2] := by decide +kernel

end Ex

end Cuckoo.Props.C01Sched
