import Cuckoo.Props.C02
import Cuckoo.Proofs.C10Aux
/-!
# C10 — resize limits and explicit resize requests are honoured exactly

Decision logic of the setters and of `check_resize_validity`, stated on the executable model
(`Cuckoo/Model`), whose correspondence with `/repo` is checked by K2 on every run.
The reachable-state statements (`hashpower() ≤ maximum_hashpower()` after any operation sequence, contents
unchanged by rehash/reserve whatever their outcome) follow from the refinement theorem of C02.
-/
namespace Cuckoo.Props.C10
open Cuckoo Cuckoo.Model
variable {κ ν : Type}

/-- a minimum load factor outside [0,1] is rejected with `invalid_argument` and has no effect -/
theorem setMlf_rejects (t : Table κ ν) (x : Float) (h : (x < 0.0) = true ∨ (x > 1.0) = true) :
    t.setMlf x = (t, .err .invalidArg) := by
  unfold Table.setMlf
  rcases h with h | h
  · simp [h]
  · by_cases h0 : x < 0.0 <;> simp [h0, h]

/-- an in-domain minimum load factor is stored and nothing else changes -/
theorem setMlf_accepts (t : Table κ ν) (x : Float) (h0 : (x < 0.0) = false) (h1 : (x > 1.0) = false) :
    t.setMlf x = ({ t with mlf := x }, .ok ()) := by
  unfold Table.setMlf; simp [h0, h1]

/-- a maximum below the current hashpower is rejected with `invalid_argument` and has no effect -/
theorem setMhp_rejects (t : Table κ ν) (m : Nat) (h : m < t.hp) : t.setMhp m = (t, .err .invalidArg) := by
  unfold Table.setMhp; simp [h]

theorem setMhp_accepts (t : Table κ ν) (m : Nat) (h : t.hp ≤ m) :
    t.setMhp m = ({ t with mhp := m }, .ok ()) := by
  unfold Table.setMhp
  have : ¬ t.hp > m := by omega
  simp [this]

/-- an accepted maximum keeps the invariant clause `hp ≤ mhp` -/
theorem setMhp_limit (t : Table κ ν) (m : Nat) (t' : Table κ ν) (h : t.setMhp m = (t', .ok ())) :
    t'.mhp = m ∧ t'.hp ≤ t'.mhp := by
  unfold Table.setMhp at h
  split at h
  · simp at h
  · rename_i hle
    have : t' = { t with mhp := m } := by
      have := congrArg Prod.fst h; simpa using this.symm
    subst this
    exact ⟨rfl, by simp [Table.hp] at *; omega⟩

/-- `check_resize_validity`: a resize beyond a configured maximum is refused with
`maximum_hashpower_exceeded`, whatever the kind of resize -/
theorem checkResize_maxhp (c : Cfg κ) (t : Table κ ν) (auto : Bool) (newHp : Nat)
    (hm : t.mhp ≠ noMaxHp) (h : t.mhp < newHp) : t.checkResize c auto newHp = some .maxHpExceeded := by
  unfold Table.checkResize
  simp [hm, h]

/-- an *automatic* expansion below the minimum load factor is refused with `load_factor_too_low` -/
theorem checkResize_lftl (c : Cfg κ) (t : Table κ ν) (newHp : Nat)
    (hm : t.mhp = noMaxHp ∨ newHp ≤ t.mhp) (hl : t.lfBelow c = true) :
    t.checkResize c true newHp = some .loadFactorTooLow := by
  unfold Table.checkResize
  have : ¬ (t.mhp ≠ noMaxHp ∧ newHp > t.mhp) := by
    rintro ⟨h1, h2⟩
    rcases hm with h | h
    · exact h1 h
    · omega
  simp [this, hl]

/-- an *explicit* resize never consults the load factor -/
theorem checkResize_manual_never_lftl (c : Cfg κ) (t : Table κ ν) (newHp : Nat) :
    t.checkResize c false newHp ≠ some .loadFactorTooLow := by
  unfold Table.checkResize
  split
  · simp
  · simp

/-- and a permitted resize passes -/
theorem checkResize_ok (c : Cfg κ) (t : Table κ ν) (auto : Bool) (newHp : Nat)
    (hm : t.mhp = noMaxHp ∨ newHp ≤ t.mhp) (hl : auto = false ∨ t.lfBelow c = false) :
    t.checkResize c auto newHp = none := by
  unfold Table.checkResize
  have : ¬ (t.mhp ≠ noMaxHp ∧ newHp > t.mhp) := by
    rintro ⟨h1, h2⟩
    rcases hm with h | h
    · exact h1 h
    · omega
  rcases hl with h | h <;> simp [this, h]

/-- a refused fast double changes nothing -/
theorem fastDouble_refused_unchanged [DecidableEq κ] (c : Cfg κ) (locked auto : Bool) (fuel : Nat) (t : Table κ ν)
    (e : Err) (hn : c.nothrowMove = true) (h : t.checkResize c auto (t.hp + 1) = some e) :
    fastDouble c locked auto (fuel + 1) t t.hp = (t, .err e) := by
  unfold fastDouble
  simp [hn, h]

/-- a refused rebuild (rehash / reserve / automatic expansion of a non-nothrow-movable type) changes nothing -/
theorem expandSimple_refused_unchanged [DecidableEq κ] (c : Cfg κ) (locked auto : Bool) (fuel : Nat) (t : Table κ ν)
    (e : Err) (n : Nat) (h : t.checkResize c auto n = some e) :
    expandSimple c locked auto (fuel + 1) t n = (t, .err e) := by
  unfold expandSimple
  simp [h]

/-- `rehash(n)` with the current hashpower is a no-op that reports `false` -/
theorem rehash_same_noop [DecidableEq κ] (c : Cfg κ) (locked : Bool) (t : Table κ ν) :
    t.rehash c locked t.hp = (t, .ok false) := by
  unfold Table.rehash; simp

/-- **hashpower() never exceeds a configured maximum**: after any sequence of operations from any good state
(in particular from a fresh table), in normal and locked mode -/
theorem hp_never_exceeds_limit [DecidableEq κ] (c : Cfg κ) (ops : List (C02.Op κ ν)) (s : C02.MT κ ν) (m : Spec.AMap κ ν)
    (hg : C02.Good c s m) :
    (C02.run c s ops).1.t.mhp = noMaxHp ∨ (C02.run c s ops).1.t.hp ≤ (C02.run c s ops).1.t.mhp := by
  obtain ⟨m', _, hg'⟩ := C02.seq_refines c ops s m hg
  exact hg'.1.limit

/-- `rehash(n)` / `reserve(n)` leave the contents unchanged whether they succeed or fail, and can only fail with
maximum_hashpower_exceeded or an allocation failure — never with load_factor_too_low (`ResizeErr` lists it only
for automatic expansion; see `checkResize_manual_never_lftl` and the repaired temporary-map policy, finding F5) -/
theorem rehash_keeps_contents [DecidableEq κ] (c : Cfg κ) (locked : Bool) (t : Table κ ν) (m : Spec.AMap κ ν) (n : Nat)
    (h : Inv c t) (hr : Rel c t m) (hl : locked = true → AllMig t) :
    Inv c (t.rehash c locked n).1 ∧ Rel c (t.rehash c locked n).1 m :=
  ⟨(C02.rehash_refines c locked t m n h hr hl).1, (C02.rehash_refines c locked t m n h hr hl).2.1⟩

theorem reserve_keeps_contents [DecidableEq κ] (c : Cfg κ) (locked : Bool) (t : Table κ ν) (m : Spec.AMap κ ν) (n : Nat)
    (h : Inv c t) (hr : Rel c t m) (hl : locked = true → AllMig t) :
    Inv c (t.reserve c locked n).1 ∧ Rel c (t.reserve c locked n).1 m :=
  ⟨(C02.reserve_refines c locked t m n h hr hl).1, (C02.reserve_refines c locked t m n h hr hl).2.1⟩

/-! non-vacuity -/
example : (Table.init (κ := Nat) (ν := Nat) { S := 4, M := 4, hash := id, simple := true, nothrowMove := true, hpLimit := 20 } 16).hp = 2 := by
  decide

/-! ### the table is at least as large as requested

`Spec.reserveCalc` (the model of `reserve_calc`, which sizes every freshly constructed table, in particular the temporary
map of `cuckoo_expand_simple`) searches 66 steps and therefore saturates at hashpower 66; real hashpowers are below 64
(`size_t`).  The statements below carry the corresponding range hypothesis (`n ≤ 66`, resp. a request that
`reserve_calc` can represent, resp. `t.hp ≤ 66`): without it they are false in the model for allocation limits
`c.hpLimit > 66`. -/

/-- after `rehash(n)` returned (normally), the hashpower is at least `n` — whether the request grew the table, shrank it
(the rebuild grows again if the contents need more), or was a no-op -/
theorem rehash_at_least [DecidableEq κ] (c : Cfg κ) (locked : Bool) (t : Table κ ν) (n : Nat) (h : Inv c t) (b : Bool)
    (hn : n ≤ 66)
    (hok : (t.rehash c locked n).2 = .ok b) : n ≤ (t.rehash c locked n).1.hp := by
  unfold Table.rehash at hok ⊢
  split
  · rename_i heq
    exact Nat.le_of_eq heq
  · rename_i hne
    rw [if_neg hne] at hok
    exact C10A.expandSimple_hp_ge c locked false _ t n n h hn (Nat.le_refl _) b hok

/-- after `reserve(n)` returned (normally), the capacity is at least `n` (for every request `n` whose bucket count
`reserve_calc` can represent — in particular every `size_t`) -/
theorem reserve_at_least [DecidableEq κ] (c : Cfg κ) (locked : Bool) (t : Table κ ν) (n : Nat) (h : Inv c t) (b : Bool)
    (hn : (n + c.S - 1) / c.S ≤ 2 ^ 66)
    (hok : (t.reserve c locked n).2 = .ok b) : n ≤ (t.reserve c locked n).1.capacity c := by
  have hen := Spec.reserveCalc_enough c.S n h.S_pos hn
  have key : Spec.reserveCalc c.S n ≤ (t.reserve c locked n).1.hp := by
    unfold Table.reserve at hok ⊢
    dsimp only at hok ⊢
    split
    · rename_i heq
      exact Nat.le_of_eq heq
    · rename_i hne
      rw [if_neg hne] at hok
      exact C10A.expandSimple_hp_ge c locked false _ t _ _ h (C10A.reserveCalc_le_66 _ _) (Nat.le_refl _) b hok
  unfold Table.capacity
  exact Nat.le_trans hen (Nat.mul_le_mul_right _ (Nat.pow_le_pow_right (by decide) key))

/-- and the returned flag says whether the hashpower changed: `false` exactly when the request equals the current size -/
theorem rehash_flag [DecidableEq κ] (c : Cfg κ) (locked : Bool) (t : Table κ ν) (n : Nat) (b : Bool)
    (hok : (t.rehash c locked n).2 = .ok b) : b = decide (n ≠ t.hp) := by
  unfold Table.rehash at hok
  split at hok
  · rename_i heq
    cases hok
    simp [heq]
  · rename_i hne
    have := (C10A.expandSimple_ok_le_limit c locked false _ t n b hok).2
    simp [this, hne]

/-- the hashpower never decreases while elements are inserted (automatic expansion only grows the table) -/
theorem insert_never_shrinks [DecidableEq κ] (c : Cfg κ) (t : Table κ ν) (k : κ) (v : ν) (ctxAware mayErase : Bool)
    (fn : Ctx → ν → FnOut ν) (h : Inv c t) (hhp : t.hp ≤ 66) :
    t.hp ≤ (t.uprase c false k v ctxAware mayErase fn).1.hp := by
  rw [C10A.uprase_hp]
  exact C10A.insertLoop_hp_ge c false _ t k t.hp h (by intro hh; cases hh) hhp (Nat.le_refl _)

end Cuckoo.Props.C10
