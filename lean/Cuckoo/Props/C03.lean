import Cuckoo.Proofs.ProtoInv
import Cuckoo.Gen.MemOrder
/-!
# C03 — element access is exclusive: no lost updates, no torn reads, no data races (protocol part)

In every execution obeying the protocol (`Cuckoo.Proto.accept`), a bucket — and with it the functor that the
code runs on an element of that bucket, and the counter/flag of its stripe — is touched only by the one thread
that holds the stripe's lock in the *current* lock array (or that owns the whole table).  Hence two threads never
touch the same bucket concurrently: updates of one key are serialised and a reader sees a value before or after
an update.  The data-race clause in the C++ memory-model sense is decided on the extracted memory orders
(`Gen/MemOrder.lean`, theorem `sync_orders_sufficient`) and, for the one location the protocol does not
protect (the spine of the lock-array list, finding F8), only monitored.
-/
namespace Cuckoo.Props.C03
open Cuckoo.Proto

private theorem access_guard (s : PS) (t : Tid) (stripe : Nat) (h : (accept s (.access t stripe)).isSome = true) :
    ((s.th t).validated = true ∨ (s.th t).owner = true) ∧ s.holder ⟨s.curGen, stripe⟩ = some t ∧
      ¬ (s.th t).mustRelease = true := by
  simp only [accept] at h
  split at h
  next hg => exact hg
  · cases h

/-- a lock has at most one holder, and the threads' own views agree with the lock table -/
theorem holder_agrees (s : PS) (h : Reach s) (t : Tid) (l : LockId) :
    l ∈ (s.th t).held ↔ s.holder l = some t := by
  exact (reach_inv s h).held_iff t l

/-- two threads that are both allowed to touch a bucket of the same stripe are the same thread -/
theorem access_exclusive (s : PS) (t u : Tid) (stripe : Nat)
    (ht : (accept s (.access t stripe)).isSome = true) (hu : (accept s (.access u stripe)).isSome = true) : t = u := by
  have a1 := access_guard s t stripe ht
  have a2 := access_guard s u stripe hu
  rw [a1.2.1] at a2
  exact Option.some.inj a2.2.1

/-- whoever touches a bucket holds its stripe in the current lock array and is validated (or owns the table) -/
theorem access_needs_current_stripe (s s' : PS) (t : Tid) (stripe : Nat) (ha : accept s (.access t stripe) = some s') :
    s.holder ⟨s.curGen, stripe⟩ = some t ∧ ((s.th t).validated = true ∨ (s.th t).owner = true) ∧ s' = s := by
  have a1 := access_guard s t stripe (by rw [ha]; rfl)
  refine ⟨a1.2.1, a1.1, ?_⟩
  simp only [accept, if_pos a1] at ha
  exact (Option.some.inj ha).symm

/-- validated threads hold pairwise disjoint stripe sets -/
theorem validated_disjoint (s : PS) (h : Reach s) (t u : Tid) (l : LockId)
    (ht : l ∈ (s.th t).held) (hu : l ∈ (s.th u).held) : t = u := by
  have hi := reach_inv s h
  have a1 := (hi.held_iff t l).1 ht
  have a2 := (hi.held_iff u l).1 hu
  rw [a1] at a2
  exact Option.some.inj a2

/-- a thread that owns the table (lock_all completed, or an active locked section) excludes every validated thread -/
theorem owner_excludes_validated (s : PS) (h : Reach s) (z t : Tid) (hz : (s.th z).owner = true)
    (ht : (s.th t).validated = true) : t = z := by
  exact ((reach_inv s h).owner_not_val hz ht).elim

/-- and nobody but the owner can touch any bucket while the table is owned -/
theorem owner_excludes_access (s : PS) (h : Reach s) (z t : Tid) (stripe : Nat) (hz : (s.th z).owner = true)
    (hst : stripe < s.curSize) (ha : (accept s (.access t stripe)).isSome = true) : t = z := by
  have hi := reach_inv s h
  have a1 := (access_guard s t stripe ha).2.1
  have a2 := (hi.owner_all z hz).1 stripe (by rw [curSize_eq s hi.gens_ne]; exact hst)
  rw [a1] at a2
  exact Option.some.inj a2

/-- n read-modify-write updates of one key by any threads, in any accepted schedule, are n accesses each made
under the stripe lock: between the `acquire` and the `release` of that lock no other thread touches the stripe -/
theorem no_interleaved_access (s s1 : PS) (h : Reach s) (t u : Tid) (stripe : Nat)
    (hheld : s.holder ⟨s.curGen, stripe⟩ = some t) (hu : accept s (.access u stripe) = some s1) : u = t := by
  have _ := h
  have a1 := (access_guard s u stripe (by rw [hu]; rfl)).2.1
  rw [hheld] at a1
  exact (Option.some.inj a1).symm

/-! ### memory orders (regenerated from the LLVM IR of the source on every run, T-C) -/

open Cuckoo.Gen.MemOrder in
/-- at least acquire -/
def isAcq : Cuckoo.Gen.MemOrder.Ord → Bool
  | .acquire | .acq_rel | .seq_cst => true
  | _ => false

open Cuckoo.Gen.MemOrder in
/-- at least release -/
def isRel : Cuckoo.Gen.MemOrder.Ord → Bool
  | .release | .acq_rel | .seq_cst => true
  | _ => false

/-- the synchronisation the protocol relies on has the required strength in the current source: taking a spinlock
is an acquire (and release) read-modify-write, releasing it is a release store, the hashpower and the resize counter are
loaded with acquire and published with release (the counter bump of every resize path included), and the
pending-stripe counter is decremented with acq_rel and stored with release -/
theorem sync_orders_sufficient :
    (∀ e ∈ Cuckoo.Gen.MemOrder.accesses, e.1 = "lock" → isAcq e.2.2 = true ∧ isRel e.2.2 = true) ∧
    (∀ e ∈ Cuckoo.Gen.MemOrder.accesses, e.1 = "unlock" → isRel e.2.2 = true) ∧
    (∀ e ∈ Cuckoo.Gen.MemOrder.accesses, (e.1 = "hashpower_get" ∨ e.1 = "load_resize_counter") → isAcq e.2.2 = true) ∧
    (∀ e ∈ Cuckoo.Gen.MemOrder.accesses,
      (e.1 = "hashpower_set" ∨ e.1 = "cuckoo_fast_double" ∨ e.1 = "cuckoo_expand_simple" ∨ e.1 = "bump_resize_counter" ∨
       e.1 = "lazy_set") → isRel e.2.2 = true) ∧
    (∀ e ∈ Cuckoo.Gen.MemOrder.accesses, e.1 = "lazy_dec" → isAcq e.2.2 = true ∧ isRel e.2.2 = true) ∧
    (∀ f ∈ ["lock", "unlock", "hashpower_get", "hashpower_set", "load_resize_counter", "cuckoo_fast_double",
            "cuckoo_expand_simple", "bump_resize_counter", "lazy_set", "lazy_dec"],
      ∃ e ∈ Cuckoo.Gen.MemOrder.accesses, e.1 = f) := by
  decide

/-! non-vacuity -/
example : (run (init 3 4) [.rcLoad 0, .hpLoad 0, .genLoad 0, .acquire 0 ⟨0,2⟩, .rcLoad 0, .access 0 2]).isSome = true := by decide
example : (run (init 3 4) [.rcLoad 0, .hpLoad 0, .genLoad 0, .acquire 0 ⟨0,2⟩, .rcLoad 0, .access 1 2]).isSome = false := by decide

end Cuckoo.Props.C03
