import Cuckoo.Arith.Link
/-!
# C13 — candidate-bucket arithmetic is sound for every hash value and table size

Every theorem below is about the functions in `Cuckoo/Gen/Arith.lean`, which are regenerated from
`/repo/libcuckoo/cuckoohash_map.hh` on every run (LLVM IR → Lean), for all 64-bit hashes,
all 256 tags, all bucket indices and all hashpowers the library can address (`hp < 64`,
resp. `hp + 1 < 64` for the doubling facts, i.e. hashpowers 0..62).
The stripe facts are also stated for every power-of-two stripe count.
-/
namespace Cuckoo.Props.C13
open Cuckoo

/-- both candidate buckets lie inside the table -/
theorem index_in_range (hp h : BitVec 64) (hhp : hp.toNat < 64) :
    (Gen.index_hash hp h).toNat < 2 ^ hp.toNat := by
  rw [Link.index_hash_toNat hp h hhp]; exact Spec.indexHash_lt _ _

theorem alt_in_range (hp : BitVec 64) (p : BitVec 8) (i : BitVec 64) (hhp : hp.toNat < 64) :
    (Gen.alt_index hp p i).toNat < 2 ^ hp.toNat := by
  rw [Link.alt_index_toNat hp p i hhp]; exact Spec.altIndex_lt _ _ _

/-- each candidate is the other's alternate -/
theorem alt_involution (hp : BitVec 64) (p : BitVec 8) (i : BitVec 64) (hhp : hp.toNat < 64)
    (hi : i.toNat < 2 ^ hp.toNat) :
    Gen.alt_index hp p (Gen.alt_index hp p i) = i := by
  apply BitVec.eq_of_toNat_eq
  rw [Link.alt_index_toNat _ _ _ hhp, Link.alt_index_toNat _ _ _ hhp]
  exact Spec.altIndex_invol _ _ _ hi

/-- a stored key is reachable from its hash alone: whichever candidate bucket holds it, that bucket is
one of the two computed from the hash, and the alternate of the second is the first -/
theorem candidates_symmetric (hp h : BitVec 64) (hhp : hp.toNat < 64) :
    let i1 := Gen.index_hash hp h
    let i2 := Gen.alt_index hp (Gen.partial_key h) i1
    Gen.alt_index hp (Gen.partial_key h) i2 = i1 ∧ i1.toNat < 2 ^ hp.toNat ∧ i2.toNat < 2 ^ hp.toNat := by
  intro i1 i2
  exact ⟨alt_involution hp _ i1 hhp (index_in_range hp h hhp), index_in_range hp h hhp,
    alt_in_range hp _ i1 hhp⟩

/-- doubling: the first candidate keeps its index or moves up by exactly the old bucket count -/
theorem index_double (hp h : BitVec 64) (hhp : hp.toNat + 1 < 64) :
    (Gen.index_hash (hp + 1#64) h).toNat = (Gen.index_hash hp h).toNat ∨
    (Gen.index_hash (hp + 1#64) h).toNat = (Gen.index_hash hp h).toNat + 2 ^ hp.toNat := by
  have h1 : (hp + 1#64).toNat = hp.toNat + 1 := by rw [BitVec.toNat_add]; simp; omega
  rw [Link.index_hash_toNat _ _ (by omega), Link.index_hash_toNat _ _ (by omega), h1]
  exact Spec.indexHash_double _ _

/-- doubling: the alternate in the doubled table is the old alternate of the reduced index, or that plus
the old bucket count -/
theorem alt_double (hp : BitVec 64) (p : BitVec 8) (i : BitVec 64) (hhp : hp.toNat + 1 < 64) :
    (Gen.alt_index (hp + 1#64) p i).toNat = (Gen.alt_index hp p (i &&& Gen.hashmask hp)).toNat ∨
    (Gen.alt_index (hp + 1#64) p i).toNat = (Gen.alt_index hp p (i &&& Gen.hashmask hp)).toNat + 2 ^ hp.toNat := by
  have h1 : (hp + 1#64).toNat = hp.toNat + 1 := by rw [BitVec.toNat_add]; simp; omega
  have h2 : (i &&& Gen.hashmask hp).toNat = i.toNat % 2 ^ hp.toNat := by
    rw [BitVec.toNat_and, Link.hashmask_toNat _ (by omega), Spec.hashmask, Nat.and_two_pow_sub_one_eq_mod]
  rw [Link.alt_index_toNat _ _ _ (by omega), Link.alt_index_toNat _ _ _ (by omega), h1, h2]
  exact Spec.altIndex_double _ _ _

/-- hence a key's pair of candidates in the doubled table is its old pair, each either kept or moved up -/
theorem candidates_double (hp h : BitVec 64) (hhp : hp.toNat + 1 < 64) :
    let p := Gen.partial_key h
    let i1 := Gen.index_hash hp h
    let i1' := Gen.index_hash (hp + 1#64) h
    (Gen.alt_index (hp + 1#64) p i1').toNat = (Gen.alt_index hp p i1).toNat ∨
    (Gen.alt_index (hp + 1#64) p i1').toNat = (Gen.alt_index hp p i1).toNat + 2 ^ hp.toNat := by
  intro p i1 i1'
  have h := alt_double hp p i1' hhp
  have e : i1' &&& Gen.hashmask hp = i1 := by
    apply BitVec.eq_of_toNat_eq
    have h1 : (hp + 1#64).toNat = hp.toNat + 1 := by rw [BitVec.toNat_add]; simp; omega
    rw [BitVec.toNat_and, Link.hashmask_toNat _ (by omega), Spec.hashmask, Nat.and_two_pow_sub_one_eq_mod,
      Link.index_hash_toNat _ _ (by omega), Link.index_hash_toNat _ _ (by omega), h1]
    exact Spec.indexHash_double_mod _ _
  rw [e] at h
  exact h

/-- the stripe limit is a power of two (so masking is reduction modulo the limit) -/
theorem maxLocks_pow2 : Gen.Consts.kMaxNumLocks = 2 ^ 16 := Link.kMaxNumLocks_eq

theorem lock_ind_in_range (i : BitVec 64) : (Gen.lock_ind i).toNat < Gen.Consts.kMaxNumLocks := by
  rw [Link.lock_ind_toNat]; exact Spec.lockInd_lt _ _ (by decide)

/-- a bucket that moves up by the old bucket count stays under the same lock stripe, whenever the old
table has at least as many buckets as there are stripes (the only case with deferred migration) -/
theorem stripe_stable (hp i : BitVec 64) (hhp : hp.toNat + 1 < 64) (hM : 16 ≤ hp.toNat)
    (hi : i.toNat < 2 ^ hp.toNat) :
    Gen.lock_ind (i + Gen.hashsize hp) = Gen.lock_ind i := by
  apply BitVec.eq_of_toNat_eq
  rw [Link.lock_ind_toNat, Link.lock_ind_toNat, Link.kMaxNumLocks_eq, BitVec.toNat_add,
    Link.hashsize_toNat _ (by omega), Spec.hashsize]
  have : 2 ^ hp.toNat < 2 ^ 63 := Nat.pow_lt_pow_right (by omega) (by omega)
  rw [Nat.mod_eq_of_lt (by omega)]
  exact Spec.lockInd_stable 16 _ _ hM

/-- the same for every power-of-two stripe count `2^m ≤ 2^hp` -/
theorem stripe_stable_all (m hp i : Nat) (h : m ≤ hp) :
    Spec.lockInd (2 ^ m) (i + 2 ^ hp) = Spec.lockInd (2 ^ m) i := Spec.lockInd_stable m hp i h

/-- with fewer buckets than stripes every bucket has its own stripe -/
theorem stripe_identity (M i : Nat) (h : i < M) : Spec.lockInd M i = i := Nat.mod_eq_of_lt h

/-- the partial tag is a function of the hash alone (its generated signature has no table-size
argument), it fits in 8 bits, and the multiplier it selects for `alt_index` is odd, hence non-zero -/
theorem partial_key_width_free (h : BitVec 64) :
    (Gen.partial_key h).toNat = Spec.partialKey h.toNat ∧ (Gen.partial_key h).toNat < 256 :=
  ⟨Link.partial_key_toNat h, (Gen.partial_key h).isLt⟩

theorem tag_multiplier_nonzero (p : BitVec 8) :
    ((BitVec.setWidth 64 p + 1#64) * 14313749767032793493#64) ≠ 0#64 := by
  intro h
  have h0 := congrArg BitVec.toNat h
  rw [Link.tagMul_eq] at h0
  have : ∀ q : Fin 256, Spec.tagMul q.val ≠ 0 := by decide +kernel
  exact this ⟨p.toNat, p.isLt⟩ h0

/-- `reserve_calc` returns the smallest hashpower that holds the request -/
theorem reserve_calc_minimal (n : BitVec 64) (hn : n.toNat ≤ 2 ^ 62) :
    ∃ r, Gen.reserve_calc n = some r ∧
      n.toNat ≤ 2 ^ r.toNat * Gen.Consts.DEFAULT_SLOT_PER_BUCKET ∧
      ∀ c, c < r.toNat → 2 ^ c * Gen.Consts.DEFAULT_SLOT_PER_BUCKET < n.toNat := by
  obtain ⟨r, h1, h2⟩ := Link.reserve_calc_toNat n hn
  refine ⟨r, h1, ?_, ?_⟩
  · rw [h2]
    exact Spec.reserveCalc_enough _ _ (by decide) (by
      have : Gen.Consts.DEFAULT_SLOT_PER_BUCKET = 4 := by decide
      rw [this]
      have : (n.toNat + 4 - 1) / 4 ≤ 2 ^ 62 := by omega
      exact Nat.le_trans this (by decide))
  · intro c hc
    rw [h2] at hc
    exact Spec.reserveCalc_minimal _ _ _ (by decide) hc

/-- the same for every slots-per-bucket value (specification level; K1 ties each instantiation to it) -/
theorem reserve_calc_minimal_all (S n : Nat) (hS : 0 < S) (hn : (n + S - 1) / S ≤ 2 ^ 66) :
    n ≤ 2 ^ Spec.reserveCalc S n * S ∧ ∀ c, c < Spec.reserveCalc S n → 2 ^ c * S < n :=
  ⟨Spec.reserveCalc_enough S n hS hn, fun c hc => Spec.reserveCalc_minimal S n c hS hc⟩

/-! Non-vacuity: the hypotheses are met by concrete non-trivial values. -/
example : (Gen.index_hash 10#64 0xdeadbeefcafe#64).toNat = 0xdeadbeefcafe % 1024 := by decide
example : Gen.alt_index 10#64 0x5a#8 (Gen.alt_index 10#64 0x5a#8 777#64) = 777#64 := by decide
example : (10#64 : BitVec 64).toNat + 1 < 64 ∧ (777#64 : BitVec 64).toNat < 2 ^ (10#64 : BitVec 64).toNat := by decide
example : Gen.reserve_calc 1000#64 = some 8#64 := by decide

end Cuckoo.Props.C13
