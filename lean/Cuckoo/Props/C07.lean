import Cuckoo.Props.C02
import Cuckoo.Proofs.Fault
/-!
# C07 — failures are atomic: a throwing operation leaves the table unchanged and usable

Model-level part.  The executable model raises `bad_alloc` where a bucket array of more than `2^hpLimit` buckets would
be needed (`cuckoo_fast_double`, the temporary map of `cuckoo_expand_simple`), the policy exceptions of C10, and the
exception of a throwing user functor.  For each of these the theorems below give failure atomicity for *every* table
state: same abstract contents, invariant intact (hence usable: C02 applies to whatever follows), hashpower unchanged
for a failed rehash/reserve.

**Partial** (`alloc_failure_atomic_partial`): the other allocation points of the real code (lock vector, list node of
the lock-array list, thread / exception vectors of helper threads), throwing equality, and throwing element
constructors are *not* fault points of the model; they are enumerated on the implementation by K5 (every reachable
allocation index k, forked trials on copies, instrumented element types).  Two findings stay open there (F4: a failed
rebuild leaves moved-from elements for types with a non-trivial moved-from state; F11: copy assignment destroys the
destination first).
-/
namespace Cuckoo.Props.C07
open Cuckoo Cuckoo.Model Cuckoo.Spec
variable {κ ν : Type} [DecidableEq κ]

/-- the abstract specification of an inserting call can only fail with the functor's exception -/
private theorem upraseSpec_err (m : AMap κ ν) (k : κ) (v : ν) (ctxAware mayErase : Bool) (fn : Ctx → ν → FnOut ν)
    (e : Err) (h : (C02.upraseSpec m k v ctxAware mayErase fn).1 = .err e) : e = .fnThrow := by
  unfold C02.upraseSpec at h
  cases hlk : m.lookup k with
  | some old =>
    simp only [hlk] at h
    cases hf : fn .alreadyExisted old with
    | ret v' er => simp only [hf] at h; cases h
    | throw v' => simp only [hf] at h; cases h; rfl
  | none =>
    simp only [hlk] at h
    cases ctxAware with
    | false => simp at h
    | true =>
      simp only [if_true] at h
      cases hf : fn .newlyInserted v with
      | ret v' er => simp only [hf] at h; cases h
      | throw v' => simp only [hf] at h; cases h; rfl

/-- a failed inserting call (insert / insert_or_assign / upsert / uprase_fn, normal or locked mode) changes nothing
observable and invokes no functor -/
theorem alloc_failure_atomic_partial (c : Cfg κ) (locked : Bool) (t : Table κ ν) (m : AMap κ ν) (k : κ) (v : ν)
    (ctxAware mayErase : Bool) (fn : Ctx → ν → FnOut ν) (h : Inv c t) (hr : Rel c t m) (hl : locked = true → AllMig t)
    (e : Err) (he : (t.uprase c locked k v ctxAware mayErase fn).2.1.res = .err e) (hne : e ≠ .fnThrow) :
    Inv c (t.uprase c locked k v ctxAware mayErase fn).1 ∧ Rel c (t.uprase c locked k v ctxAware mayErase fn).1 m ∧
    (t.uprase c locked k v ctxAware mayErase fn).2.1.calls = [] := by
  obtain ⟨a1, _, a3⟩ := C02.uprase_refines c locked t m k v ctxAware mayErase fn h hr hl
  rcases a3 with ⟨_, _, _, r3, r4⟩ | ⟨r1, _, _⟩
  · exact ⟨a1, r4, r3⟩
  · rw [he] at r1
    exact absurd (upraseSpec_err m k v ctxAware mayErase fn e r1.symm) hne

/-- a failed rehash leaves contents AND hashpower unchanged -/
theorem failed_rehash_atomic (c : Cfg κ) (locked : Bool) (t : Table κ ν) (m : AMap κ ν) (n : Nat)
    (h : Inv c t) (hr : Rel c t m) (hl : locked = true → AllMig t) (e : Err) (he : (t.rehash c locked n).2 = .err e) :
    Inv c (t.rehash c locked n).1 ∧ Rel c (t.rehash c locked n).1 m ∧ (t.rehash c locked n).1.hp = t.hp := by
  obtain ⟨a1, a2, _, _⟩ := C02.rehash_refines c locked t m n h hr hl
  refine ⟨a1, a2, ?_⟩
  unfold Table.rehash at he ⊢
  by_cases hn : n = t.hp
  · simp only [hn, if_true]
  · simp only [hn, if_false] at he ⊢
    exact expandSimple_err_hp c locked false _ t n h e he

/-- a failed reserve leaves contents AND hashpower unchanged -/
theorem failed_reserve_atomic (c : Cfg κ) (locked : Bool) (t : Table κ ν) (m : AMap κ ν) (n : Nat)
    (h : Inv c t) (hr : Rel c t m) (hl : locked = true → AllMig t) (e : Err) (he : (t.reserve c locked n).2 = .err e) :
    Inv c (t.reserve c locked n).1 ∧ Rel c (t.reserve c locked n).1 m ∧ (t.reserve c locked n).1.hp = t.hp := by
  obtain ⟨a1, a2, _, _⟩ := C02.reserve_refines c locked t m n h hr hl
  refine ⟨a1, a2, ?_⟩
  unfold Table.reserve at he ⊢
  simp only at he ⊢
  by_cases hn : Spec.reserveCalc c.S n = t.hp
  · simp only [hn, if_true]
  · simp only [hn, if_false] at he ⊢
    exact expandSimple_err_hp c locked false _ t _ h e he

/-- the allocation failure of the doubled bucket array is reported as `bad_alloc` and the table keeps its hashpower
(the model performs the allocation before any change, as the repaired `cuckoo_fast_double` does: finding F3) -/
theorem fast_double_alloc_failure (c : Cfg κ) (locked auto : Bool) (fuel : Nat) (t : Table κ ν)
    (hn : c.nothrowMove = true) (hchk : t.checkResize c auto (t.hp + 1) = none) (hlim : t.hp + 1 > c.hpLimit) :
    (fastDouble c locked auto (fuel + 1) t t.hp).2 = .err .badAlloc ∧
    (fastDouble c locked auto (fuel + 1) t t.hp).1 = t.migrateAll c := by
  unfold fastDouble
  simp [hn, hchk, hlim]

/-- if a functor throws, everything done before it was invoked (including the insertion that preceded it) and its own
partial effect remain, and nothing else changes -/
theorem functor_throw_keeps_prior_effects (c : Cfg κ) (locked : Bool) (t : Table κ ν) (m : AMap κ ν) (k : κ) (v v' : ν)
    (mayErase : Bool) (fn : Ctx → ν → FnOut ν) (h : Inv c t) (hr : Rel c t m) (hl : locked = true → AllMig t)
    (hk : m.lookup k = none) (hf : fn .newlyInserted v = .throw v')
    (hres : (t.uprase c locked k v true mayErase fn).2.1.res = .err .fnThrow) :
    Inv c (t.uprase c locked k v true mayErase fn).1 ∧ Rel c (t.uprase c locked k v true mayErase fn).1 (m.add k v') := by
  obtain ⟨a1, _, a3⟩ := C02.uprase_refines c locked t m k v true mayErase fn h hr hl
  rcases a3 with ⟨e, r1, r2, _, _⟩ | ⟨_, _, r3⟩
  · rw [hres] at r1
    cases r1
    rcases r2 with r | r | r | r <;> cases r
  · refine ⟨a1, ?_⟩
    have e : (C02.upraseSpec m k v true mayErase fn).2.2 = m.add k v' := by
      simp [C02.upraseSpec, hk, hf]
    rw [e] at r3
    exact r3

/-- a throwing functor of update_fn / erase_fn leaves its partial effect on that one value and nothing else -/
theorem functor_throw_in_update (c : Cfg κ) (canErase : Bool) (t : Table κ ν) (m : AMap κ ν) (k : κ) (v v' : ν)
    (fn : ν → FnOut ν) (h : Inv c t) (hr : Rel c t m) (hk : m.lookup k = some v) (hf : fn v = .throw v') :
    Inv c (t.fnOp c canErase k fn).1 ∧ Rel c (t.fnOp c canErase k fn).1 (m.set k v') ∧
    (t.fnOp c canErase k fn).2.res = .err .fnThrow := by
  obtain ⟨a1, a2⟩ := C02.fnOp_refines c canErase t m k fn h hr
  rw [hk] at a2
  obtain ⟨_, a3⟩ := a2
  rw [hf] at a3
  exact ⟨a1, a3.2, a3.1⟩

/-- after any failed call every operation, including further failures, works normally: the run continues to refine
the abstract map -/
theorem usable_after_failure (c : Cfg κ) (t : Table κ ν) (m : AMap κ ν) (k : κ) (v : ν)
    (ctxAware mayErase : Bool) (fn : Ctx → ν → FnOut ν) (h : Inv c t) (hr : Rel c t m)
    (e : Err) (he : (t.uprase c false k v ctxAware mayErase fn).2.1.res = .err e) (hne : e ≠ .fnThrow)
    (ops : List (C02.Op κ ν)) :
    ∃ m', C02.specRun false m ops (C02.run c ⟨(t.uprase c false k v ctxAware mayErase fn).1, false⟩ ops).2 m' ∧
      C02.Good c (C02.run c ⟨(t.uprase c false k v ctxAware mayErase fn).1, false⟩ ops).1 m' := by
  obtain ⟨a1, a2, _⟩ := alloc_failure_atomic_partial c false t m k v ctxAware mayErase fn h hr
    (fun x => by cases x) e he hne
  exact C02.seq_refines c ops ⟨(t.uprase c false k v ctxAware mayErase fn).1, false⟩ m
    ⟨a1, a2, fun x => by cases x⟩

end Cuckoo.Props.C07
