import Cuckoo.Proofs.ProtoInv
/-!
# C01 — concurrent operations are linearizable, including across every kind of resize (protocol half)

This file carries the *protocol* half of the argument: in every execution that obeys the locking
protocol (`Cuckoo.Proto.accept`; K3 checks on every run that the recorded synchronisation traces of
`/repo` are accepted) a thread that is inside a validated critical section works with the *current*
hashpower and the *current* lock array, for any number of threads, stripes, lock arrays and any schedule.
Together with C03 (`owner_excludes_validated`, disjoint stripes) this is what allows a critical section
to be treated as one atomic step on the current table; the sequential refinement of every critical
section is C02.  The mechanised statement of linearizability over interleaved critical sections is
`Props/C01Conc.lean` (see DESIGN.md section 12 for what is proved there and what is assumed).
-/
namespace Cuckoo.Props.C01
open Cuckoo.Proto

/-- a sound snapshot whose counter is still current has the current hashpower and saw the current lock array,
unless a resizer is between its change and its counter bump (`rc_guards_hp`) -/
theorem snapshot_guarded_by_counter (s : PS) (h : Reach s) (t : Tid)
    (hok : (s.th t).hpOk = true ∧ (s.th t).genOk = true) (hrc : (s.th t).snapRc = s.rc) :
    ((s.th t).snapHp = s.hp ∧ (s.th t).snapGen = s.curGen) ∨ ∃ z, (s.th z).dirty = true := by
  have hi := reach_inv s h
  rcases hi.snap_hp t hok.1 hrc with h1 | h1
  · rcases hi.snap_gen t hok.2 hrc with h2 | ⟨z, hz, -⟩
    · exact Or.inl ⟨h1, h2⟩
    · exact Or.inr ⟨z, hz⟩
  · exact Or.inr h1

/-- **snapshot_current**: a thread that has passed validation computed its buckets from the current hashpower
and holds locks of the current lock array only -/
theorem validated_is_current (s : PS) (h : Reach s) (t : Tid) (hv : (s.th t).validated = true) :
    (s.th t).snapHp = s.hp ∧ (s.th t).snapGen = s.curGen ∧ (s.th t).held ≠ [] ∧
    ∀ l ∈ (s.th t).held, l.gen = s.curGen := by
  obtain ⟨h1, h2, -, h4, h5, -, -⟩ := (reach_inv s h).val t hv
  exact ⟨h4, h5, h1, h2⟩

/-- no resizer is between its change of the table and its counter bump while some other thread is validated -/
theorem no_dirty_while_validated (s : PS) (h : Reach s) (t z : Tid) (hv : (s.th t).validated = true)
    (hd : (s.th z).dirty = true) : False := by
  exact (reach_inv s h).dirty_not_val hd hv

/-- the resize counter never decreases and snapshots never run ahead of it -/
theorem snapshot_le_counter (s : PS) (h : Reach s) (t : Tid) : (s.th t).snapRc ≤ s.rc := by
  exact (reach_inv s h).rc_le t

/-- a thread whose snapshot is older than the last completed resize fails validation: after taking its first lock
its counter load does not validate it (it must release and start over) -/
theorem stale_snapshot_fails_validation (s s' : PS) (h : Reach s) (t : Tid) (hp : (s.th t).pendingVal = true)
    (hst : (s.th t).snapRc ≠ s.rc) (ha : accept s (.rcLoad t) = some s') :
    (s'.th t).validated = false ∧ (s'.th t).mustRelease = true := by
  simp only [accept, hp, hst, if_true, if_false] at ha
  cases ha
  simp only [upd_same, and_true]
  obtain ⟨l, -, hv, -⟩ := (reach_inv s h).pend t hp
  exact hv

/-! non-vacuity: an accepted trace in which a reader validates after a resizer has finished -/
example : (run (init 2 2)
    [.allBegin 1, .acquire 1 ⟨0,0⟩, .acquire 1 ⟨0,1⟩, .allEnd 1, .storeHp 1 3, .bumpRc 1, .release 1 ⟨0,0⟩, .release 1 ⟨0,1⟩,
     .opEnd 1 false,
     .rcLoad 0, .hpLoad 0, .genLoad 0, .acquire 0 ⟨0,1⟩, .rcLoad 0, .access 0 1, .release 0 ⟨0,1⟩, .opEnd 0 false]).isSome = true := by
  decide

/-- the shipped load order (hashpower before counter) is rejected by rule S -/
example : (run (init 2 2) [.hpLoad 0, .rcLoad 0, .genLoad 0, .acquire 0 ⟨0,1⟩]).isSome = false := by
  decide

end Cuckoo.Props.C01
