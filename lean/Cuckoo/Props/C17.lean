import Cuckoo.Props.C02
import Cuckoo.Proofs.Stats
/-!
# C17 — functors are invoked exactly when documented, with the right context

Corollaries of `C02.fnOp_refines` / `C02.uprase_refines`, whose `calls` component records every functor
invocation (context received, value seen).
-/
namespace Cuckoo.Props.C17
open Cuckoo Cuckoo.Model Cuckoo.Spec
variable {κ ν : Type} [DecidableEq κ]

/-- find_fn / update_fn / erase_fn: invoked exactly once with the stored value if the key is present, never otherwise;
the boolean result reports "found" -/
theorem fn_called_iff_present (c : Cfg κ) (canErase : Bool) (t : Table κ ν) (m : AMap κ ν) (k : κ) (fn : ν → FnOut ν)
    (h : Inv c t) (hr : Rel c t m) :
    (t.fnOp c canErase k fn).2.calls = (match m.lookup k with | some v => [⟨none, v⟩] | none => []) ∧
    (∀ b, (t.fnOp c canErase k fn).2.res = .ok b → b = (m.lookup k).isSome) := by
  have h0 := (C02.fnOp_refines c canErase t m k fn h hr).2
  cases hk : m.lookup k with
  | none =>
    rw [hk] at h0
    refine ⟨h0.2.1, ?_⟩
    intro b hb
    rw [h0.1] at hb
    cases hb
    rfl
  | some v =>
    rw [hk] at h0
    refine ⟨h0.1, ?_⟩
    intro b hb
    have h1 := h0.2
    cases hf : fn v with
    | ret v' er =>
      rw [hf] at h1
      rw [h1.1] at hb
      cases hb
      rfl
    | throw v' =>
      rw [hf] at h1
      rw [h1.1] at hb
      cases hb

/-- erase_fn erases iff the functor returns true; update_fn never erases -/
theorem erased_iff_true (c : Cfg κ) (canErase : Bool) (t : Table κ ν) (m : AMap κ ν) (k : κ) (fn : ν → FnOut ν) (v v' : ν)
    (er : Bool) (h : Inv c t) (hr : Rel c t m) (hk : m.lookup k = some v) (hf : fn v = .ret v' er) :
    Rel c (t.fnOp c canErase k fn).1 (if canErase && er then m.erase k else m.set k v') := by
  have h0 := (C02.fnOp_refines c canErase t m k fn h hr).2
  rw [hk] at h0
  have h1 := h0.2
  rw [hf] at h1
  exact h1.2

/-- uprase_fn / upsert: present key → exactly one call with ALREADY_EXISTED (context passed only to functors that take
one) and the stored value; absent key → exactly one call with NEWLY_INSERTED and the inserted value iff the functor
takes a context, no call otherwise; the boolean result reports "newly inserted" -/
theorem uprase_call_contract (c : Cfg κ) (locked : Bool) (t : Table κ ν) (m : AMap κ ν) (k : κ) (v : ν)
    (ctxAware mayErase : Bool) (fn : Ctx → ν → FnOut ν) (h : Inv c t) (hr : Rel c t m) (hl : locked = true → AllMig t)
    (hok : ∀ e, (t.uprase c locked k v ctxAware mayErase fn).2.1.res = .err e → e = .fnThrow) :
    (t.uprase c locked k v ctxAware mayErase fn).2.1.calls =
      (match m.lookup k with
       | some old => [⟨if ctxAware then some .alreadyExisted else none, old⟩]
       | none => if ctxAware then [⟨some .newlyInserted, v⟩] else []) ∧
    (∀ b, (t.uprase c locked k v ctxAware mayErase fn).2.1.res = .ok b → b = (m.lookup k).isNone) := by
  obtain ⟨_, _, h0⟩ := C02.uprase_refines c locked t m k v ctxAware mayErase fn h hr hl
  rcases h0 with ⟨e, he, hre, _, _⟩ | ⟨hres, hcalls, _⟩
  · have := hok e he
    subst this
    rcases hre with h | h | h | h <;> cases h
  · rw [hres, hcalls]
    unfold C02.upraseSpec
    cases hk : m.lookup k with
    | some old =>
      dsimp only
      cases fn .alreadyExisted old <;> refine ⟨rfl, ?_⟩ <;> intro b hb <;> cases hb <;> rfl
    | none =>
      dsimp only
      cases ctxAware
      · refine ⟨rfl, ?_⟩
        intro b hb
        cases hb
        rfl
      · simp only [if_true]
        cases fn .newlyInserted v <;> refine ⟨rfl, ?_⟩ <;> intro b hb <;> cases hb <;> rfl

/-- a failed expansion invokes nothing -/
theorem no_call_on_failed_insert (c : Cfg κ) (locked : Bool) (t : Table κ ν) (m : AMap κ ν) (k : κ) (v : ν)
    (ctxAware mayErase : Bool) (fn : Ctx → ν → FnOut ν) (h : Inv c t) (hr : Rel c t m) (hl : locked = true → AllMig t)
    (e : Err) (he : (t.uprase c locked k v ctxAware mayErase fn).2.1.res = .err e) (hne : e ≠ .fnThrow) :
    (t.uprase c locked k v ctxAware mayErase fn).2.1.calls = [] ∧ Rel c (t.uprase c locked k v ctxAware mayErase fn).1 m := by
  obtain ⟨_, _, h0⟩ := C02.uprase_refines c locked t m k v ctxAware mayErase fn h hr hl
  rcases h0 with ⟨e', _, _, hc, hrel⟩ | ⟨hres, _, _⟩
  · exact ⟨hc, hrel⟩
  · exfalso
    rw [hres] at he
    unfold C02.upraseSpec at he
    cases hk : m.lookup k with
    | some old =>
      rw [hk] at he
      dsimp only at he
      cases hf : fn .alreadyExisted old <;> rw [hf] at he <;> cases he
      exact hne rfl
    | none =>
      rw [hk] at he
      dsimp only at he
      cases ctxAware
      · cases he
      · simp only [if_true] at he
        cases hf : fn .newlyInserted v <;> rw [hf] at he <;> cases he
        exact hne rfl

/-- the wrappers are the documented abbreviations: their functors -/
def containsFn : ν → FnOut ν := fun v => .ret v false
def updateFn (x : ν) : ν → FnOut ν := fun _ => .ret x false
def eraseFn : ν → FnOut ν := fun v => .ret v true
def insertFn : Ctx → ν → FnOut ν := fun _ v => .ret v false
def assignFn (x : ν) : Ctx → ν → FnOut ν := fun _ _ => .ret x false

/-- `contains`/`find` = find_fn with a functor that changes nothing -/
theorem contains_spec (c : Cfg κ) (t : Table κ ν) (m : AMap κ ν) (k : κ) (h : Inv c t) (hr : Rel c t m) :
    (t.fnOp c false k containsFn).2.res = .ok (m.lookup k).isSome ∧ Rel c (t.fnOp c false k containsFn).1 m := by
  have h0 := (C02.fnOp_refines c false t m k containsFn h hr).2
  cases hk : m.lookup k with
  | none =>
    rw [hk] at h0
    exact ⟨h0.1, h0.2.2⟩
  | some v =>
    rw [hk] at h0
    have h1 := h0.2
    simp only [containsFn, Bool.false_and, Bool.false_eq_true, if_false] at h1
    exact ⟨h1.1, Rel_set_same hr.nodup hk h1.2⟩

/-- `update(k, x)` = update_fn assigning `x` -/
theorem update_spec (c : Cfg κ) (t : Table κ ν) (m : AMap κ ν) (k : κ) (x : ν) (h : Inv c t) (hr : Rel c t m) :
    (t.fnOp c false k (updateFn x)).2.res = .ok (m.lookup k).isSome ∧ Rel c (t.fnOp c false k (updateFn x)).1 (m.set k x) := by
  have h0 := (C02.fnOp_refines c false t m k (updateFn x) h hr).2
  cases hk : m.lookup k with
  | none =>
    rw [hk] at h0
    rw [AMap.set_of_lookup_none m k x hk]
    exact ⟨h0.1, h0.2.2⟩
  | some v =>
    rw [hk] at h0
    have h1 := h0.2
    simp only [updateFn, Bool.false_and, Bool.false_eq_true, if_false] at h1
    exact ⟨h1.1, h1.2⟩

/-- `erase(k)` = erase_fn returning true -/
theorem erase_spec (c : Cfg κ) (t : Table κ ν) (m : AMap κ ν) (k : κ) (h : Inv c t) (hr : Rel c t m) :
    (t.fnOp c true k eraseFn).2.res = .ok (m.lookup k).isSome ∧ Rel c (t.fnOp c true k eraseFn).1 (m.erase k) := by
  have h0 := (C02.fnOp_refines c true t m k eraseFn h hr).2
  cases hk : m.lookup k with
  | none =>
    rw [hk] at h0
    rw [AMap.erase_of_lookup_none m k hk]
    exact ⟨h0.1, h0.2.2⟩
  | some v =>
    rw [hk] at h0
    have h1 := h0.2
    simp only [eraseFn, Bool.and_self, if_true] at h1
    exact ⟨h1.1, h1.2⟩

/-- `insert(k, v)` = upsert with a one-argument no-op: inserts iff absent, never touches a present value -/
theorem insert_spec (c : Cfg κ) (t : Table κ ν) (m : AMap κ ν) (k : κ) (v : ν) (h : Inv c t) (hr : Rel c t m)
    (b : Bool) (hb : (t.uprase c false k v false false insertFn).2.1.res = .ok b) :
    b = (m.lookup k).isNone ∧ Rel c (t.uprase c false k v false false insertFn).1 (if (m.lookup k).isNone then m.add k v else m) := by
  obtain ⟨_, _, h0⟩ := C02.uprase_refines c false t m k v false false insertFn h hr (by intro h; cases h)
  rcases h0 with ⟨e, he, _, _, _⟩ | ⟨hres, _, hrel⟩
  · rw [he] at hb
    cases hb
  · rw [hres] at hb
    unfold C02.upraseSpec at hb hrel
    cases hk : m.lookup k with
    | some old =>
      rw [hk] at hb hrel
      simp only [insertFn, Bool.false_and, Bool.false_eq_true, if_false] at hb hrel
      cases hb
      exact ⟨rfl, Rel_set_same hr.nodup hk hrel⟩
    | none =>
      rw [hk] at hb hrel
      simp only [Bool.false_eq_true, if_false] at hb hrel
      cases hb
      exact ⟨rfl, hrel⟩

/-- `insert_or_assign(k, v)` = upsert with a one-argument assignment -/
theorem insert_or_assign_spec (c : Cfg κ) (t : Table κ ν) (m : AMap κ ν) (k : κ) (v : ν) (h : Inv c t) (hr : Rel c t m)
    (b : Bool) (hb : (t.uprase c false k v false false (assignFn v)).2.1.res = .ok b) :
    b = (m.lookup k).isNone ∧
    Rel c (t.uprase c false k v false false (assignFn v)).1 (if (m.lookup k).isNone then m.add k v else m.set k v) := by
  obtain ⟨_, _, h0⟩ := C02.uprase_refines c false t m k v false false (assignFn v) h hr (by intro h; cases h)
  rcases h0 with ⟨e, he, _, _, _⟩ | ⟨hres, _, hrel⟩
  · rw [he] at hb
    cases hb
  · rw [hres] at hb
    unfold C02.upraseSpec at hb hrel
    cases hk : m.lookup k with
    | some old =>
      rw [hk] at hb hrel
      simp only [assignFn, Bool.false_and, Bool.false_eq_true, if_false] at hb hrel
      cases hb
      exact ⟨rfl, hrel⟩
    | none =>
      rw [hk] at hb hrel
      simp only [Bool.false_eq_true, if_false] at hb hrel
      cases hb
      exact ⟨rfl, hrel⟩

end Cuckoo.Props.C17
