import Cuckoo.Props.C02
/-!
# C17 — functors are invoked exactly when documented, with the right context

Corollaries of `C02.fnOp_refines` / `C02.uprase_refines`, whose `calls` component records every functor
invocation (context received, value seen).
-/
namespace Cuckoo.Props.C17
open Cuckoo Cuckoo.Model Cuckoo.Spec
variable {κ ν : Type} [DecidableEq κ]

/-- find_fn / update_fn / erase_fn: invoked exactly once with the stored value if the key is present, never otherwise;
the boolean result reports "found" -/
theorem fn_called_iff_present (c : Cfg κ) (canErase : Bool) (t : Table κ ν) (m : AMap κ ν) (k : κ) (fn : ν → FnOut ν)
    (h : Inv c t) (hr : Rel c t m) :
    (t.fnOp c canErase k fn).2.calls = (match m.lookup k with | some v => [⟨none, v⟩] | none => []) ∧
    (∀ b, (t.fnOp c canErase k fn).2.res = .ok b → b = (m.lookup k).isSome) := by
  sorry

/-- erase_fn erases iff the functor returns true; update_fn never erases -/
theorem erased_iff_true (c : Cfg κ) (canErase : Bool) (t : Table κ ν) (m : AMap κ ν) (k : κ) (fn : ν → FnOut ν) (v v' : ν)
    (er : Bool) (h : Inv c t) (hr : Rel c t m) (hk : m.lookup k = some v) (hf : fn v = .ret v' er) :
    Rel c (t.fnOp c canErase k fn).1 (if canErase && er then m.erase k else m.set k v') := by
  sorry

/-- uprase_fn / upsert: present key → exactly one call with ALREADY_EXISTED (context passed only to functors that take
one) and the stored value; absent key → exactly one call with NEWLY_INSERTED and the inserted value iff the functor
takes a context, no call otherwise; the boolean result reports "newly inserted" -/
theorem uprase_call_contract (c : Cfg κ) (locked : Bool) (t : Table κ ν) (m : AMap κ ν) (k : κ) (v : ν)
    (ctxAware mayErase : Bool) (fn : Ctx → ν → FnOut ν) (h : Inv c t) (hr : Rel c t m) (hl : locked = true → AllMig t)
    (hok : ∀ e, (t.uprase c locked k v ctxAware mayErase fn).2.1.res = .err e → e = .fnThrow) :
    (t.uprase c locked k v ctxAware mayErase fn).2.1.calls =
      (match m.lookup k with
       | some old => [⟨if ctxAware then some .alreadyExisted else none, old⟩]
       | none => if ctxAware then [⟨some .newlyInserted, v⟩] else []) ∧
    (∀ b, (t.uprase c locked k v ctxAware mayErase fn).2.1.res = .ok b → b = (m.lookup k).isNone) := by
  sorry

/-- a failed expansion invokes nothing -/
theorem no_call_on_failed_insert (c : Cfg κ) (locked : Bool) (t : Table κ ν) (m : AMap κ ν) (k : κ) (v : ν)
    (ctxAware mayErase : Bool) (fn : Ctx → ν → FnOut ν) (h : Inv c t) (hr : Rel c t m) (hl : locked = true → AllMig t)
    (e : Err) (he : (t.uprase c locked k v ctxAware mayErase fn).2.1.res = .err e) (hne : e ≠ .fnThrow) :
    (t.uprase c locked k v ctxAware mayErase fn).2.1.calls = [] ∧ Rel c (t.uprase c locked k v ctxAware mayErase fn).1 m := by
  sorry

/-- the wrappers are the documented abbreviations: their functors -/
def containsFn : ν → FnOut ν := fun v => .ret v false
def updateFn (x : ν) : ν → FnOut ν := fun _ => .ret x false
def eraseFn : ν → FnOut ν := fun v => .ret v true
def insertFn : Ctx → ν → FnOut ν := fun _ v => .ret v false
def assignFn (x : ν) : Ctx → ν → FnOut ν := fun _ _ => .ret x false

/-- `contains`/`find` = find_fn with a functor that changes nothing -/
theorem contains_spec (c : Cfg κ) (t : Table κ ν) (m : AMap κ ν) (k : κ) (h : Inv c t) (hr : Rel c t m) :
    (t.fnOp c false k containsFn).2.res = .ok (m.lookup k).isSome ∧ Rel c (t.fnOp c false k containsFn).1 m := by
  sorry

/-- `update(k, x)` = update_fn assigning `x` -/
theorem update_spec (c : Cfg κ) (t : Table κ ν) (m : AMap κ ν) (k : κ) (x : ν) (h : Inv c t) (hr : Rel c t m) :
    (t.fnOp c false k (updateFn x)).2.res = .ok (m.lookup k).isSome ∧ Rel c (t.fnOp c false k (updateFn x)).1 (m.set k x) := by
  sorry

/-- `erase(k)` = erase_fn returning true -/
theorem erase_spec (c : Cfg κ) (t : Table κ ν) (m : AMap κ ν) (k : κ) (h : Inv c t) (hr : Rel c t m) :
    (t.fnOp c true k eraseFn).2.res = .ok (m.lookup k).isSome ∧ Rel c (t.fnOp c true k eraseFn).1 (m.erase k) := by
  sorry

/-- `insert(k, v)` = upsert with a one-argument no-op: inserts iff absent, never touches a present value -/
theorem insert_spec (c : Cfg κ) (t : Table κ ν) (m : AMap κ ν) (k : κ) (v : ν) (h : Inv c t) (hr : Rel c t m)
    (b : Bool) (hb : (t.uprase c false k v false false insertFn).2.1.res = .ok b) :
    b = (m.lookup k).isNone ∧ Rel c (t.uprase c false k v false false insertFn).1 (if (m.lookup k).isNone then m.add k v else m) := by
  sorry

/-- `insert_or_assign(k, v)` = upsert with a one-argument assignment -/
theorem insert_or_assign_spec (c : Cfg κ) (t : Table κ ν) (m : AMap κ ν) (k : κ) (v : ν) (h : Inv c t) (hr : Rel c t m)
    (b : Bool) (hb : (t.uprase c false k v false false (assignFn v)).2.1.res = .ok b) :
    b = (m.lookup k).isNone ∧
    Rel c (t.uprase c false k v false false (assignFn v)).1 (if (m.lookup k).isNone then m.add k v else m.set k v) := by
  sorry

end Cuckoo.Props.C17
