import Cuckoo.Proofs.FrameAux4
import Cuckoo.Props.C01Conc
/-!
# C03Frame — write footprint: a critical section writes only inside the stripes it locks

`Props/C01Red.lean` (two-phase-locking reduction over an abstract memory) shows that lock-holds are atomic *provided*
every data access of a hold touches only locations guarded by a stripe lock the thread holds.  This file supplies the
model-side half of that proviso for the **writes**: every atomic critical section of `Model/Conc.lean` that takes the
stripes of the buckets `B` leaves everything outside those stripes untouched, for **every** table satisfying the
invariant and **every** (stale) parameter — snapshot hashpower, resize counter, cuckoo-path records, key, functor.

`WritesWithin c L t t'` (`Model/Footprint.lean`), for a list `L` of stripe indices (`lock_ind(b) = b mod kMaxNumLocks`):

* every cell `(b, s)` of the current bucket array with `lock_ind b ∉ L` is unchanged;
* the element counter and the migrated flag of every stripe `l ∉ L` are unchanged;
* lock-array size, hashpower, bucket-array size, resize counter, superseded lock arrays, `minimum_load_factor`,
  `maximum_hashpower`, worker count: unchanged;
* the only shared scalars a stripe holder touches are the two migration ones, and only monotonically:
  `num_remaining_lazy_rehash_locks_` never increases (an atomic counter in the code), and `old_buckets_` is never
  rewritten — it is either left alone or released (`none`, exactly when the counter reaches 0).

The content is *stripe stability*: `rehash_lock(l)` moves the elements of the old buckets `b ≡ l (mod M)` into
buckets `b` and `b + 2^oldhp` of the current array; since `M = 2^m ≤ 2^oldhp` whenever a migration is pending
(`Inv.pending`), both belong to stripe `l` again.  All later writes of a section go to buckets computed from the same
inputs as its lock set (`i1`, `i2` of the hashpower the section locked with, `fr.bucket ∈ {i1, i2}`, `to.bucket`), at
slots `< SLOT_PER_BUCKET` (the model checks `to.slot < S` / `fr.slot < S` exactly where a stale slot number could
otherwise address a neighbouring bucket).

Whole-table sections (`doubleSec`, `rehashSec`, `reserveSec`) run under ALL locks of the lock array and change the
hashpower, the resize counter and possibly the lock array itself: they are *owner* sections and have no stripe
footprint (`rehashSec_has_no_stripe_footprint` below is a concrete instance).  `clearSec` keeps all of those and is
covered with `L` = all stripes (`clearSec_writes_within`).

Not covered here: *read* footprints (a section's result depends only on its stripes and the validated scalars); full
commutation of sections on disjoint stripes needs them.  `disjoint_sections_commute_on_cells` states what the write
footprints alone give.
-/
namespace Cuckoo.Props.C03Frame
open Cuckoo Cuckoo.Model Cuckoo.Model.Conc Cuckoo.Spec
variable {κ ν : Type}

/-! ### algebra -/

theorem writes_within_refl (c : Cfg κ) (L : List Nat) (t : Table κ ν) : WritesWithin c L t t :=
  WritesWithin.refl c L t

/-- consecutive holds on the same stripes -/
theorem writes_within_trans {c : Cfg κ} {L : List Nat} {t t1 t2 : Table κ ν}
    (h1 : WritesWithin c L t t1) (h2 : WritesWithin c L t1 t2) : WritesWithin c L t t2 :=
  h1.trans h2

/-- a footprint may be enlarged -/
theorem writes_within_mono {c : Cfg κ} {L L2 : List Nat} {t t1 : Table κ ν}
    (h : WritesWithin c L t t1) (hsub : ∀ l, l ∈ L → l ∈ L2) : WritesWithin c L2 t t1 :=
  h.mono hsub

/-- consecutive holds on different stripes write within the union -/
theorem writes_within_append {c : Cfg κ} {L1 L2 : List Nat} {t t1 t2 : Table κ ν}
    (h1 : WritesWithin c L1 t t1) (h2 : WritesWithin c L2 t1 t2) : WritesWithin c (L1 ++ L2) t t2 :=
  h1.append h2

/-! ### the lazy migration and the locking steps -/

/-- **1.** `rehash_lock(l)` (lazy or not) writes only stripe `l`: the elements of the old buckets of stripe `l` land
in buckets of stripe `l` of the doubled array -/
theorem rehashLock_writes_within (c : Cfg κ) (t : Table κ ν) (l : Nat) (isLazy : Bool) (h : Inv c t) :
    WritesWithin c [l] t (t.rehashLock c l isLazy) :=
  ww_rehashLock c [l] t l isLazy h (List.mem_singleton.mpr rfl)

/-- the same from the two facts it really needs: `kMaxNumLocks` is a power of two that does not exceed the old bucket
count while stripe `l` is pending, and the lock array has at most `kMaxNumLocks` stripes -/
theorem rehashLock_writes_within_of_stable (c : Cfg κ) (t : Table κ ν) (m l : Nat) (isLazy : Bool) (hM : c.M = 2 ^ m)
    (hpend : ∀ lk o, t.locks[l]? = some lk → lk.migrated = false → t.old = some o →
      c.M ≤ 2 ^ o.hp ∧ t.locks.size ≤ c.M) :
    WritesWithin c [l] t (t.rehashLock c l isLazy) :=
  ww_rehashLock_of c t m l isLazy hM hpend

/-- **2.** `lock_one` / `lock_two` / `lock_three` on the buckets `bs` (any stale bucket numbers) write only the
stripes of `bs` -/
theorem lockSec_writes_within (c : Cfg κ) (bs : List Nat) (t : Table κ ν) (h : Inv c t) :
    WritesWithin c (bs.map c.lockInd) t (lockSec (ν := ν) c bs t).1 :=
  ww_lockSec c t bs h

/-- **3.** one hop of `cuckoopath_move`, for any snapshot and any two path records -/
theorem hopSec_writes_within (c : Cfg κ) (hpS rcS : Nat) (fr to : PathRec) (t : Table κ ν) (h : Inv c t) :
    WritesWithin c [c.lockInd fr.bucket, c.lockInd to.bucket] t (hopSec c hpS rcS fr to t).1 :=
  ww_hopSec c hpS rcS fr to t h

variable [DecidableEq κ]

/-- **4.** find_fn / update_fn / erase_fn: the two candidate stripes of the key under the current hashpower -/
theorem lookupSec_writes_within (c : Cfg κ) (canErase : Bool) (k : κ) (fn : ν → FnOut ν) (t : Table κ ν)
    (h : Inv c t) :
    WritesWithin c [c.lockInd (c.i1 t.hp k), c.lockInd (c.i2 t.hp k)] t (lookupSec c canErase k fn t).1 :=
  ww_fnOp c canErase t k fn h

/-- **5.** the first section of an inserting call -/
theorem insertTrySec_writes_within (c : Cfg κ) (k : κ) (v : ν) (ctxAware mayErase : Bool) (fn : Ctx → ν → FnOut ν)
    (t : Table κ ν) (h : Inv c t) :
    WritesWithin c [c.lockInd (c.i1 t.hp k), c.lockInd (c.i2 t.hp k)] t
      (insertTrySec c k v ctxAware mayErase fn t).1 :=
  ww_insertTrySec c k v ctxAware mayErase fn t h

/-- **6.** the last section of a displacing insertion: the stripes of `i1`, `i2` under the *snapshot* hashpower `hpS`
and of `to.bucket` (`lastStripes`).  When the validation fails the section has only migrated the stripes it locked;
when it succeeds, `fr.bucket ∈ {i1, i2}` and `hpS` is the current hashpower, so the hop, the duplicate's functor call
and `add_to_bucket` stay inside -/
theorem insertLastSec_writes_within (c : Cfg κ) (hpS rcS : Nat) (k : κ) (v : ν) (ctxAware mayErase : Bool)
    (fn : Ctx → ν → FnOut ν) (fr : PathRec) (to : Option PathRec) (t : Table κ ν) (h : Inv c t) :
    WritesWithin c (lastStripes c hpS k to) t (insertLastSec c hpS rcS k v ctxAware mayErase fn fr to t).1 :=
  ww_insertLastSec c hpS rcS k v ctxAware mayErase fn fr to t h

omit [DecidableEq κ] in
/-- **9.** `clear()` holds every lock; it keeps hashpower, resize counter and lock array, so it has a footprint: all
stripes -/
theorem clearSec_writes_within (c : Cfg κ) (t : Table κ ν) (h : Inv c t) :
    WritesWithin c (List.range t.locks.size) t (clearSec (ν := ν) c t).1 :=
  ww_clear c t h

/-! ### every schedule of stripe sections -/

/-- a section together with the stripes it takes in a given state, and the proof that it writes only there -/
structure FSec (c : Cfg κ) (ν : Type) where
  call : C01Conc.Call κ ν
  f : Section κ ν
  stripes : Table κ ν → List Nat
  ok : C01Conc.SecOf c call f
  frame : ∀ t, Inv c t → WritesWithin c (stripes t) t (f t).1

/-- every stripe section of `Model/Conc.lean` is one, for all parameters -/
def FSec.lock (c : Cfg κ) (call : C01Conc.Call κ ν) (bs : List Nat) : FSec c ν :=
  ⟨call, lockSec c bs, fun _ => bs.map c.lockInd, C01Conc.lockSec_sec c call bs, lockSec_writes_within c bs⟩
def FSec.hop (c : Cfg κ) (call : C01Conc.Call κ ν) (hpS rcS : Nat) (fr to : PathRec) : FSec c ν :=
  ⟨call, hopSec c hpS rcS fr to, fun _ => [c.lockInd fr.bucket, c.lockInd to.bucket],
   C01Conc.hopSec_sec c call hpS rcS fr to, hopSec_writes_within c hpS rcS fr to⟩
def FSec.lookup (c : Cfg κ) (canErase : Bool) (k : κ) (fn : ν → FnOut ν) : FSec c ν :=
  ⟨.lookup canErase k fn, lookupSec c canErase k fn, fun t => [c.lockInd (c.i1 t.hp k), c.lockInd (c.i2 t.hp k)],
   C01Conc.lookupSec_sec c canErase k fn, lookupSec_writes_within c canErase k fn⟩
def FSec.insertTry (c : Cfg κ) (k : κ) (v : ν) (ca me : Bool) (fn : Ctx → ν → FnOut ν) : FSec c ν :=
  ⟨.uprase k v ca me fn, insertTrySec c k v ca me fn, fun t => [c.lockInd (c.i1 t.hp k), c.lockInd (c.i2 t.hp k)],
   C01Conc.insertTrySec_sec c k v ca me fn, insertTrySec_writes_within c k v ca me fn⟩
def FSec.insertLast (c : Cfg κ) (hpS rcS : Nat) (k : κ) (v : ν) (ca me : Bool) (fn : Ctx → ν → FnOut ν)
    (fr : PathRec) (to : Option PathRec) : FSec c ν :=
  ⟨.uprase k v ca me fn, insertLastSec c hpS rcS k v ca me fn fr to, fun _ => lastStripes c hpS k to,
   C01Conc.insertLastSec_sec c hpS rcS k v ca me fn fr to, insertLastSec_writes_within c hpS rcS k v ca me fn fr to⟩

/-- the stripes taken along a schedule -/
def stripesOf (c : Cfg κ) : Table κ ν → List (FSec c ν) → List Nat
  | _, [] => []
  | t, e :: es => e.stripes t ++ stripesOf c (e.f t).1 es

/-- along ANY schedule of stripe sections (any interleaving, any stale parameters) the table changes only inside the
stripes that were taken: every cell, counter and flag of every other stripe, the hashpower, the resize counter and
the lock array are those of the initial table -/
theorem schedule_writes_within (c : Cfg κ) (es : List (FSec c ν)) (t : Table κ ν) (m : AMap κ ν) (h : Inv c t)
    (hr : Rel c t m) : WritesWithin c (stripesOf c t es) t (exec t (es.map (·.f))).1 := by
  induction es generalizing t m with
  | nil => exact WritesWithin.refl c _ t
  | cons e rest ih =>
    obtain ⟨i1, _, _, i4⟩ := e.ok t m h hr
    have key : ∀ m1, Rel c (e.f t).1 m1 →
        WritesWithin c (stripesOf c t (e :: rest)) t (exec t ((e :: rest).map (·.f))).1 := fun m1 r1 =>
      (e.frame t h).append (ih (e.f t).1 m1 i1 r1)
    cases hres : (e.f t).2 with
    | none => rw [hres] at i4; exact key m i4
    | some r =>
      rw [hres] at i4
      obtain ⟨m1, _, r1⟩ := i4
      exact key m1 r1

/-! ### disjoint stripes -/

omit [DecidableEq κ] in
/-- **8.** Two holds on disjoint stripe sets, in either order (`t →L1 t1 →L2 t12` and `t →L2 t2 →L1 t21`):
outside `L1 ∪ L2` both orders leave the initial cells and locks; inside `L1` the later hold on `L2` keeps exactly what
the hold on `L1` produced (and vice versa), and the hold on `L2` that runs first hands the `L1` stripes on untouched.
(That the `L1` part of `t21` equals the `L1` part of `t1` additionally needs the read footprint.) -/
theorem disjoint_sections_commute_on_cells {c : Cfg κ} {L1 L2 : List Nat} {t t1 t12 t2 t21 : Table κ ν}
    (hd : ∀ l, l ∈ L1 → l ∉ L2)
    (h1 : WritesWithin c L1 t t1) (h12 : WritesWithin c L2 t1 t12)
    (h2 : WritesWithin c L2 t t2) (h21 : WritesWithin c L1 t2 t21) :
    (∀ b s, c.lockInd b ∉ L1 → c.lockInd b ∉ L2 →
      t12.cur.get c.S b s = t.cur.get c.S b s ∧ t21.cur.get c.S b s = t.cur.get c.S b s) ∧
    (∀ l, l ∉ L1 → l ∉ L2 → t12.locks[l]? = t.locks[l]? ∧ t21.locks[l]? = t.locks[l]?) ∧
    (∀ b s, c.lockInd b ∈ L1 →
      t12.cur.get c.S b s = t1.cur.get c.S b s ∧ t2.cur.get c.S b s = t.cur.get c.S b s) ∧
    (∀ l, l ∈ L1 → t12.locks[l]? = t1.locks[l]? ∧ t2.locks[l]? = t.locks[l]?) ∧
    (∀ b s, c.lockInd b ∈ L2 →
      t21.cur.get c.S b s = t2.cur.get c.S b s ∧ t1.cur.get c.S b s = t.cur.get c.S b s) ∧
    (∀ l, l ∈ L2 → t21.locks[l]? = t2.locks[l]? ∧ t1.locks[l]? = t.locks[l]?) ∧
    t12.hp = t21.hp ∧ t12.rc = t21.rc ∧ t12.locks.size = t21.locks.size ∧ t12.oldGens = t21.oldGens := by
  have hd' : ∀ l, l ∈ L2 → l ∉ L1 := fun l h2 h1 => hd l h1 h2
  refine ⟨fun b s n1 n2 => ⟨(h12.cells b s n2).trans (h1.cells b s n1), (h21.cells b s n1).trans (h2.cells b s n2)⟩,
    fun l n1 n2 => ⟨(h12.locks l n2).trans (h1.locks l n1), (h21.locks l n1).trans (h2.locks l n2)⟩,
    fun b s m1 => ⟨h12.cells b s (hd _ m1), h2.cells b s (hd _ m1)⟩,
    fun l m1 => ⟨h12.locks l (hd _ m1), h2.locks l (hd _ m1)⟩,
    fun b s m2 => ⟨h21.cells b s (hd' _ m2), h1.cells b s (hd' _ m2)⟩,
    fun l m2 => ⟨h21.locks l (hd' _ m2), h1.locks l (hd' _ m2)⟩,
    ?_, ?_, ?_, ?_⟩
  · rw [h12.hp, h1.hp, h21.hp, h2.hp]
  · rw [h12.rc, h1.rc, h21.rc, h2.rc]
  · rw [h12.nlocks, h1.nlocks, h21.nlocks, h2.nlocks]
  · rw [h12.gens, h1.gens, h21.gens, h2.gens]

/-! ### non-vacuity: a concrete table with a pending migration -/

/-- 2 slots per bucket, 2 stripes, identity hash -/
def cE : Cfg Nat := { S := 2, M := 2, hash := id, simple := true, nothrowMove := true, hpLimit := 10 }
def idFn : Ctx → Nat → FnOut Nat := fun _ v => .ret v false

/-- `cuckoohash_map(4)` (2 buckets), then `insert(0,0)`, `insert(1,10)`, `insert(2,20)`, `insert(3,30)`: full -/
def tFull : Table Nat Nat :=
  (exec (Table.init cE 4) [insertTrySec cE 0 0 false false idFn, insertTrySec cE 1 10 false false idFn,
    insertTrySec cE 2 20 false false idFn, insertTrySec cE 3 30 false false idFn]).1

/-- … then `cuckoo_fast_double`: 4 buckets, both stripes pending, all four elements still in the old array -/
def tPend : Table Nat Nat := (fastDouble cE false false 5 tFull 1).1

def keyAt (t : Table Nat Nat) (b s : Nat) : Option Nat := (t.cur.get cE.S b s).map (·.key)
def lockAt (t : Table Nat Nat) (l : Nat) : Option (Int × Bool) := t.locks[l]?.map (fun x => (x.cnt, x.migrated))
def keysOf (t : Table Nat Nat) : List (List (Option Nat)) :=
  (List.range 4).map (fun b => (List.range 2).map (keyAt t b))

theorem tFull_inv_rel : Inv cE tFull ∧ ∃ m, Rel cE tFull m := by
  obtain ⟨h0, r0⟩ := C02.init_refines (ν := Nat) cE 4 (by decide) ⟨1, rfl⟩
  obtain ⟨m, _, h, r⟩ := C01Conc.conc_linearizable cE
    [⟨.uprase 0 0 false false idFn, _, C01Conc.insertTrySec_sec cE 0 0 false false idFn⟩,
     ⟨.uprase 1 10 false false idFn, _, C01Conc.insertTrySec_sec cE 1 10 false false idFn⟩,
     ⟨.uprase 2 20 false false idFn, _, C01Conc.insertTrySec_sec cE 2 20 false false idFn⟩,
     ⟨.uprase 3 30 false false idFn, _, C01Conc.insertTrySec_sec cE 3 30 false false idFn⟩] _ [] h0 r0
  simp only [List.map] at h r
  exact ⟨h, m, r⟩

theorem tFull_inv : Inv cE tFull := tFull_inv_rel.1

/-- the hypotheses of the theorems are satisfiable by a table with a pending migration -/
theorem tPend_inv : Inv cE tPend := (fastDouble_spec cE false false 5 tFull 1 tFull_inv (fun e => by cases e)).1

theorem tPend_rel : ∃ m, Rel cE tPend m := by
  obtain ⟨m, r⟩ := tFull_inv_rel.2
  exact ⟨m, r.of_same (fastDouble_spec cE false false 5 tFull 1 tFull_inv (fun e => by cases e)).2.1⟩

example : keysOf tPend = [[none, none], [none, none], [none, none], [none, none]] ∧
    lockAt tPend 0 = some (2, false) ∧ lockAt tPend 1 = some (2, false) ∧ tPend.rem = 2 ∧ tPend.old.isSome = true := by
  decide +kernel

/-- taking the stripe of bucket 0 really writes inside stripe 0 (buckets 0 and 2, flag of lock 0, `rem`) … -/
example : keysOf (lockSec (ν := Nat) cE [0] tPend).1 = [[none, some 0], [none, none], [some 2, none], [none, none]] ∧
    lockAt (lockSec (ν := Nat) cE [0] tPend).1 0 = some (2, true) ∧ (lockSec (ν := Nat) cE [0] tPend).1.rem = 1 := by
  decide +kernel

/-- … and, by the theorem, nothing of stripe 1 -/
example (s : Nat) : (lockSec (ν := Nat) cE [0] tPend).1.cur.get cE.S 3 s = tPend.cur.get cE.S 3 s ∧
    (lockSec (ν := Nat) cE [0] tPend).1.locks[1]? = tPend.locks[1]? :=
  ⟨(lockSec_writes_within cE [0] tPend tPend_inv).cells 3 s (by decide),
   (lockSec_writes_within cE [0] tPend tPend_inv).locks 1 (by decide)⟩

/-- the holder that migrates the last stripe releases the old array: the second alternative of `old` occurs -/
example : (lockSec (ν := Nat) cE [1] (lockSec (ν := Nat) cE [0] tPend).1).1.old.isSome = false ∧
    (lockSec (ν := Nat) cE [1] (lockSec (ν := Nat) cE [0] tPend).1).1.rem = 0 ∧
    keysOf (lockSec (ν := Nat) cE [1] (lockSec (ν := Nat) cE [0] tPend).1).1 =
      [[none, some 0], [none, none], [some 2, none], [some 3, some 1]] := by
  decide +kernel

/-- `erase(1)` on the pending table (both candidate buckets 1 and 3 of key 1 are in stripe 1): migrates stripe 1, erases
the key from bucket 3 and decrements the counter of stripe 1; stripe 0 stays pending -/
example : keysOf (lookupSec cE true 1 (fun v => .ret v true) tPend).1 =
      [[none, none], [none, none], [none, none], [some 3, none]] ∧
    lockAt (lookupSec cE true 1 (fun v => .ret v true) tPend).1 1 = some (1, true) ∧
    lockAt (lookupSec cE true 1 (fun v => .ret v true) tPend).1 0 = some (2, false) ∧
    (lookupSec cE true 1 (fun v => .ret v true) tPend).1.rem = 1 := by
  decide +kernel

/-- a hop on the pending table with arbitrary stale snapshot and slots, through the theorem: bucket 1 (stripe 1) is out
of reach of a hop between buckets 0 and 2 -/
example (s : Nat) (hpS rcS : Nat) (fr to : PathRec) (hf : fr.bucket = 0) (ht : to.bucket = 2) :
    (hopSec cE hpS rcS fr to tPend).1.cur.get cE.S 1 s = tPend.cur.get cE.S 1 s := by
  refine (hopSec_writes_within cE hpS rcS fr to tPend tPend_inv).cells 1 s ?_
  rw [hf, ht]
  decide

/-- a schedule on the pending table: an erase of key 1 (stripe 1), a stale hop between buckets 1 and 3 and the last
section of an insertion of key 5 with a stale snapshot take only stripe 1; whatever they do, stripe 0 stays pending
and its buckets stay empty -/
example (hpS rcS : Nat) (fr to : PathRec) (hf : fr.bucket = 1) (ht : to.bucket = 3) (s : Nat) :
    (exec tPend [lookupSec cE true 1 (fun v => .ret v true), hopSec cE hpS rcS fr to,
        insertLastSec cE 2 rcS 5 50 false false idFn fr none]).1.locks[0]? = tPend.locks[0]? ∧
    (exec tPend [lookupSec cE true 1 (fun v => .ret v true), hopSec cE hpS rcS fr to,
        insertLastSec cE 2 rcS 5 50 false false idFn fr none]).1.cur.get cE.S 2 s = tPend.cur.get cE.S 2 s := by
  obtain ⟨m, r0⟩ := tPend_rel
  have hw := schedule_writes_within cE
    [FSec.lookup cE true 1 (fun v => .ret v true), FSec.hop cE (.lookup true 1 (fun v => .ret v true)) hpS rcS fr to,
     FSec.insertLast cE 2 rcS 5 50 false false idFn fr none] tPend m tPend_inv r0
  simp only [List.map, FSec.lookup, FSec.hop, FSec.insertLast] at hw
  have hL : ∀ l, l ∈ stripesOf cE tPend
      [FSec.lookup cE true 1 (fun v => .ret v true), FSec.hop cE (.lookup true 1 (fun v => .ret v true)) hpS rcS fr to,
       FSec.insertLast cE 2 rcS 5 50 false false idFn fr none] → l = 1 := by
    intro l hl
    simp only [stripesOf, FSec.lookup, FSec.hop, FSec.insertLast, lastStripes, hf, ht, List.append_nil,
      List.mem_append, List.mem_cons, List.not_mem_nil, or_false] at hl
    have e1 : cE.lockInd (cE.i1 tPend.hp 1) = 1 := by decide +kernel
    have e2 : cE.lockInd (cE.i2 tPend.hp 1) = 1 := by decide +kernel
    have e3 : cE.lockInd 1 = 1 := by decide
    have e4 : cE.lockInd 3 = 1 := by decide
    have e5 : cE.lockInd (cE.i1 2 5) = 1 := by decide +kernel
    have e6 : cE.lockInd (cE.i2 2 5) = 1 := by decide +kernel
    rw [e1, e2, e3, e4, e5, e6] at hl
    rcases hl with (h | h) | (h | h) | (h | h) <;> exact h
  exact ⟨hw.locks 0 (fun hm => absurd (hL 0 hm) (by decide)),
         hw.cells 2 s (fun hm => absurd (hL _ hm) (by decide))⟩

/-- **9.** an owner section has no stripe footprint: `rehash(2)` on the full table changes the hashpower -/
theorem rehashSec_has_no_stripe_footprint (L : List Nat) : ¬ WritesWithin cE L tFull (rehashSec cE 2 tFull).1 :=
  fun h => absurd h.hp (by decide)

end Cuckoo.Props.C03Frame
