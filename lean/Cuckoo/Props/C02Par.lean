import Cuckoo.Model.Par
import Cuckoo.Proofs.Migrate
import Cuckoo.Proofs.ParAux
/-!
# C02 (helper threads) — the work of a batch migration / rebuild is handed out completely and without overlap

`rehash_with_workers` and the rebuild inside `cuckoo_expand_simple` run their loop body over `[0, n)` through
`parallel_exec(_noexcept)`: `max_num_worker_threads()` helper threads get equal chunks, the caller the rest.
For every range and every number of workers the chunks are consecutive, disjoint and cover the range exactly
(`splitWork_partition`); consequently running the chunks one after the other is the sequential loop
(`fold_chunks_eq`), and two different stripes migrate independently (`rehashLock_comm`), so that EVERY order in which
the helpers get through their stripes — every interleaving at the granularity of whole `rehash_lock` calls — leaves
exactly the table of the sequential loop (`migrate_any_order`, `migrate_with_workers`).  The K2 streams with
`setworkers` compare the real table's state after batch migrations with the model's sequential result.
-/
namespace Cuckoo.Props.C02Par
open Cuckoo Cuckoo.Model
variable {κ ν : Type}

theorem go_cover (per e : Nat) : ∀ (n start : Nat), start + n * per ≤ e →
    (splitWork.go per e n start).flatMap chunkIdx = List.range' start (e - start)
  | 0, start, _ => by simp [splitWork.go, chunkIdx]
  | n + 1, start, h => by
    have h' : start + per + n * per ≤ e := by
      have : (n + 1) * per = per + n * per := by rw [Nat.add_mul, Nat.one_mul, Nat.add_comm]
      omega
    have ih := go_cover per e n (start + per) h'
    have hle : per ≤ e - start := by
      have : (n + 1) * per = per + n * per := by rw [Nat.add_mul, Nat.one_mul, Nat.add_comm]
      omega
    simp only [splitWork.go, List.flatMap_cons, ih, chunkIdx]
    have e1 : start + per - start = per := by omega
    have e2 : e - start = per + (e - (start + per)) := by omega
    rw [e1, e2, ← List.range'_append_1]

/-- every index of the range is handed to exactly one worker, in order, none twice, none dropped -/
theorem splitWork_partition (s e workers : Nat) (h : s ≤ e) :
    (splitWork s e workers).flatMap chunkIdx = List.range' s (e - s) := by
  unfold splitWork
  apply go_cover
  have : workers * ((e - s) / (workers + 1)) ≤ e - s := by
    calc workers * ((e - s) / (workers + 1)) ≤ (workers + 1) * ((e - s) / (workers + 1)) :=
          Nat.mul_le_mul_right _ (Nat.le_succ _)
      _ ≤ e - s := Nat.mul_div_le _ _
  omega

theorem splitWork_length (s e workers : Nat) : (splitWork s e workers).length = workers + 1 := by
  unfold splitWork
  generalize (e - s) / (workers + 1) = per
  induction workers generalizing s with
  | zero => rfl
  | succ n ih => simp [splitWork.go, ih]


/-- folding a step function over the chunks in order is folding it over the whole range: the chunked batch migration
run on one thread is the sequential loop -/
theorem fold_chunks_eq {σ : Type} (f : σ → Nat → σ) (x : σ) (s e workers : Nat) (h : s ≤ e) :
    (splitWork s e workers).foldl (fun acc c => (chunkIdx c).foldl f acc) x = (List.range' s (e - s)).foldl f x := by
  rw [← splitWork_partition s e workers h, List.foldl_flatMap]

/-! ### helper threads may process the stripes in any order

`rehash_with_workers` runs `rehash_lock<not lazy>(i)` for the stripes of each chunk on a different thread.  Two stripes
own disjoint sets of buckets (old buckets `≡ i (mod M)` and the buckets they split into), so the calls commute, and
every schedule of the helpers — at the granularity of whole `rehash_lock` calls: any order in which each stripe index
occurs once — leaves the very same table as the sequential loop of the model.  (Interleavings *inside* two calls touch
disjoint memory; that finer granularity is an assumption, stated in the manifest.) -/

/-- two different stripes migrate independently -/
theorem rehashLock_comm (c : Cfg κ) (t : Table κ ν) (h : Inv c t) (i j : Nat) (hij : i ≠ j) :
    (t.rehashLock c i false).rehashLock c j false = (t.rehashLock c j false).rehashLock c i false :=
  rehashLock_comm_of_le c t h.locks_le i j hij

/-- every order of the stripes gives the table the sequential batch migration gives -/
theorem migrate_any_order (c : Cfg κ) (t : Table κ ν) (h : Inv c t) (order : List Nat)
    (hp : order.Perm (List.range t.locks.size)) :
    (order.foldl (fun t l => t.rehashLock c l false) t).setRem 0 = t.migrateAll c := by
  rw [foldl_rehashLock_perm c t h.locks_le hp, List.range_eq_range', ← migrateAll_go_eq_foldl]
  rfl

/-- in particular every interleaving of the chunks handed to the helper threads -/
theorem migrate_with_workers (c : Cfg κ) (t : Table κ ν) (h : Inv c t) (workers : Nat) (order : List Nat)
    (hp : order.Perm ((splitWork 0 t.locks.size workers).flatMap chunkIdx)) :
    (order.foldl (fun t l => t.rehashLock c l false) t).setRem 0 = t.migrateAll c := by
  apply migrate_any_order c t h order
  rw [splitWork_partition 0 t.locks.size workers (Nat.zero_le _), Nat.sub_zero] at hp
  rw [List.range_eq_range']
  exact hp

example : splitWork 0 10 3 = [(0, 2), (2, 4), (4, 6), (6, 10)] := by decide
example : splitWork 3 3 2 = [(3, 3), (3, 3), (3, 3)] := by decide

end Cuckoo.Props.C02Par
