import Cuckoo.Model.Par
import Cuckoo.Proofs.Migrate
/-!
# C02 (helper threads) — the work of a batch migration / rebuild is handed out completely and without overlap

`rehash_with_workers` and the rebuild inside `cuckoo_expand_simple` run their loop body over `[0, n)` through
`parallel_exec(_noexcept)`: `max_num_worker_threads()` helper threads get equal chunks, the caller the rest.
For every range and every number of workers the chunks are consecutive, disjoint and cover the range exactly
(`splitWork_partition`); consequently running the chunks one after the other is the sequential loop
(`migrate_chunks_eq`).  That concurrent chunks commute (they touch disjoint stripes) is not proved here; the K2
streams with `setworkers` compare the real table's state after batch migrations with the model's sequential result.
-/
namespace Cuckoo.Props.C02Par
open Cuckoo Cuckoo.Model
variable {κ ν : Type}

theorem go_cover (per e : Nat) : ∀ (n start : Nat), start + n * per ≤ e →
    (splitWork.go per e n start).flatMap chunkIdx = List.range' start (e - start)
  | 0, start, _ => by simp [splitWork.go, chunkIdx]
  | n + 1, start, h => by
    have h' : start + per + n * per ≤ e := by
      have : (n + 1) * per = per + n * per := by rw [Nat.add_mul, Nat.one_mul, Nat.add_comm]
      omega
    have ih := go_cover per e n (start + per) h'
    have hle : per ≤ e - start := by
      have : (n + 1) * per = per + n * per := by rw [Nat.add_mul, Nat.one_mul, Nat.add_comm]
      omega
    simp only [splitWork.go, List.flatMap_cons, ih, chunkIdx]
    have e1 : start + per - start = per := by omega
    have e2 : e - start = per + (e - (start + per)) := by omega
    rw [e1, e2, ← List.range'_append_1]

/-- every index of the range is handed to exactly one worker, in order, none twice, none dropped -/
theorem splitWork_partition (s e workers : Nat) (h : s ≤ e) :
    (splitWork s e workers).flatMap chunkIdx = List.range' s (e - s) := by
  unfold splitWork
  apply go_cover
  have : workers * ((e - s) / (workers + 1)) ≤ e - s := by
    calc workers * ((e - s) / (workers + 1)) ≤ (workers + 1) * ((e - s) / (workers + 1)) :=
          Nat.mul_le_mul_right _ (Nat.le_succ _)
      _ ≤ e - s := Nat.mul_div_le _ _
  omega

theorem splitWork_length (s e workers : Nat) : (splitWork s e workers).length = workers + 1 := by
  unfold splitWork
  generalize (e - s) / (workers + 1) = per
  induction workers generalizing s with
  | zero => rfl
  | succ n ih => simp [splitWork.go, ih]


/-- folding a step function over the chunks in order is folding it over the whole range: the chunked batch migration
run on one thread is the sequential loop -/
theorem fold_chunks_eq {σ : Type} (f : σ → Nat → σ) (x : σ) (s e workers : Nat) (h : s ≤ e) :
    (splitWork s e workers).foldl (fun acc c => (chunkIdx c).foldl f acc) x = (List.range' s (e - s)).foldl f x := by
  rw [← splitWork_partition s e workers h, List.foldl_flatMap]

example : splitWork 0 10 3 = [(0, 2), (2, 4), (4, 6), (6, 10)] := by decide
example : splitWork 3 3 2 = [(3, 3), (3, 3), (3, 3)] := by decide

end Cuckoo.Props.C02Par
