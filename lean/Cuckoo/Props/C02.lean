import Cuckoo.Proofs.Resize
import Cuckoo.Proofs.SpecMap
import Cuckoo.Proofs.C02Aux
/-!
# C02 — sequential behaviour refines an associative map through every resize path

`Rel c t m` : the table `t` represents the association list `m` (unique keys); `Inv c t` : the table
invariant.  Every public operation of the executable model, started from *any* state with `Inv` and
`Rel` (so: after any history, in any layout, with any pending deferred migration, for any hash
function `c.hash`, any slots-per-bucket `c.S > 0`, any power-of-two stripe limit `c.M`), returns what
the abstract map returns and ends in a state that again satisfies `Inv` and represents the updated
map.  An inserting / resizing call may instead end with one of the permitted failures
(`ResizeErr`: load factor too low, maximum hashpower exceeded, allocation failure) and then the map
is unchanged.  `seq_refines` lifts this to every finite operation sequence.
-/
namespace Cuckoo.Props.C02
open Cuckoo Cuckoo.Model Cuckoo.Model.C02A Cuckoo.Spec
variable {κ ν : Type} [DecidableEq κ]

/-- a freshly constructed table is well formed and empty, for any initial capacity -/
theorem init_refines (c : Cfg κ) (n : Nat) (hS : 0 < c.S) (hM : ∃ m, c.M = 2 ^ m) :
    Inv c (Table.init c n : Table κ ν) ∧ Rel c (Table.init c n : Table κ ν) [] := by
  exact init_rel c n hS hM

/-- `find_fn` / `update_fn` / `erase_fn` (hence `find`, `contains`, `update`, `erase`): found iff
present; the functor sees the stored value; its effect (new value, erasure) is exactly what is applied -/
theorem fnOp_refines (c : Cfg κ) (canErase : Bool) (t : Table κ ν) (m : AMap κ ν) (k : κ) (fn : ν → FnOut ν)
    (h : Inv c t) (hr : Rel c t m) :
    Inv c (t.fnOp c canErase k fn).1 ∧
    match m.lookup k with
    | none => (t.fnOp c canErase k fn).2.res = .ok false ∧ (t.fnOp c canErase k fn).2.calls = [] ∧
        Rel c (t.fnOp c canErase k fn).1 m
    | some v =>
      (t.fnOp c canErase k fn).2.calls = [⟨none, v⟩] ∧
      match fn v with
      | .ret v' er => (t.fnOp c canErase k fn).2.res = .ok true ∧
          Rel c (t.fnOp c canErase k fn).1 (if canErase && er then m.erase k else m.set k v')
      | .throw v' => (t.fnOp c canErase k fn).2.res = .err .fnThrow ∧ Rel c (t.fnOp c canErase k fn).1 (m.set k v') := by
  exact fnOp_spec c canErase t m k fn h hr

/-- `find(key)` returning the value -/
theorem findVal_refines (c : Cfg κ) (t : Table κ ν) (m : AMap κ ν) (k : κ) (h : Inv c t) (hr : Rel c t m) :
    Inv c (t.findVal c k).1 ∧ Rel c (t.findVal c k).1 m ∧
    (t.findVal c k).2 = (match m.lookup k with | some v => .ok v | none => .err .outOfRange) := by
  exact findVal_spec c t m k h hr

/-- what `uprase_fn` / `upsert` / `insert` / `insert_or_assign` must do to the abstract map, given the
functor `fn`, whether it accepts a context, and whether its result may erase -/
def upraseSpec (m : AMap κ ν) (k : κ) (v : ν) (ctxAware mayErase : Bool) (fn : Ctx → ν → FnOut ν) :
    Res Bool × List (Call ν) × AMap κ ν :=
  match m.lookup k with
  | some old =>
    let call : Call ν := ⟨if ctxAware then some .alreadyExisted else none, old⟩
    match fn .alreadyExisted old with
    | .ret v' er => (.ok false, [call], if mayErase && er then m.erase k else m.set k v')
    | .throw v' => (.err .fnThrow, [call], m.set k v')
  | none =>
    if ctxAware then
      let call : Call ν := ⟨some .newlyInserted, v⟩
      match fn .newlyInserted v with
      | .ret v' er => (.ok true, [call], if mayErase && er then m else m.add k v')
      | .throw v' => (.err .fnThrow, [call], m.add k v')
    else (.ok true, [], m.add k v)

/-- the inserting operations, in normal mode (`locked = false`) and inside a locked table -/
theorem uprase_refines (c : Cfg κ) (locked : Bool) (t : Table κ ν) (m : AMap κ ν) (k : κ) (v : ν)
    (ctxAware mayErase : Bool) (fn : Ctx → ν → FnOut ν)
    (h : Inv c t) (hr : Rel c t m) (hl : locked = true → AllMig t) :
    Inv c (t.uprase c locked k v ctxAware mayErase fn).1 ∧
    (locked = true → AllMig (t.uprase c locked k v ctxAware mayErase fn).1) ∧
    ((∃ e, (t.uprase c locked k v ctxAware mayErase fn).2.1.res = .err e ∧ ResizeErr e ∧
          (t.uprase c locked k v ctxAware mayErase fn).2.1.calls = [] ∧
          Rel c (t.uprase c locked k v ctxAware mayErase fn).1 m) ∨
     ((t.uprase c locked k v ctxAware mayErase fn).2.1.res = (upraseSpec m k v ctxAware mayErase fn).1 ∧
      (t.uprase c locked k v ctxAware mayErase fn).2.1.calls = (upraseSpec m k v ctxAware mayErase fn).2.1 ∧
      Rel c (t.uprase c locked k v ctxAware mayErase fn).1 (upraseSpec m k v ctxAware mayErase fn).2.2)) := by
  exact uprase_spec c locked t m k v ctxAware mayErase fn h hr hl

/-- `rehash(n)`: contents unchanged whatever happens -/
theorem rehash_refines (c : Cfg κ) (locked : Bool) (t : Table κ ν) (m : AMap κ ν) (n : Nat)
    (h : Inv c t) (hr : Rel c t m) (hl : locked = true → AllMig t) :
    Inv c (t.rehash c locked n).1 ∧ Rel c (t.rehash c locked n).1 m ∧
    (locked = true → AllMig (t.rehash c locked n).1) ∧
    (match (t.rehash c locked n).2 with | .ok _ => True | .err e => ResizeErr e) := by
  exact rehash_spec c locked t m n h hr hl

/-- `reserve(n)`: contents unchanged whatever happens -/
theorem reserve_refines (c : Cfg κ) (locked : Bool) (t : Table κ ν) (m : AMap κ ν) (n : Nat)
    (h : Inv c t) (hr : Rel c t m) (hl : locked = true → AllMig t) :
    Inv c (t.reserve c locked n).1 ∧ Rel c (t.reserve c locked n).1 m ∧
    (locked = true → AllMig (t.reserve c locked n).1) ∧
    (match (t.reserve c locked n).2 with | .ok _ => True | .err e => ResizeErr e) := by
  exact reserve_spec c locked t m n h hr hl

/-- `clear()` -/
theorem clear_refines (c : Cfg κ) (t : Table κ ν) (m : AMap κ ν) (h : Inv c t) (hr : Rel c t m) :
    Inv c (t.clear c) ∧ Rel c (t.clear c) [] ∧ AllMig (t.clear c) := by
  exact clear_rel c t h

/-- `lock_table()`: same contents, every pending migration finished -/
theorem lockTable_refines (c : Cfg κ) (t : Table κ ν) (m : AMap κ ν) (h : Inv c t) (hr : Rel c t m) :
    Inv c (t.lockTable c) ∧ Rel c (t.lockTable c) m ∧ AllMig (t.lockTable c) ∧ (t.lockTable c).old = none := by
  exact lockTable_spec c t m h hr

/-- the setters do not touch the contents -/
theorem setMlf_refines (c : Cfg κ) (t : Table κ ν) (m : AMap κ ν) (x : Float) (h : Inv c t) (hr : Rel c t m) :
    Inv c (t.setMlf x).1 ∧ Rel c (t.setMlf x).1 m := by
  exact ⟨(setMlf_spec c t m x h hr).1, (setMlf_spec c t m x h hr).2.1⟩

theorem setMhp_refines (c : Cfg κ) (t : Table κ ν) (m : AMap κ ν) (x : Nat) (h : Inv c t) (hr : Rel c t m) :
    Inv c (t.setMhp x).1 ∧ Rel c (t.setMhp x).1 m := by
  exact ⟨(setMhp_spec c t m x h hr).1, (setMhp_spec c t m x h hr).2.1⟩

/-- `locked_table::erase(key)` -/
theorem ltErase_refines (c : Cfg κ) (t : Table κ ν) (m : AMap κ ν) (k : κ) (h : Inv c t) (hr : Rel c t m)
    (hl : AllMig t) :
    Inv c (t.ltErase c k).1 ∧ AllMig (t.ltErase c k).1 ∧ Rel c (t.ltErase c k).1 (m.erase k) ∧
    (t.ltErase c k).2 = (match m.lookup k with | some _ => 1 | none => 0) := by
  exact ltErase_spec c t m k h hr hl

/-- `locked_table::insert(key, val)`: inserts iff absent; the returned position holds the key with its
(new or previous) value -/
theorem ltInsert_refines (c : Cfg κ) (t : Table κ ν) (m : AMap κ ν) (k : κ) (v : ν) (h : Inv c t) (hr : Rel c t m)
    (hl : AllMig t) :
    Inv c (t.ltInsert c k v).1 ∧ AllMig (t.ltInsert c k v).1 ∧
    match (t.ltInsert c k v).2 with
    | .err e => ResizeErr e ∧ Rel c (t.ltInsert c k v).1 m
    | .ok (p, inserted) =>
      inserted = (m.lookup k).isNone ∧
      Rel c (t.ltInsert c k v).1 (if inserted then m.add k v else m) ∧
      ∃ sl, (t.ltInsert c k v).1.cur.get c.S p.1 p.2 = some sl ∧ sl.key = k ∧
        sl.val = (match m.lookup k with | some old => old | none => v) := by
  exact ltInsert_spec c t m k v h hr hl

/-! ### every finite sequence of operations -/

/-- the operations of the public API (the named C++ members are instances: `find`, `contains`, `update`,
`erase` are `fnOp`; `insert`, `insert_or_assign`, `upsert`, `uprase_fn` are `uprase`) -/
inductive Op (κ ν : Type)
  | fnOp (canErase : Bool) (k : κ) (fn : ν → FnOut ν)
  | findVal (k : κ)
  | uprase (k : κ) (v : ν) (ctxAware mayErase : Bool) (fn : Ctx → ν → FnOut ν)
  | rehash (n : Nat)
  | reserve (n : Nat)
  | clear
  | setMlf (x : Float)
  | setMhp (x : Nat)
  | lockTable      -- start of a locked section
  | unlock         -- end of it
  | ltErase (k : κ)
  | ltInsert (k : κ) (v : ν)

/-- what a caller observes -/
inductive Obs (ν : Type)
  | bool (r : Res Bool) (calls : List (Call ν))
  | val (r : Res ν)
  | unit (r : Res Unit)
  | count (n : Nat)
  | ins (r : Res Bool)

/-- a table together with the mode it is in -/
structure MT (κ ν : Type) where
  t : Table κ ν
  locked : Bool

/-- one call on the executable model; an operation that is not available in the current mode is a no-op -/
def step (c : Cfg κ) (s : MT κ ν) : Op κ ν → MT κ ν × Obs ν
  | .fnOp ce k fn => if s.locked then (s, .unit (.ok ())) else
      let r := s.t.fnOp c ce k fn; ({ s with t := r.1 }, .bool r.2.res r.2.calls)
  | .findVal k => if s.locked then (s, .unit (.ok ())) else
      let r := s.t.findVal c k; ({ s with t := r.1 }, .val r.2)
  | .uprase k v ca me fn => if s.locked then (s, .unit (.ok ())) else
      let r := s.t.uprase c false k v ca me fn; ({ s with t := r.1 }, .bool r.2.1.res r.2.1.calls)
  | .rehash n => let r := s.t.rehash c s.locked n; ({ s with t := r.1 }, .ins r.2)
  | .reserve n => let r := s.t.reserve c s.locked n; ({ s with t := r.1 }, .ins r.2)
  | .clear => ({ s with t := s.t.clear c }, .unit (.ok ()))
  | .setMlf x => let r := s.t.setMlf x; ({ s with t := r.1 }, .unit r.2)
  | .setMhp x => let r := s.t.setMhp x; ({ s with t := r.1 }, .unit r.2)
  | .lockTable => if s.locked then (s, .unit (.ok ())) else ({ t := s.t.lockTable c, locked := true }, .unit (.ok ()))
  | .unlock => ({ s with locked := false }, .unit (.ok ()))
  | .ltErase k => if s.locked then let r := s.t.ltErase c k; ({ s with t := r.1 }, .count r.2) else (s, .unit (.ok ()))
  | .ltInsert k v => if s.locked then
      let r := s.t.ltInsert c k v
      ({ s with t := r.1 }, .ins (match r.2 with | .ok (_, b) => .ok b | .err e => .err e))
    else (s, .unit (.ok ()))

/-- what the abstract map allows for one call: the observation and the next map.  `locked` is the mode. -/
def specStep (locked : Bool) (m : AMap κ ν) (op : Op κ ν) (o : Obs ν) (m' : AMap κ ν) : Prop :=
  match op with
  | .fnOp ce k fn => if locked then (o = .unit (.ok ()) ∧ m' = m) else
      match m.lookup k with
      | none => o = .bool (.ok false) [] ∧ m' = m
      | some v =>
        match fn v with
        | .ret v' er => o = .bool (.ok true) [⟨none, v⟩] ∧ m' = (if ce && er then m.erase k else m.set k v')
        | .throw v' => o = .bool (.err .fnThrow) [⟨none, v⟩] ∧ m' = m.set k v'
  | .findVal k => if locked then (o = .unit (.ok ()) ∧ m' = m) else
      o = .val (match m.lookup k with | some v => .ok v | none => .err .outOfRange) ∧ m' = m
  | .uprase k v ca me fn => if locked then (o = .unit (.ok ()) ∧ m' = m) else
      (∃ e, ResizeErr e ∧ o = .bool (.err e) [] ∧ m' = m) ∨
      (o = .bool (upraseSpec m k v ca me fn).1 (upraseSpec m k v ca me fn).2.1 ∧ m' = (upraseSpec m k v ca me fn).2.2)
  | .rehash _ | .reserve _ => m' = m ∧ ∃ r, o = .ins r ∧ (match r with | .ok _ => True | .err e => ResizeErr e)
  | .clear => o = .unit (.ok ()) ∧ m' = []
  | .setMlf _ | .setMhp _ => m' = m ∧ ∃ r, o = .unit r
  | .lockTable | .unlock => o = .unit (.ok ()) ∧ m' = m
  | .ltErase k => if locked then (o = .count (match m.lookup k with | some _ => 1 | none => 0) ∧ m' = m.erase k)
      else (o = .unit (.ok ()) ∧ m' = m)
  | .ltInsert k v => if locked then
      ((∃ e, ResizeErr e ∧ o = .ins (.err e) ∧ m' = m) ∨
       (o = .ins (.ok (m.lookup k).isNone) ∧ m' = (if (m.lookup k).isNone then m.add k v else m)))
    else (o = .unit (.ok ()) ∧ m' = m)

/-- the state invariant of a sequential run: `Inv`, and inside a locked section everything migrated -/
def Good (c : Cfg κ) (s : MT κ ν) (m : AMap κ ν) : Prop :=
  Inv c s.t ∧ Rel c s.t m ∧ (s.locked = true → AllMig s.t)

/-- one step refines the abstract map -/
theorem step_refines (c : Cfg κ) (s : MT κ ν) (m : AMap κ ν) (op : Op κ ν) (hg : Good c s m) :
    ∃ m', specStep s.locked m op (step c s op).2 m' ∧ Good c (step c s op).1 m' := by
  obtain ⟨t, locked⟩ := s
  obtain ⟨hi, hr, hl⟩ := hg
  simp only at hi hr hl
  cases op with
  | fnOp ce k fn =>
    cases locked with
    | true => exact ⟨m, ⟨rfl, rfl⟩, hi, hr, hl⟩
    | false =>
      obtain ⟨a1, a2⟩ := fnOp_refines c ce t m k fn hi hr
      cases hlook : m.lookup k with
      | none =>
        rw [hlook] at a2
        obtain ⟨r1, r2, r3⟩ := a2
        exact ⟨m, by simp [specStep, step, hlook, r1, r2], a1, r3, fun e => by cases e⟩
      | some w =>
        rw [hlook] at a2
        obtain ⟨r1, r2⟩ := a2
        cases hfn : fn w with
        | ret v' er =>
          rw [hfn] at r2
          exact ⟨_, by simp [specStep, step, hlook, hfn, r1, r2.1], a1, r2.2,
            fun e => by cases e⟩
        | throw v' =>
          rw [hfn] at r2
          exact ⟨_, by simp [specStep, step, hlook, hfn, r1, r2.1], a1, r2.2,
            fun e => by cases e⟩
  | findVal k =>
    cases locked with
    | true => exact ⟨m, ⟨rfl, rfl⟩, hi, hr, hl⟩
    | false =>
      obtain ⟨a1, a2, a3⟩ := findVal_refines c t m k hi hr
      exact ⟨m, by simp [specStep, step, a3], a1, a2, fun e => by cases e⟩
  | uprase k v ca me fn =>
    cases locked with
    | true => exact ⟨m, ⟨rfl, rfl⟩, hi, hr, hl⟩
    | false =>
      obtain ⟨a1, _, a3⟩ := uprase_refines c false t m k v ca me fn hi hr (fun e => by cases e)
      rcases a3 with ⟨e, r1, r2, r3, r4⟩ | ⟨r1, r2, r3⟩
      · exact ⟨m, by simp [specStep, step, r1, r3, r2], a1, r4,
          fun e => by cases e⟩
      · exact ⟨_, by simp [specStep, step, r1, r2], a1, r3,
          fun e => by cases e⟩
  | rehash n =>
    obtain ⟨a1, a2, a3, a4⟩ := rehash_refines c locked t m n hi hr hl
    exact ⟨m, ⟨rfl, _, rfl, a4⟩, a1, a2, a3⟩
  | reserve n =>
    obtain ⟨a1, a2, a3, a4⟩ := reserve_refines c locked t m n hi hr hl
    exact ⟨m, ⟨rfl, _, rfl, a4⟩, a1, a2, a3⟩
  | clear =>
    obtain ⟨a1, a2, a3⟩ := clear_refines c t m hi hr
    exact ⟨[], ⟨rfl, rfl⟩, a1, a2, fun _ => a3⟩
  | setMlf x =>
    obtain ⟨a1, a2, a3⟩ := setMlf_spec c t m x hi hr
    exact ⟨m, ⟨rfl, _, rfl⟩, a1, a2, fun e => a3 (hl e)⟩
  | setMhp x =>
    obtain ⟨a1, a2, a3⟩ := setMhp_spec c t m x hi hr
    exact ⟨m, ⟨rfl, _, rfl⟩, a1, a2, fun e => a3 (hl e)⟩
  | lockTable =>
    cases locked with
    | true => exact ⟨m, ⟨rfl, rfl⟩, hi, hr, hl⟩
    | false =>
      obtain ⟨a1, a2, a3, _⟩ := lockTable_refines c t m hi hr
      exact ⟨m, ⟨rfl, rfl⟩, a1, a2, fun _ => a3⟩
  | unlock => exact ⟨m, ⟨rfl, rfl⟩, hi, hr, fun e => by cases e⟩
  | ltErase k =>
    cases locked with
    | false => exact ⟨m, ⟨rfl, rfl⟩, hi, hr, hl⟩
    | true =>
      obtain ⟨a1, a2, a3, a4⟩ := ltErase_refines c t m k hi hr (hl rfl)
      exact ⟨_, by simp [specStep, step, a4], a1, a3, fun _ => a2⟩
  | ltInsert k v =>
    cases locked with
    | false => exact ⟨m, ⟨rfl, rfl⟩, hi, hr, hl⟩
    | true =>
      obtain ⟨a1, a2, a3⟩ := ltInsert_refines c t m k v hi hr (hl rfl)
      cases hres : (t.ltInsert c k v).2 with
      | err e =>
        rw [hres] at a3
        exact ⟨m, by simp [specStep, step, hres, a3.1], a1, a3.2, fun _ => a2⟩
      | ok pr =>
        obtain ⟨p, ins⟩ := pr
        rw [hres] at a3
        obtain ⟨r1, r2, _⟩ := a3
        subst r1
        exact ⟨_, by simp [specStep, step, hres], a1, r2, fun _ => a2⟩

/-- run a whole sequence, collecting the observations -/
def run (c : Cfg κ) (s : MT κ ν) : List (Op κ ν) → MT κ ν × List (Obs ν)
  | [] => (s, [])
  | op :: rest =>
    let r := step c s op
    let r' := run c r.1 rest
    (r'.1, r.2 :: r'.2)

/-- the abstract map admits a run with these observations -/
def specRun (locked : Bool) (m : AMap κ ν) : List (Op κ ν) → List (Obs ν) → AMap κ ν → Prop
  | [], [], m' => m' = m
  | op :: rest, o :: os, m' =>
    ∃ m1, specStep locked m op o m1 ∧
      specRun (match op with | .lockTable => true | .unlock => false | _ => locked) m1 rest os m'
  | _, _, _ => False

private theorem step_locked (c : Cfg κ) (s : MT κ ν) (op : Op κ ν) :
    (step c s op).1.locked = (match op with | .lockTable => true | .unlock => false | _ => s.locked) := by
  obtain ⟨t, locked⟩ := s
  cases op <;> cases locked <;> rfl

/-- **C02**: every finite sequence of operations, from any good state, is a run of the abstract map and
ends in a good state representing the final map -/
theorem seq_refines (c : Cfg κ) (ops : List (Op κ ν)) (s : MT κ ν) (m : AMap κ ν) (hg : Good c s m) :
    ∃ m', specRun s.locked m ops (run c s ops).2 m' ∧ Good c (run c s ops).1 m' := by
  induction ops generalizing s m with
  | nil => exact ⟨m, rfl, hg⟩
  | cons op rest ih =>
    obtain ⟨m1, h1, g1⟩ := step_refines c s m op hg
    obtain ⟨m', h2, g2⟩ := ih (step c s op).1 m1 g1
    rw [step_locked] at h2
    exact ⟨m', ⟨m1, h1, h2⟩, g2⟩

/-- in particular from a freshly constructed table of any capacity, for any configuration -/
theorem seq_refines_from_init (c : Cfg κ) (n : Nat) (hS : 0 < c.S) (hM : ∃ j, c.M = 2 ^ j) (ops : List (Op κ ν)) :
    ∃ m', specRun false [] ops (run c ⟨(Table.init c n : Table κ ν), false⟩ ops).2 m' ∧
      Good c (run c ⟨(Table.init c n : Table κ ν), false⟩ ops).1 m' := by
  obtain ⟨a1, a2⟩ := init_refines (ν := ν) c n hS hM
  exact seq_refines c ops ⟨Table.init c n, false⟩ [] ⟨a1, a2, fun e => by cases e⟩

end Cuckoo.Props.C02
