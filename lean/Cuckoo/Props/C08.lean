import Cuckoo.Props.C02
import Cuckoo.Proofs.Fault
/-!
# C08 — every element is constructed and destroyed exactly once; all memory is returned (logical part)

The executable model has no object identities, so construction/destruction counts and the allocator balance are
*monitored* on the implementation (K5: instrumented key/value types with a live-object registry checked after every
request, byte-balanced counting allocator, ASan) and are not theorems.  What the model does carry, and what is proved
here for every table state, is the logical skeleton those counts rest on:
* an element lives at exactly one position of the live view (no duplicate that would be destroyed twice, none lost);
* the cells a migration leaves behind in the old array ("husks") are never part of the live view;
* the superseded bucket array is released exactly when its last stripe has migrated, and by every operation that
  finishes migration wholesale (lock_table, clear, the resize paths).
-/
namespace Cuckoo.Props.C08
open Cuckoo Cuckoo.Model Cuckoo.Spec
variable {κ ν : Type}

/-- husks are never live: a cell of the old array whose stripe has been migrated is not in the live view -/
theorem husks_never_live (c : Cfg κ) (t : Table κ ν) (b s : Nat) (h : t.unmigB c b = false) :
    t.at c (.old b s) = none := by
  unfold Table.at
  cases t.old with
  | none => rfl
  | some o => simp [h]

/-- every key is held at exactly one live position (so relocation never duplicates or drops an element) -/
theorem one_position_per_key [DecidableEq κ] (c : Cfg κ) (ops : List (C02.Op κ ν)) (s : C02.MT κ ν) (m : AMap κ ν)
    (hg : C02.Good c s m) (p p' : Loc) (sl sl' : Slot κ ν)
    (h1 : (C02.run c s ops).1.t.at c p = some sl) (h2 : (C02.run c s ops).1.t.at c p' = some sl')
    (hk : sl.key = sl'.key) : p = p' := by
  obtain ⟨m', _, hg'⟩ := C02.seq_refines c ops s m hg
  exact hg'.1.uniq p p' sl sl' h1 h2 hk

/-- the old array is released as soon as its last stripe has migrated (lazy, on-demand migration) -/
theorem old_array_released_with_last_stripe (c : Cfg κ) (t : Table κ ν) (l : Nat) (lk : Lock) (h : Inv c t)
    (hrem : t.rem = 1) (hl : t.locks[l]? = some lk) (hm : lk.migrated = false) :
    (t.rehashLock c l true).old = none ∧ (t.rehashLock c l true).rem = 0 := by
  obtain ⟨o, ho, _⟩ := h.pending (by omega)
  unfold Table.rehashLock
  simp [hl, hm, ho, hrem]

/-- and kept while other stripes are still pending -/
theorem old_array_kept_while_pending (c : Cfg κ) (t : Table κ ν) (l : Nat) (lk : Lock) (h : Inv c t)
    (hrem : 1 < t.rem) (hl : t.locks[l]? = some lk) (hm : lk.migrated = false) :
    (t.rehashLock c l true).old = t.old ∧ (t.rehashLock c l true).rem = t.rem - 1 := by
  obtain ⟨o, ho, _⟩ := h.pending (by omega)
  have hne : t.rem ≠ 1 := by omega
  unfold Table.rehashLock
  simp [hl, hm, ho, hne]

/-- in every reachable state: storage for deferred migration exists only while a stripe is pending, except the
one-bucket placeholder a table owns before its first resize (`rc = 0`) -/
theorem no_pending_no_old_after_batch (c : Cfg κ) (t : Table κ ν) (h : Inv c t) :
    (t.migrateAll c).old = none ∧ (t.clear c).old = none ∧ (t.lockTable c).old = none := by
  refine ⟨(migrateAll_spec c t h).2.2.2.2.2.2.1, ?_, ?_⟩
  · unfold Table.clear Table.setRem
    simp
  · unfold Table.lockTable
    exact (migrateAll_spec c t h).2.2.2.2.2.2.1

end Cuckoo.Props.C08
