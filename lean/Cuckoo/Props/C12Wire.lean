import Cuckoo.Gen.Wire
import Cuckoo.Model.Ops
/-!
# C12 — the stream image is read in the order in which it is written, and it is the model's `Wire` (T-G)

`Gen/Wire.lean` is regenerated on every run from the text of the four stream operators.  The theorems are decided on it:
the reader consumes exactly the fields the writer produces — hashpower, the raw bucket array, the element count, the minimum
load factor, the maximum hashpower — in the same order and with the same widths; the steps of `operator>>` of a locked table
(replace the bucket array, grow the lock array, advance the resize counter, zero the counters, store the count in stripe 0,
apply the two settings through their validating setters) are the steps of `Table.read`; and the binary reader performs no
formatted input (a `std::istream::sentry` with `skipws` would swallow bytes of the image: seed C12 r4).
-/
namespace Cuckoo.Props.C12Wire
open Cuckoo.Gen.Wire

/-- the fields of one side (name, width — the translator puts a width into normal form: factors sorted, container prefix
dropped), nested bucket-container operator expanded -/
def expand (inner : List (String × String × String)) : List (String × String × String) → List (String × String)
  | [] => []
  | ("nested", _, _) :: rest => inner.map (fun x => (x.2.1, x.2.2)) ++ expand inner rest
  | (_, w, sz) :: rest => (w, sz) :: expand inner rest

/-- the writer and the reader agree field by field (name and width), for the bucket container and for the locked table -/
theorem image_read_as_written :
    bcWrite = bcRead ∧ expand bcWrite ltWrite = expand bcRead ltRead := by
  decide

/-- the image is the model's `Wire`: hashpower, cells, size, minimum load factor, maximum hashpower — in this order, the
count and the hashpower as `size_type`, the load factor as a `double` -/
theorem image_is_wire :
    expand bcWrite ltWrite =
      [("hp", "sizeof(size_type)"), ("buckets_", "size()*sizeof(bucket)"), ("size", "sizeof(size_type)"),
       ("mlf", "sizeof(double)"), ("mhp", "sizeof(size_type)")] := by
  decide

/-- the steps of `operator>>` are those of `Model.Table.read` (with `bump = true`, the repaired F2): bucket array first, then
the lock array, the resize counter, the counters, and the two settings through the validating setters LAST (so an image
with settings out of their domain raises `invalid_argument` only after the contents were replaced — as the model does) -/
theorem read_steps_are_model_steps :
    ltRead_steps = ["is>>lt.buckets()", "lt.maybe_resize_locks", "lt.bump_resize_counter", "lock.elem_counter()=0", "is.read",
                    "lt.get_current_locks()[0].elem_counter()=size", "is.read", "is.read", "lt.minimum_load_factor(mlf)",
                    "lt.maximum_hashpower(mhp)"] := by
  decide

/-- no formatted input in the binary reader -/
theorem reader_is_unformatted : ltRead_formatted_input = false := by decide

/-! non-vacuity: a reader that takes the count as a `double` is rejected -/
example : expand bcWrite ltWrite ≠ expand bcRead [("nested", "lt.buckets()", ""), ("raw", "size", "sizeof(double)")] := by decide

end Cuckoo.Props.C12Wire
