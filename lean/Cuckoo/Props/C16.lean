import Cuckoo.Props.C02
import Cuckoo.Proofs.Consumed
/-!
# C16 — arguments are consumed only on success; compatible key types find the same item

The model records in `Out.consumed` whether an inserting call moved its key/value arguments into the table: it does
so exactly when `cuckoo_insert_loop` ended with a free slot (status ok) and `add_to_bucket` ran.  The theorems relate
that flag to the abstract map for **every** table state — whatever internal path was taken before the duplicate was
discovered (lazy migration, displacement, expansion).  K5 observes the same on the implementation with move-tracking
key and value types passed as rvalues (`insmv`, `upsmv`, `ltinsmv`), and checks that lookups, updates and erasures
through a *different* type with consistent hash and equality return the same results without constructing a key_type.
The C++ value-category plumbing (perfect forwarding, `std::piecewise_construct`) itself is not modelled.
-/
namespace Cuckoo.Props.C16
open Cuckoo Cuckoo.Model Cuckoo.Spec
variable {κ ν : Type} [DecidableEq κ]

/-- an insertion-type call that finds the key present leaves its arguments unconsumed -/
theorem duplicate_leaves_args (c : Cfg κ) (locked : Bool) (t : Table κ ν) (m : AMap κ ν) (k : κ) (v old : ν)
    (ctxAware mayErase : Bool) (fn : Ctx → ν → FnOut ν) (h : Inv c t) (hr : Rel c t m) (hl : locked = true → AllMig t)
    (hk : m.lookup k = some old) :
    (t.uprase c locked k v ctxAware mayErase fn).2.1.consumed = false := by
  rcases Consumed.uprase_cases c locked t m k v ctxAware mayErase fn h hr hl with ⟨h1, _⟩ | ⟨_, h2, _⟩ | ⟨_, h2⟩
  · rw [hk] at h1; cases h1
  · exact h2
  · exact h2

/-- a call that fails before inserting (refused or failed expansion) leaves its arguments unconsumed -/
theorem failed_insert_leaves_args (c : Cfg κ) (locked : Bool) (t : Table κ ν) (m : AMap κ ν) (k : κ) (v : ν)
    (ctxAware mayErase : Bool) (fn : Ctx → ν → FnOut ν) (h : Inv c t) (hr : Rel c t m) (hl : locked = true → AllMig t)
    (e : Err) (he : (t.uprase c locked k v ctxAware mayErase fn).2.1.res = .err e) (hne : e ≠ .fnThrow) :
    (t.uprase c locked k v ctxAware mayErase fn).2.1.consumed = false := by
  rcases Consumed.uprase_cases c locked t m k v ctxAware mayErase fn h hr hl with
    ⟨_, _, h3 | h3, _⟩ | ⟨_, h2, _⟩ | ⟨_, h2⟩
  · rw [he] at h3; cases h3
  · rw [he] at h3; cases h3; exact absurd rfl hne
  · exact h2
  · exact h2

/-- a call that inserts consumes its arguments (once: the flag is set by the single `add_to_bucket`), and the stored
pair is built from exactly those arguments -/
theorem insert_consumes_args (c : Cfg κ) (locked : Bool) (t : Table κ ν) (m : AMap κ ν) (k : κ) (v : ν)
    (h : Inv c t) (hr : Rel c t m) (hl : locked = true → AllMig t) (hk : m.lookup k = none)
    (hok : (t.uprase c locked k v false false (fun _ x => .ret x false)).2.1.res = .ok true) :
    (t.uprase c locked k v false false (fun _ x => .ret x false)).2.1.consumed = true ∧
    Rel c (t.uprase c locked k v false false (fun _ x => .ret x false)).1 (m.add k v) := by
  rcases Consumed.uprase_cases c locked t m k v false false (fun _ x => .ret x false) h hr hl with
    ⟨_, h2, _, h4⟩ | ⟨⟨old, h1⟩, _⟩ | ⟨⟨e, h1, _⟩, _⟩
  · exact ⟨h2, (h4 rfl).2⟩
  · rw [hk] at h1; cases h1
  · rw [hok] at h1; cases h1

/-- consumed iff newly inserted, for every successful call -/
theorem consumed_iff_inserted (c : Cfg κ) (locked : Bool) (t : Table κ ν) (m : AMap κ ν) (k : κ) (v : ν)
    (ctxAware mayErase : Bool) (fn : Ctx → ν → FnOut ν) (h : Inv c t) (hr : Rel c t m) (hl : locked = true → AllMig t)
    (b : Bool) (hok : (t.uprase c locked k v ctxAware mayErase fn).2.1.res = .ok b) :
    (t.uprase c locked k v ctxAware mayErase fn).2.1.consumed = b ∧ b = (m.lookup k).isNone := by
  rcases Consumed.uprase_cases c locked t m k v ctxAware mayErase fn h hr hl with
    ⟨h1, h2, h3 | h3, _⟩ | ⟨⟨old, h1⟩, h2, h3 | h3⟩ | ⟨⟨e, h1, _⟩, _⟩
  · rw [hok] at h3; cases h3
    exact ⟨h2, by rw [h1]; rfl⟩
  · rw [hok] at h3; cases h3
  · rw [hok] at h3; cases h3
    exact ⟨h2, by rw [h1]; rfl⟩
  · rw [hok] at h3; cases h3
  · rw [hok] at h1; cases h1

end Cuckoo.Props.C16
