import Cuckoo.Props.C02
/-!
# C16 — arguments are consumed only on success; compatible key types find the same item

The model records in `Out.consumed` whether an inserting call moved its key/value arguments into the table: it does
so exactly when `cuckoo_insert_loop` ended with a free slot (status ok) and `add_to_bucket` ran.  The theorems relate
that flag to the abstract map for **every** table state — whatever internal path was taken before the duplicate was
discovered (lazy migration, displacement, expansion).  K5 observes the same on the implementation with move-tracking
key and value types passed as rvalues (`insmv`, `upsmv`, `ltinsmv`), and checks that lookups, updates and erasures
through a *different* type with consistent hash and equality return the same results without constructing a key_type.
The C++ value-category plumbing (perfect forwarding, `std::piecewise_construct`) itself is not modelled.
-/
namespace Cuckoo.Props.C16
open Cuckoo Cuckoo.Model Cuckoo.Spec
variable {κ ν : Type} [DecidableEq κ]

/-- an insertion-type call that finds the key present leaves its arguments unconsumed -/
theorem duplicate_leaves_args (c : Cfg κ) (locked : Bool) (t : Table κ ν) (m : AMap κ ν) (k : κ) (v old : ν)
    (ctxAware mayErase : Bool) (fn : Ctx → ν → FnOut ν) (h : Inv c t) (hr : Rel c t m) (hl : locked = true → AllMig t)
    (hk : m.lookup k = some old) :
    (t.uprase c locked k v ctxAware mayErase fn).2.1.consumed = false := by
  sorry

/-- a call that fails before inserting (refused or failed expansion) leaves its arguments unconsumed -/
theorem failed_insert_leaves_args (c : Cfg κ) (locked : Bool) (t : Table κ ν) (m : AMap κ ν) (k : κ) (v : ν)
    (ctxAware mayErase : Bool) (fn : Ctx → ν → FnOut ν) (h : Inv c t) (hr : Rel c t m) (hl : locked = true → AllMig t)
    (e : Err) (he : (t.uprase c locked k v ctxAware mayErase fn).2.1.res = .err e) (hne : e ≠ .fnThrow) :
    (t.uprase c locked k v ctxAware mayErase fn).2.1.consumed = false := by
  sorry

/-- a call that inserts consumes its arguments (once: the flag is set by the single `add_to_bucket`), and the stored
pair is built from exactly those arguments -/
theorem insert_consumes_args (c : Cfg κ) (locked : Bool) (t : Table κ ν) (m : AMap κ ν) (k : κ) (v : ν)
    (h : Inv c t) (hr : Rel c t m) (hl : locked = true → AllMig t) (hk : m.lookup k = none)
    (hok : (t.uprase c locked k v false false (fun _ x => .ret x false)).2.1.res = .ok true) :
    (t.uprase c locked k v false false (fun _ x => .ret x false)).2.1.consumed = true ∧
    Rel c (t.uprase c locked k v false false (fun _ x => .ret x false)).1 (m.add k v) := by
  sorry

/-- consumed iff newly inserted, for every successful call -/
theorem consumed_iff_inserted (c : Cfg κ) (locked : Bool) (t : Table κ ν) (m : AMap κ ν) (k : κ) (v : ν)
    (ctxAware mayErase : Bool) (fn : Ctx → ν → FnOut ν) (h : Inv c t) (hr : Rel c t m) (hl : locked = true → AllMig t)
    (b : Bool) (hok : (t.uprase c locked k v ctxAware mayErase fn).2.1.res = .ok b) :
    (t.uprase c locked k v ctxAware mayErase fn).2.1.consumed = b ∧ b = (m.lookup k).isNone := by
  sorry

end Cuckoo.Props.C16
