import Cuckoo.Proofs.LifeAux5
import Cuckoo.Props.C03Frame
import Cuckoo.Props.C08
/-!
# C08Life — the object-lifetime discipline, on the model

`Props/C08.lean` proves the logical skeleton of C08 (one live position per key, husks never live, the old array is
released with the last stripe).  This file proves the *lifetime discipline* itself for the executable model.

**Objects.**  A key-value object of the C++ table is an occupied cell (`cells[i] = some _`) of a bucket array of the
model: of the current array `t.cur`, or of the superseded array `t.old`.  Cells of `old` whose stripe has been
migrated are *husks*: moved-from objects that stay constructed until the old array is released (`old := none`).
* `Store.set … (some sl)` on an EMPTY cell is a construction (`setKV`); on an occupied cell it would construct over a
  live object.  The only assignment to an occupied cell is `Table.setVal` (the functor's assignment to the mapped
  value of an existing element: no construction, no destruction).
* `Store.set … none` on an OCCUPIED cell is a destruction (`eraseKV`); on an empty cell it would be a double destroy.
* dropping an array destroys every object still in it.

**What is proved**, for every table satisfying the invariant (and, where contents matter, representing a map `m`):
1. *write discipline at every call site*: the cell `cuckoo_insert_loop` hands to `add_to_bucket` is empty and in
   range (`insert_constructs_on_empty`, `uprase_constructs_one_object`); a displacement hop constructs into an empty
   cell, destroys the occupied source and touches nothing else (`hop_moves_one_object`); the cell handed to
   `del_from_bucket` is occupied, also after the functor's assignment (`erase_destroys_occupied`,
   `lt_erase_destroys_occupied`); `move_bucket` / `rehash_lock` write pairwise different cells that were empty, each a
   copy of an occupied old cell, each source copied once, the old array untouched
   (`moveBucket_constructs_on_empty`, `rehashLock_constructs_on_empty`, `batch_step_constructs_on_empty`,
   `eager_double_constructs_on_empty`); every insertion of the rebuild loop of `cuckoo_expand_simple` hits an empty
   cell of the temporary map (`rebuild_constructs_on_empty`).
2. *who dies when an array is dropped*: `old_release_kills_only_husks`, `all_old_objects_are_husks`,
   `eager_double_release_kills_only_husks`, `eager_double_drops_only_moved`,
   `fast_double_keeps_every_object`, `rebuild_drops_only_husks`, `rebuild_failure_keeps_table`,
   `clear_destroys_everything`.
3. *ledger*: `objCount_eq : objCount t = m.length + husks c t` — the constructed, not yet destroyed objects are
   exactly the stored pairs plus the husks of the array kept for deferred migration; no husks without an old array;
   `objCount = 0` after `clear`; `objCount = m.length` after `lock_table` / a finished migration / a rebuild.  Destroying
   the table destroys every occupied cell of both arrays once, i.e. exactly `objCount t` objects.
4. non-vacuity examples on a concrete table with a pending migration.

**Not covered** (monitored on the implementation, K5): byte balance of the allocator; the lock array generations
(`oldGens`) carry no objects; `locked_table::erase(iterator)` (`ltEraseAt`) takes a position the caller must keep
valid (C++ precondition; `delFrom_destroys_one_object` applies when it is occupied); `operator>>` (`Table.read`)
replaces the current array wholesale like `clear` + refill.  Known open finding F4: in the real code an exception in the middle of the rebuild of
`cuckoo_expand_simple` leaves moved-from values in the original table; the MODEL returns the original table there
(`rebuild_failure_keeps_table` is a statement about the model only).
-/
namespace Cuckoo.Props.C08Life
open Cuckoo Cuckoo.Model Cuckoo.Spec
variable {κ ν : Type}

/-! ## 1. write discipline at every call site -/

/-- **insertion constructs on an empty cell**: the position `cuckoo_insert_loop` returns with status `ok` is an empty,
in-range cell of the table it returns; with `failure_key_duplicated` it is the occupied cell holding the key -/
theorem insert_constructs_on_empty [DecidableEq κ] (c : Cfg κ) (locked : Bool) (fuel : Nat) (t : Table κ ν) (k : κ)
    (h : Inv c t) (hl : locked = true → AllMig t) :
    match (insertLoop c locked fuel t k).2 with
    | .ok (.free b s) =>
        (insertLoop c locked fuel t k).1.cur.get c.S b s = none ∧ s < c.S ∧
        b < 2 ^ (insertLoop c locked fuel t k).1.hp ∧
        b * c.S + s < (insertLoop c locked fuel t k).1.cur.cells.size
    | .ok (.dup b s) => ∃ sl, (insertLoop c locked fuel t k).1.cur.get c.S b s = some sl ∧ sl.key = k
    | .err _ => True := by
  obtain ⟨hi, _, _, h4⟩ := insertLoop_spec c locked fuel t k h hl
  generalize insertLoop c locked fuel t k = r at hi h4
  obtain ⟨t1, res⟩ := r
  cases res with
  | err e => trivial
  | ok p =>
    cases p with
    | dup b s => exact h4
    | free b s =>
      dsimp only at hi h4
      obtain ⟨hb, hs, he, _, _⟩ := h4
      have hblt : b < 2 ^ t1.hp := by
        rcases hb with e | e <;> rw [e]
        · exact Rz.i1_lt _ _ _
        · exact Rz.i2_lt _ _ _
      exact ⟨he, hs, hblt, cell_lt hi hblt hs⟩

/-- a step that leaves the old array alone changes the number of objects by what it does to the current array -/
theorem objCount_cur_change (t t' : Table κ ν) (hold : t'.old = t.old) :
    objCount t' + t.cur.count = objCount t + t'.cur.count := by
  unfold objCount; rw [hold]; omega

/-- effect of `add_to_bucket` on an empty in-range cell: one object more, nothing else touched -/
theorem addTo_constructs_one_object (c : Cfg κ) (t : Table κ ν) (b s : Nat) (sl : Slot κ ν) (hs : s < c.S)
    (hlt : b * c.S + s < t.cur.cells.size) (he : t.cur.get c.S b s = none) :
    (t.addTo c b s sl).cur.get c.S b s = some sl ∧
    (∀ b' s', ¬ (b' = b ∧ s' = s) → (t.addTo c b s sl).cur.get c.S b' s' = t.cur.get c.S b' s') ∧
    (t.addTo c b s sl).old = t.old ∧ objCount (t.addTo c b s sl) = objCount t + 1 := by
  refine ⟨Store.get_set_same _ _ _ _ _ hs hlt, fun b' s' hne => Store.get_set_other _ _ _ _ _ _ _ hs hne, rfl, ?_⟩
  have h1 := objCount_cur_change t (t.addTo c b s sl) rfl
  have h2 : (t.addTo c b s sl).cur.count = t.cur.count + 1 :=
    Store.count_set_some_of_empty c.S t.cur b s sl hs hlt he
  omega

/-- the `add_to_bucket` of `uprase_fn` / `insert` / `locked_table::insert`: the cell is the one returned by the
insertion loop (run with the fuel the operations use), it is empty, and exactly one object is constructed -/
theorem uprase_constructs_one_object [DecidableEq κ] (c : Cfg κ) (locked : Bool) (t t1 : Table κ ν) (k : κ) (v : ν)
    (b s : Nat) (h : Inv c t) (hl : locked = true → AllMig t)
    (hins : insertLoop c locked (c.fuel t.cur.cells.size) t k = (t1, .ok (.free b s))) :
    t1.cur.get c.S b s = none ∧
    (t1.addTo c b s ⟨c.tag k, k, v⟩).cur.get c.S b s = some ⟨c.tag k, k, v⟩ ∧
    (∀ b' s', ¬ (b' = b ∧ s' = s) → (t1.addTo c b s ⟨c.tag k, k, v⟩).cur.get c.S b' s' = t1.cur.get c.S b' s') ∧
    (t1.addTo c b s ⟨c.tag k, k, v⟩).old = t1.old ∧
    objCount (t1.addTo c b s ⟨c.tag k, k, v⟩) = objCount t1 + 1 := by
  have := insert_constructs_on_empty c locked (c.fuel t.cur.cells.size) t k h hl
  rw [hins] at this
  obtain ⟨he, hs, _, hlt⟩ := this
  exact ⟨he, addTo_constructs_one_object c t1 b s _ hs hlt he⟩

/-- **a displacement hop moves one object**: the target was empty, the source occupied; afterwards the target holds
exactly the element the source held, the source is empty (the moved-from source is destroyed), no other cell, the
old array and the locks are unchanged, and the number of objects is the same.  `to.bucket < 2^hp` and
`to.slot < S` are what `cuckoopath_move` guarantees for the records it passes (`PathOK`) -/
theorem hop_moves_one_object (c : Cfg κ) (t t' : Table κ ν) (fr to : PathRec) (h : Inv c t)
    (hhop : hop c t fr to = some t') (hb : to.bucket < 2 ^ t.hp) (hslot : to.slot < c.S) :
    ∃ sl, t.cur.get c.S to.bucket to.slot = none ∧ t.cur.get c.S fr.bucket fr.slot = some sl ∧
      t'.cur.get c.S to.bucket to.slot = some sl ∧ t'.cur.get c.S fr.bucket fr.slot = none ∧
      (∀ b s, ¬ (b = to.bucket ∧ s = to.slot) → ¬ (b = fr.bucket ∧ s = fr.slot) →
        t'.cur.get c.S b s = t.cur.get c.S b s) ∧
      t'.old = t.old ∧ t'.locks = t.locks ∧ objCount t' = objCount t := by
  obtain ⟨sl, a1, a2, a3, a4, a5, a6, a7, a8⟩ := hop_cells c t t' fr to h.cur_wf.size hhop hb hslot
  refine ⟨sl, a1, a2, a3, a4, a5, a6, a7, ?_⟩
  unfold objCount
  rw [a8, a6]

/-- the form in which `cuckoopath_move` calls it: the target bucket is the alternate of the source bucket -/
theorem hop_moves_one_object_on_path (c : Cfg κ) (t t' : Table κ ν) (fr to : PathRec) (h : Inv c t)
    (hhop : hop c t fr to = some t')
    (halt : to.bucket = Spec.altIndex t.hp (Spec.partialKey fr.hash) fr.bucket) (hslot : to.slot < c.S) :
    ∃ sl, t.cur.get c.S to.bucket to.slot = none ∧ t.cur.get c.S fr.bucket fr.slot = some sl ∧
      t'.cur.get c.S to.bucket to.slot = some sl ∧ t'.cur.get c.S fr.bucket fr.slot = none ∧
      objCount t' = objCount t := by
  obtain ⟨sl, a1, a2, a3, a4, _, _, _, a8⟩ :=
    hop_moves_one_object c t t' fr to h hhop (by rw [halt]; exact Spec.altIndex_lt _ _ _) hslot
  exact ⟨sl, a1, a2, a3, a4, a8⟩

/-- a hit of `cuckoo_find` is an occupied cell holding the key (no hypothesis on the table) -/
theorem locate_hit_occupied [DecidableEq κ] (c : Cfg κ) (locked : Bool) (t t1 : Table κ ν) (k : κ) (b s : Nat)
    (hloc : t.locate c locked k = (t1, some (b, s))) : ∃ sl, t1.cur.get c.S b s = some sl ∧ sl.key = k := by
  unfold Table.locate at hloc
  injection hloc with e1 e2
  subst e1
  unfold cuckooFind at e2
  split at e2
  · rename_i s' hf
    cases e2
    exact findInBucket_some hf
  · split at e2
    · rename_i s' hf
      cases e2
      exact findInBucket_some hf
    · cases e2

/-- effect of `del_from_bucket` on an occupied cell: one object fewer, nothing else touched -/
theorem delFrom_destroys_one_object (c : Cfg κ) (t : Table κ ν) (b s : Nat) (sl : Slot κ ν)
    (hg : t.cur.get c.S b s = some sl) :
    (t.delFrom c b s).cur.get c.S b s = none ∧
    (∀ b' s', ¬ (b' = b ∧ s' = s) → (t.delFrom c b s).cur.get c.S b' s' = t.cur.get c.S b' s') ∧
    (t.delFrom c b s).old = t.old ∧ objCount (t.delFrom c b s) + 1 = objCount t := by
  obtain ⟨hs, hlt⟩ := Store.get_some_lt hg
  refine ⟨Store.get_set_same _ _ _ _ _ hs hlt, fun b' s' hne => Store.get_set_other _ _ _ _ _ _ _ hs hne, rfl, ?_⟩
  have h1 := objCount_cur_change t (t.delFrom c b s) rfl
  have h2 : (t.delFrom c b s).cur.count + 1 = t.cur.count := Store.count_set_none_of_occ c.S t.cur b s sl hg
  omega

/-- the functor's assignment to the mapped value of an existing element: the cell stays occupied by the same key,
no object is constructed or destroyed -/
theorem setVal_assigns_in_place (c : Cfg κ) (t : Table κ ν) (b s : Nat) (sl : Slot κ ν) (v : ν)
    (hg : t.cur.get c.S b s = some sl) :
    (t.setVal c b s v).cur.get c.S b s = some { sl with val := v } ∧
    (t.setVal c b s v).old = t.old ∧ objCount (t.setVal c b s v) = objCount t := by
  obtain ⟨hs, hlt⟩ := Store.get_some_lt hg
  have e : t.setVal c b s v = { t with cur := t.cur.set c.S b s (some { sl with val := v }) } := by
    unfold Table.setVal; rw [hg]
  rw [e]
  refine ⟨Store.get_set_same _ _ _ _ _ hs hlt, rfl, ?_⟩
  have h1 := objCount_cur_change t { t with cur := t.cur.set c.S b s (some { sl with val := v }) } rfl
  have h2 : (t.cur.set c.S b s (some { sl with val := v })).count = t.cur.count :=
    Store.count_set_some_of_occ c.S t.cur b s sl _ hg
  simp only at h1
  omega

/-- **erase destroys an occupied cell** (`erase_fn` / `erase`): the cell `find_fn`'s lookup returns is occupied by the
key, it is still occupied after the functor's assignment, the erasing branch of `fnOp` calls `del_from_bucket` on
exactly that cell, and one object is destroyed -/
theorem erase_destroys_occupied [DecidableEq κ] (c : Cfg κ) (t t1 : Table κ ν) (k : κ) (fn : ν → FnOut ν)
    (b s : Nat) (hloc : t.locate c false k = (t1, some (b, s))) :
    ∃ sl, t1.cur.get c.S b s = some sl ∧ sl.key = k ∧
      ∀ v, fn sl.val = .ret v true →
        (t1.setVal c b s v).cur.get c.S b s = some { sl with val := v } ∧
        (t.fnOp c true k fn).1 = (t1.setVal c b s v).delFrom c b s ∧
        objCount (t.fnOp c true k fn).1 + 1 = objCount t1 := by
  obtain ⟨sl, hg, hk⟩ := locate_hit_occupied c false t t1 k b s hloc
  refine ⟨sl, hg, hk, ?_⟩
  intro v hfn
  obtain ⟨a1, _, a3⟩ := setVal_assigns_in_place c t1 b s sl v hg
  have e : (t.fnOp c true k fn).1 = (t1.setVal c b s v).delFrom c b s := by
    unfold Table.fnOp; rw [hloc]; simp only [hg, hfn, Bool.and_self, if_true]
  refine ⟨a1, e, ?_⟩
  rw [e]
  have := (delFrom_destroys_one_object c _ b s _ a1).2.2.2
  omega

/-- `locked_table::erase(key)`: the cell handed to `del_from_bucket` is occupied by the key; one object destroyed -/
theorem lt_erase_destroys_occupied [DecidableEq κ] (c : Cfg κ) (t : Table κ ν) (k : κ) (b s : Nat)
    (hloc : (t.locate c true k).2 = some (b, s)) :
    ∃ sl, t.cur.get c.S b s = some sl ∧ sl.key = k ∧ (t.ltErase c k).1 = t.delFrom c b s ∧
      objCount (t.ltErase c k).1 + 1 = objCount t := by
  have h1 : (t.locate c true k).1 = t := rfl
  have hloc' : t.locate c true k = (t, some (b, s)) := Prod.ext h1 hloc
  obtain ⟨sl, hg, hk⟩ := locate_hit_occupied c true t t k b s hloc'
  have e : (t.ltErase c k).1 = t.delFrom c b s := by
    unfold Table.ltErase; rw [hloc]
  refine ⟨sl, hg, hk, e, ?_⟩
  rw [e]
  exact (delFrom_destroys_one_object c t b s sl hg).2.2.2

/-- the erasing branch of `uprase_fn`: the cell is the one just inserted into or the duplicate found, the model
re-reads it (`some sl`), and after the functor's assignment it is still occupied when `del_from_bucket` is called -/
theorem uprase_erase_destroys_occupied (c : Cfg κ) (t : Table κ ν) (b s : Nat) (sl : Slot κ ν) (v : ν)
    (hg : t.cur.get c.S b s = some sl) :
    (t.setVal c b s v).cur.get c.S b s = some { sl with val := v } ∧
    objCount ((t.setVal c b s v).delFrom c b s) + 1 = objCount t := by
  obtain ⟨a1, _, a3⟩ := setVal_assigns_in_place c t b s sl v hg
  refine ⟨a1, ?_⟩
  have := (delFrom_destroys_one_object c _ b s _ a1).2.2.2
  omega

/-! ### migration: `move_bucket`, `rehash_lock` -/

/-- **`move_bucket` constructs on empty cells**: under the conditions in which it is called (the two target buckets
`b` and `b + 2^oldhp` of the doubled array are empty), `moveBucket` is exactly the left fold of its write trace
`mvWrites` over the current array — constructions only, the old array is an argument that is not returned, so the
sources stay as husks —, and
* every write targets an in-range cell that was empty, and the element is a copy of an occupied cell of old bucket `b`;
* the targets are pairwise different, so each write hits a cell that is empty *when it is executed*;
* the elements written are, in order, exactly the occupied cells of the old bucket (each source copied once);
* afterwards every target holds the element written there -/
theorem moveBucket_constructs_on_empty (c : Cfg κ) (old cur : Store κ ν) (b : Nat)
    (hsz : cur.cells.size = 2 ^ cur.hp * c.S) (hhp : cur.hp = old.hp + 1) (hb : b < 2 ^ old.hp)
    (he1 : ∀ s, cur.get c.S b s = none) (he2 : ∀ s, cur.get c.S (b + 2 ^ old.hp) s = none) :
    moveBucket c old cur b = (mvWrites c old cur.hp b 0 c.S 0).foldl (applyW c.S) cur ∧
    (∀ w ∈ mvWrites c old cur.hp b 0 c.S 0, w.2.1 < c.S ∧ w.1 < 2 ^ cur.hp ∧ cur.get c.S w.1 w.2.1 = none ∧
      ∃ s, old.get c.S b s = some w.2.2) ∧
    (mvWrites c old cur.hp b 0 c.S 0).Pairwise Write.Apart ∧
    (∀ pre w post, mvWrites c old cur.hp b 0 c.S 0 = pre ++ w :: post →
      (pre.foldl (applyW c.S) cur).get c.S w.1 w.2.1 = none) ∧
    (mvWrites c old cur.hp b 0 c.S 0).map (·.2.2) = (List.range c.S).filterMap (fun s => old.get c.S b s) ∧
    (∀ w ∈ mvWrites c old cur.hp b 0 c.S 0, (moveBucket c old cur b).get c.S w.1 w.2.1 = some w.2.2) ∧
    (moveBucket c old cur b).count = cur.count + (mvWrites c old cur.hp b 0 c.S 0).length := by
  have hpow : 0 < 2 ^ old.hp := Spec.two_pow_pos _
  have hmem : ∀ w ∈ mvWrites c old cur.hp b 0 c.S 0, w.2.1 < c.S ∧ w.1 < 2 ^ cur.hp ∧
      cur.get c.S w.1 w.2.1 = none ∧ ∃ s, old.get c.S b s = some w.2.2 := by
    intro w hw
    rcases mvWrites_mem c old cur.hp b c.S 0 0 (by omega) (Nat.le_refl _) w hw with
      ⟨h1, _, h3, h4⟩ | ⟨h1, _, s', _, h3, h4, h5⟩
    · refine ⟨h3, ?_, by rw [h1]; exact he1 _, _, h4⟩
      rw [h1, hhp, Nat.pow_succ]; omega
    · refine ⟨by omega, ?_, by rw [h1]; exact he2 _, s', h5⟩
      rw [h1, hhp, Nat.pow_succ]; omega
  have hpw := mvWrites_pairwise c old cur.hp b c.S 0 0 (by omega) (Nat.le_refl _)
  have hlt : ∀ w ∈ mvWrites c old cur.hp b 0 c.S 0, w.1 * c.S + w.2.1 < cur.cells.size := by
    intro w hw
    rw [hsz]; exact flat_lt (hmem w hw).2.1 (hmem w hw).1
  refine ⟨moveBucket_eq_fold c old cur b, hmem, hpw, ?_, ?_, ?_, ?_⟩
  · intro pre w post hsplit
    exact fold_hits_empty c.S _ cur (fun w hw => (hmem w hw).1) (fun w hw => (hmem w hw).2.2.1) hpw pre post w hsplit
  · rw [mvWrites_elems, List.range_eq_range']
  · intro w hw
    rw [moveBucket_eq_fold]
    exact fold_get_written c.S _ cur (fun w hw => (hmem w hw).1) hlt hpw w hw
  · rw [moveBucket_eq_fold]
    exact fold_count c.S _ cur (fun w hw => (hmem w hw).1) hlt (fun w hw => (hmem w hw).2.2.1) hpw

/-- one stripe migration under the weak invariant `WInv` (the invariant without the `rem` bookkeeping, which is what
holds between the steps of the batch migration `rehash_with_workers` / `lock_table`): `rehash_lock` on an un-migrated
stripe `l` is the fold of its write trace `rehashWrites` over the current array; every write constructs into an
in-range cell of stripe `l` that was empty (and is empty when the write is executed); the element is a copy of an
occupied cell of an old bucket of the stripe, each source copied once; the old array is either left as it is (its
cells of stripe `l` become husks) or released (lazy mode, last stripe) -/
theorem batch_step_constructs_on_empty (c : Cfg κ) (t : Table κ ν) (l : Nat) (lk : Lock) (o : Store κ ν) (z : Bool)
    (hw : WInv c t) (hlk : t.locks[l]? = some lk) (hmig : lk.migrated = false) (hold : t.old = some o) :
    (t.rehashLock c l z).cur = (rehashWrites c t l o).foldl (applyW c.S) t.cur ∧
    (∀ w ∈ rehashWrites c t l o, w.2.1 < c.S ∧ w.1 < 2 ^ t.hp ∧ w.1 % c.M = l ∧ t.cur.get c.S w.1 w.2.1 = none ∧
      ∃ b s, b % c.M = l ∧ b < 2 ^ o.hp ∧ o.get c.S b s = some w.2.2) ∧
    (rehashWrites c t l o).Pairwise Write.Apart ∧
    (∀ pre w post, rehashWrites c t l o = pre ++ w :: post →
      (pre.foldl (applyW c.S) t.cur).get c.S w.1 w.2.1 = none) ∧
    (rehashWrites c t l o).map (·.2.2) =
      ((List.range ((2 ^ o.hp + c.M - 1 - l) / c.M)).map
        (fun i => (List.range c.S).filterMap (fun s => o.get c.S (l + i * c.M) s))).flatten ∧
    (∀ w ∈ rehashWrites c t l o, (t.rehashLock c l z).cur.get c.S w.1 w.2.1 = some w.2.2) ∧
    (t.rehashLock c l z).cur.count = t.cur.count + (rehashWrites c t l o).length ∧
    ((t.rehashLock c l z).old = some o ∨ ((t.rehashLock c l z).old = none ∧ z = true ∧ t.rem = 1)) := by
  obtain ⟨hcur, hold'⟩ := rehashLock_cur c t l lk o z hlk hmig hold
  obtain ⟨hmem, hpw⟩ := rehashWrites_facts c t l lk o hw hlk hmig hold
  have hlt : ∀ w ∈ rehashWrites c t l o, w.1 * c.S + w.2.1 < t.cur.cells.size := by
    intro w hwm
    rw [hw.cur_wf.size]; exact flat_lt (hmem w hwm).2.1 (hmem w hwm).1
  refine ⟨hcur, hmem, hpw, ?_, stripeWrites_elems c o _ c.M _ l, ?_, ?_, hold'⟩
  · intro pre w post hsplit
    exact fold_hits_empty c.S _ t.cur (fun w hw => (hmem w hw).1) (fun w hw => (hmem w hw).2.2.2.1) hpw
      pre post w hsplit
  · intro w hwm
    rw [hcur]
    exact fold_get_written c.S _ t.cur (fun w hw => (hmem w hw).1) hlt hpw w hwm
  · rw [hcur]
    exact fold_count c.S _ t.cur (fun w hw => (hmem w hw).1) hlt (fun w hw => (hmem w hw).2.2.2.1) hpw

/-- **`rehash_lock` constructs on empty cells**: the same under the full invariant (taking a stripe in normal mode) -/
theorem rehashLock_constructs_on_empty (c : Cfg κ) (t : Table κ ν) (l : Nat) (lk : Lock) (o : Store κ ν) (z : Bool)
    (h : Inv c t) (hlk : t.locks[l]? = some lk) (hmig : lk.migrated = false) (hold : t.old = some o) :
    (t.rehashLock c l z).cur = (rehashWrites c t l o).foldl (applyW c.S) t.cur ∧
    (∀ w ∈ rehashWrites c t l o, w.2.1 < c.S ∧ w.1 < 2 ^ t.hp ∧ w.1 % c.M = l ∧ t.cur.get c.S w.1 w.2.1 = none ∧
      ∃ b s, b % c.M = l ∧ b < 2 ^ o.hp ∧ o.get c.S b s = some w.2.2) ∧
    (rehashWrites c t l o).Pairwise Write.Apart ∧
    (∀ pre w post, rehashWrites c t l o = pre ++ w :: post →
      (pre.foldl (applyW c.S) t.cur).get c.S w.1 w.2.1 = none) ∧
    (t.rehashLock c l z).cur.count = t.cur.count + (rehashWrites c t l o).length ∧
    ((t.rehashLock c l z).old = some o ∨ ((t.rehashLock c l z).old = none ∧ z = true ∧ t.rem = 1)) := by
  obtain ⟨a1, a2, a3, a4, _, _, a7, a8⟩ := batch_step_constructs_on_empty c t l lk o z h.toW hlk hmig hold
  exact ⟨a1, a2, a3, a4, a7, a8⟩

/-- a stripe that is already migrated (or a table without an old array) is not touched at all: no object is
constructed twice by taking the same stripe again -/
theorem rehashLock_migrated_noop (c : Cfg κ) (t : Table κ ν) (l : Nat) (z : Bool)
    (h : ∀ lk, t.locks[l]? = some lk → lk.migrated = true ∨ t.old = none) : t.rehashLock c l z = t :=
  rehashLock_skip c t l z h

/-- the eager loop of `cuckoo_fast_double` (fewer than `kMaxNumLocks` buckets): the new current array is the fold of
the write trace over a fresh, entirely empty array; the targets are in range and pairwise different (so every write
constructs on an empty cell), every element is a copy of an occupied cell of the former current array -/
theorem eager_double_constructs_on_empty [DecidableEq κ] (c : Cfg κ) (locked : Bool) (t1 : Table κ ν)
    (hlt : 2 ^ t1.hp < c.M) :
    (Rz.doubleCore c locked t1 (t1.hp + 1)).cur =
      (stripeWrites c t1.cur (t1.hp + 1) 1 (2 ^ t1.hp) 0).foldl (applyW c.S) (Store.mk' c.S (t1.hp + 1)) ∧
    (∀ b s, (Store.mk' c.S (t1.hp + 1) : Store κ ν).get c.S b s = none) ∧
    (∀ w ∈ stripeWrites c t1.cur (t1.hp + 1) 1 (2 ^ t1.hp) 0, w.2.1 < c.S ∧ w.1 < 2 ^ (t1.hp + 1) ∧
      ∃ b s, t1.cur.get c.S b s = some w.2.2) ∧
    (stripeWrites c t1.cur (t1.hp + 1) 1 (2 ^ t1.hp) 0).Pairwise Write.Apart ∧
    (∀ pre w post, stripeWrites c t1.cur (t1.hp + 1) 1 (2 ^ t1.hp) 0 = pre ++ w :: post →
      (pre.foldl (applyW c.S) (Store.mk' c.S (t1.hp + 1))).get c.S w.1 w.2.1 = none) := by
  have hbd : ∀ i, i < 2 ^ t1.hp → 0 + i * 1 < 2 ^ t1.cur.hp := by
    intro i hi; show 0 + i * 1 < 2 ^ t1.hp; omega
  have hmem : ∀ w ∈ stripeWrites c t1.cur (t1.hp + 1) 1 (2 ^ t1.hp) 0, w.2.1 < c.S ∧ w.1 < 2 ^ (t1.hp + 1) ∧
      ∃ b s, t1.cur.get c.S b s = some w.2.2 := by
    intro w hw
    obtain ⟨i, hi, h1', h2, s, h3⟩ := stripeWrites_mem c t1.cur _ 1 _ 0 w hw
    refine ⟨h2, ?_, _, s, h3⟩
    have e : t1.cur.hp = t1.hp := rfl
    rw [e] at h1'
    rw [Nat.pow_succ]
    rcases h1' with e' | e' <;> omega
  have hpw := stripeWrites_pairwise c t1.cur (t1.hp + 1) 1 (by omega) (2 ^ t1.hp) 0 hbd
  refine ⟨?_, fun b s => Store.mk'_get _ _ _ _, hmem, hpw, ?_⟩
  · rw [doubleCore_eager_eq c locked t1 hlt]
    exact mv_eq_fold c t1.cur (2 ^ t1.hp) 0 (Store.mk' c.S (t1.hp + 1))
  · intro pre w post hsplit
    exact fold_hits_empty c.S _ _ (fun w hw => (hmem w hw).1) (fun w _ => Store.mk'_get _ _ _ _) hpw pre post w hsplit

/-! ### the rebuild loop of `cuckoo_expand_simple` -/

/-- **the rebuild constructs on empty cells**: in `cuckoo_expand_simple` (after the checks passed and the pending
migration was finished, `t1 = t.migrateAll`), the temporary map starts with every cell empty, and for every element
`sl` of the current array — whatever was inserted before it (`pre`) — the insertion loop on the temporary map returns
an *empty*, in-range cell (never a duplicate) or an error, and `rebuildStep` hands exactly that cell to
`add_to_bucket` -/
theorem rebuild_constructs_on_empty [DecidableEq κ] (c : Cfg κ) (auto : Bool) (fuel : Nat) (t : Table κ ν)
    (newHp : Nat) (h : Inv c t) (hchk : t.checkResize c auto newHp = none)
    (pre post : List (Slot κ ν)) (sl : Slot κ ν) (hsplit : (t.migrateAll c).cur.elems = pre ++ sl :: post)
    (acc : Table κ ν)
    (hacc : pre.foldl (rebuildStep c (insertLoop c false fuel)) (tmpMap c auto (t.migrateAll c) newHp, .ok ()) =
      (acc, .ok ())) :
    (∀ b s, (tmpMap c auto (t.migrateAll c) newHp).cur.get c.S b s = none) ∧
    match insertLoop c false fuel acc sl.key with
    | (nm1, .ok (.free b s)) =>
        nm1.cur.get c.S b s = none ∧ s < c.S ∧ b < 2 ^ nm1.hp ∧ b * c.S + s < nm1.cur.cells.size ∧
        rebuildStep c (insertLoop c false fuel) (acc, .ok ()) sl =
          (nm1.addTo c b s ⟨c.tag sl.key, sl.key, sl.val⟩, .ok ())
    | (_, .ok (.dup _ _)) => False
    | (nm1, .err e) => rebuildStep c (insertLoop c false fuel) (acc, .ok ()) sl = (nm1, .err e) := by
  obtain ⟨m1, m2, _⟩ := migrateAll_spec c t h
  have hlim : (t.migrateAll c).mhp = noMaxHp ∨ newHp ≤ (t.migrateAll c).mhp := by
    rw [m2.mhp]; exact Rz.checkResize_none hchk
  obtain ⟨n1, n2, n3, n4, n5⟩ := rebuild_conditions c auto (t.migrateAll c) newHp m1 hlim
  refine ⟨n5, ?_⟩
  obtain ⟨hia, hfr⟩ := rebuild_prefix c fuel _ _ n1 n2 n3 n4 pre post sl hsplit acc hacc
  have hdisc := insert_constructs_on_empty c false fuel acc sl.key hia (fun e => by cases e)
  obtain ⟨_, hsame, _, hres⟩ := insertLoop_spec c false fuel acc sl.key hia (fun e => by cases e)
  rw [Rz.rebuildStep_ok]
  generalize insertLoop c false fuel acc sl.key = r at hdisc hsame hres ⊢
  obtain ⟨nm1, res⟩ := r
  cases res with
  | err e => rfl
  | ok p =>
    cases p with
    | free b s =>
      dsimp only at hdisc ⊢
      exact ⟨hdisc.1, hdisc.2.1, hdisc.2.2.1, hdisc.2.2.2, rfl⟩
    | dup b s =>
      dsimp only at hdisc hsame ⊢
      obtain ⟨sl', hg, hk⟩ := hdisc
      apply hfr sl'.tag sl'.val
      rw [← hk]
      exact (hsame.live sl').mp ⟨.cur b s, hg⟩

/-! ## 2. who dies when an array is dropped -/

/-- **releasing the old array kills only husks.**  `OldAllHusks c t0`: every occupied cell of `t0.old` lies in a
migrated stripe (`unmigB = false`) and is therefore no live element (`t0.at c (.old b s) = none`).  At each site that
sets `old := none` on the strength of the migration flags, the state `t0` *just before* the release (flag of the last
stripe already set, array still there) satisfies it:
* (a) lazy: `rehash_lock` on the stripe that takes `rem` from 1 to 0 — `t0 = migT c t l o`;
* (b) batch: `rehash_with_workers` / the loop at the start of `cuckoo_fast_double` / `cuckoo_expand_simple` —
  `t0 = migrateAll.go …` (all stripes done), then `num_remaining_lazy_rehash_locks(0)`;
* (c) `lock_table` is (b).
(`clear` also stores 0, but destroys everything: `clear_destroys_everything`; the eager branch of
`cuckoo_fast_double` does not go by the flags: `eager_double_drops_only_moved`.) -/
theorem old_release_kills_only_husks (c : Cfg κ) (t : Table κ ν) (h : Inv c t) :
    (∀ l lk o, t.rem = 1 → t.locks[l]? = some lk → lk.migrated = false → t.old = some o →
      t.rehashLock c l true = { migT c t l o with rem := 0, old := none } ∧ (migT c t l o).old = some o ∧
      OldAllHusks c (migT c t l o)) ∧
    (t.migrateAll c = { Table.migrateAll.go c t.locks.size 0 t with rem := 0, old := none } ∧
      OldAllHusks c (Table.migrateAll.go c t.locks.size 0 t)) ∧
    t.lockTable c = t.migrateAll c := by
  refine ⟨?_, ?_, rfl⟩
  · intro l lk o hrem hlk hmig hold
    obtain ⟨a1, a2, a3⟩ := lazy_release c t l lk o h hrem hlk hmig hold
    exact ⟨a1, a2, oldAllHusks_of_allMig c _ a3⟩
  · obtain ⟨a1, a2⟩ := migrateAll_release c t h
    exact ⟨a1, oldAllHusks_of_allMig c _ a2⟩

/-- with every stripe migrated, all objects of the old array are husks — in numbers too -/
theorem all_old_objects_are_husks (c : Cfg κ) (t : Table κ ν) (o : Store κ ν) (ha : AllMig t) (ho : t.old = some o) :
    OldAllHusks c t ∧ husks c t = o.count ∧ liveOld c t = 0 := by
  have h0 := liveOld_of_allMig c t ha
  refine ⟨oldAllHusks_of_allMig c t ha, ?_, h0⟩
  have := objCount_split c t
  unfold objCount at this
  rw [ho] at this
  simp only at this
  omega

/-- **the eager branch of `cuckoo_fast_double` drops only moved-from objects**: the former current array is released
at once, and every element it held has been constructed in the new current array (and nothing else has) -/
theorem eager_double_drops_only_moved [DecidableEq κ] (c : Cfg κ) (locked : Bool) (t1 : Table κ ν) (h1 : Inv c t1)
    (hlt : 2 ^ t1.hp < c.M) :
    (Rz.doubleCore c locked t1 (t1.hp + 1)).old = none ∧
    ∀ sl, (∃ b s, t1.cur.get c.S b s = some sl) ↔
      (∃ b s, (Rz.doubleCore c locked t1 (t1.hp + 1)).cur.get c.S b s = some sl) := by
  rw [doubleCore_eager_eq c locked t1 hlt]
  refine ⟨rfl, ?_⟩
  have mvi := Rz.mv_spec h1.S_pos h1.cur_wf (Rz.inv_curUniq h1) (2 ^ t1.cur.hp) 0 _ (by omega) (Rz.MvInv.init c t1.cur)
  intro sl
  show _ ↔ ∃ b s, (fastDouble.mv c t1.cur (2 ^ t1.hp) 0 (Store.mk' c.S (t1.hp + 1))).get c.S b s = some sl
  have := mvi.content sl
  rw [show (2 : Nat) ^ t1.cur.hp = 2 ^ t1.hp from rfl, show t1.cur.hp + 1 = t1.hp + 1 from rfl] at this
  rw [this]
  constructor
  · rintro ⟨b, s, hg⟩; exact ⟨b, s, Store.get_some_bucket_lt h1.cur_wf.size hg, hg⟩
  · rintro ⟨b, s, _, hg⟩; exact ⟨b, s, hg⟩

/-- the same release seen through the flags, as at the other sites: in the eager branch the flags are never reset, so
just before `num_remaining_lazy_rehash_locks(0)` every stripe is flagged migrated and every object of the array about
to be released counts as a husk (what makes this *correct* is `eager_double_drops_only_moved`) -/
theorem eager_double_release_kills_only_husks [DecidableEq κ] (c : Cfg κ) (locked : Bool) (t1 : Table κ ν)
    (ha : AllMig t1) (hlt : 2 ^ t1.hp < c.M) :
    Rz.doubleCore c locked t1 (t1.hp + 1) =
      ({ t1.maybeResizeLocks c (2 ^ (t1.hp + 1)) with
          old := some t1.cur,
          cur := fastDouble.mv c t1.cur (2 ^ t1.hp) 0 (Store.mk' c.S (t1.hp + 1)) } : Table κ ν).setRem 0 ∧
    OldAllHusks c ({ t1.maybeResizeLocks c (2 ^ (t1.hp + 1)) with
          old := some t1.cur,
          cur := fastDouble.mv c t1.cur (2 ^ t1.hp) 0 (Store.mk' c.S (t1.hp + 1)) } : Table κ ν) := by
  refine ⟨?_, ?_⟩
  · rw [doubleCore_eager_eq c locked t1 hlt]
    simp [Table.setRem]
  · apply oldAllHusks_of_allMig
    exact (Rz.maybeResizeLocks_spec' c t1 (2 ^ (t1.hp + 1))).2.2.2.2.2.2.2.2.1 ha

/-- **`cuckoo_fast_double` (lazy branch) keeps every object**: with at least `kMaxNumLocks` buckets, in normal mode,
after the checks have passed, the pending migration is finished first (`t1 = t.migrateAll`, whose old array is already
released: nothing is overwritten), then the former current array *becomes* the old array as it is — no object is
constructed or destroyed —, the new current array is entirely empty, every cell of the old array is a live element
under its old coordinates, and there are no husks -/
theorem fast_double_keeps_every_object [DecidableEq κ] (c : Cfg κ) (auto : Bool) (fuel : Nat) (t : Table κ ν)
    (h : Inv c t) (hn : c.nothrowMove = true) (hchk : t.checkResize c auto (t.hp + 1) = none)
    (hlim : t.hp + 1 ≤ c.hpLimit) (hge : c.M ≤ 2 ^ t.hp) :
    ∃ t', fastDouble c false auto (fuel + 1) t t.hp = (t', .ok true) ∧
      (t.migrateAll c).old = none ∧ t'.old = some (t.migrateAll c).cur ∧
      (∀ b s, t'.cur.get c.S b s = none) ∧
      (∀ b s, t'.unmigB c b = true ∧ t'.at c (.old b s) = (t.migrateAll c).at c (.cur b s)) ∧
      objCount t' = objCount (t.migrateAll c) ∧ husks c t' = 0 := by
  obtain ⟨m1, _, m3, _, _, _, m7, _⟩ := migrateAll_spec c t h
  have hge' : c.M ≤ 2 ^ (t.migrateAll c).hp := by rw [m3]; exact hge
  have e := doubleCore_lazy_eq c (t.migrateAll c) m1 hge'
  rw [m3] at e
  refine ⟨_, fastDouble_success_eq c false auto fuel t hn hchk hlim, m7, ?_, ?_, ?_, ?_, ?_⟩
  · rw [e]; rfl
  · intro b s; rw [e]; exact Store.mk'_get _ _ _ _
  · intro b s
    exact lazy_at_old c (t.migrateAll c) _ m1 hge' (by rw [e]; rfl) (by rw [e]; rfl) b s
  · rw [e]
    have e1 : objCount (t.migrateAll c) = (t.migrateAll c).cur.count := by unfold objCount; rw [m7]; rfl
    rw [e1]
    show (Store.mk' c.S (t.hp + 1) : Store κ ν).count + (t.migrateAll c).cur.count = _
    rw [Store.mk'_count]; omega
  · have hu : ∀ b, (Rz.bumpRc (Rz.doubleCore c false (t.migrateAll c) (t.hp + 1))).unmigB c b = true := fun b =>
      (lazy_at_old c (t.migrateAll c) _ m1 hge' (by rw [e]; rfl) (by rw [e]; rfl) b 0).1
    unfold husks
    split
    · rw [List.length_eq_zero_iff, List.filter_eq_nil_iff]
      intro i _
      rw [hu]; simp
    · rfl

/-- **a successful rebuild drops only moved-from objects**: when `cuckoo_expand_simple` succeeds, every element of the
dropped former current array (and every live element of the table) has been constructed in the rebuilt array that
replaces it, no old array is left, the contents are the same map, and the objects are exactly the stored pairs -/
theorem rebuild_drops_only_husks [DecidableEq κ] (c : Cfg κ) (locked auto : Bool) (fuel : Nat) (t t' : Table κ ν)
    (newHp : Nat) (r : Bool) (m : AMap κ ν) (h : Inv c t) (hr : Rel c t m) (hl : locked = true → AllMig t)
    (hres : expandSimple c locked auto fuel t newHp = (t', .ok r)) :
    (∀ b s sl, (t.migrateAll c).cur.get c.S b s = some sl → ∃ b' s', t'.cur.get c.S b' s' = some sl) ∧
    (∀ sl, t.Live c sl ↔ ∃ b' s', t'.cur.get c.S b' s' = some sl) ∧
    t'.old = none ∧ Inv c t' ∧ Rel c t' m ∧ objCount t' = m.length := by
  have spec := expandSimple_spec c locked auto fuel t newHp h hl
  rw [hres] at spec
  obtain ⟨hi, hs, _, ha⟩ := spec
  dsimp only at hi hs ha
  obtain ⟨_, m2, _, _, _, _, m7, _⟩ := migrateAll_spec c t h
  obtain ⟨_, _, _, _, _, _, _, hold, _⟩ := expandSimple_ok_shape c locked auto fuel t t' newHp r hres
  have hold' : t'.old = none := hold.trans m7
  have hlive : ∀ sl, t.Live c sl ↔ ∃ b' s', t'.cur.get c.S b' s' = some sl := fun sl =>
    ((hs.live sl).symm).trans (Rz.live_iff_cur (fun b => ha.unmigB b) sl)
  have hr' := hr.of_same hs
  refine ⟨?_, hlive, hold', hi, hr', ?_⟩
  · intro b s sl hg
    exact (hlive sl).mp ((m2.live sl).mp ⟨.cur b s, hg⟩)
  · rw [objCount_ledger hi hr', husks_of_no_old c t' hold']; rfl

/-- **a failed rebuild keeps the table** (statement about the MODEL): the table returned with an error is the original
one, or the original one with its pending migration finished; either way it satisfies the invariant and represents
the same map, so no object has been lost or left moved-from.  (Known open finding F4: the real
`cuckoo_expand_simple` moves the elements into the temporary map, so an exception in the middle of the loop leaves
moved-from values behind; the model does not represent that.) -/
theorem rebuild_failure_keeps_table [DecidableEq κ] (c : Cfg κ) (locked auto : Bool) (fuel : Nat) (t t' : Table κ ν)
    (newHp : Nat) (e : Err) (m : AMap κ ν) (h : Inv c t) (hr : Rel c t m)
    (hres : expandSimple c locked auto fuel t newHp = (t', .err e)) :
    (t' = t ∨ t' = t.migrateAll c) ∧ Inv c t' ∧ Rel c t' m ∧ objCount t' = m.length + husks c t' := by
  have hshape := expandSimple_err_shape c locked auto fuel t t' newHp e hres
  obtain ⟨m1, m2, _⟩ := migrateAll_spec c t h
  have : Inv c t' ∧ Rel c t' m := by
    rcases hshape with rfl | rfl
    · exact ⟨h, hr⟩
    · exact ⟨m1, hr.of_same m2⟩
  exact ⟨hshape, this.1, this.2, objCount_ledger this.1 this.2⟩

/-- **`clear` destroys everything**: no cell of the current array is occupied, there is no old array, no object left -/
theorem clear_destroys_everything (c : Cfg κ) (t : Table κ ν) :
    (∀ b s, (t.clear c).cur.get c.S b s = none) ∧ (t.clear c).cur.count = 0 ∧ (t.clear c).old = none ∧
    objCount (t.clear c) = 0 := by
  rw [C02A.clear_eq]
  refine ⟨fun b s => Store.mk'_get _ _ _ _, Store.mk'_count _ _, rfl, ?_⟩
  unfold objCount
  show (Store.mk' c.S t.hp : Store κ ν).count + 0 = 0
  rw [Store.mk'_count]

/-! ## 3. the ledger -/

/-- **ledger**: at every quiescent point the constructed, not yet destroyed objects (`objCount`: the occupied cells
of the current and of the old array) are exactly the stored pairs plus the husks of the array kept for deferred
migration.  Destroying the table destroys every occupied cell of both arrays once, i.e. exactly these objects: every
stored pair once, every husk once, nothing else -/
theorem objCount_eq (c : Cfg κ) (t : Table κ ν) (m : AMap κ ν) (h : Inv c t) (hr : Rel c t m) :
    objCount t = m.length + husks c t :=
  objCount_ledger h hr

/-- the same, cell by cell: an occupied cell of the current array is a live element; an occupied cell of the old array
is a live element if its stripe is un-migrated and a husk (not live) otherwise; and the live elements are the pairs -/
theorem every_object_is_a_pair_or_a_husk (c : Cfg κ) (t : Table κ ν) (m : AMap κ ν) (hr : Rel c t m) :
    (∀ b s sl, t.cur.get c.S b s = some sl → (sl.key, sl.val) ∈ m) ∧
    (∀ o b s sl, t.old = some o → o.get c.S b s = some sl →
      (t.unmigB c b = true ∧ (sl.key, sl.val) ∈ m) ∨ (t.unmigB c b = false ∧ t.at c (.old b s) = none)) := by
  refine ⟨?_, ?_⟩
  · intro b s sl hg
    exact (hr.pairs sl.key sl.val).mpr ⟨sl.tag, .cur b s, hg⟩
  · intro o b s sl ho hg
    cases hu : t.unmigB c b with
    | true =>
      left
      exact ⟨rfl, (hr.pairs sl.key sl.val).mpr ⟨sl.tag, .old b s, (at_old_some_iff c t b s sl).mpr ⟨o, ho, hu, hg⟩⟩⟩
    | false =>
      right
      exact ⟨rfl, C08.husks_never_live c t b s hu⟩

/-- no old array, no husks -/
theorem no_husks_without_old (c : Cfg κ) (t : Table κ ν) (h : t.old = none) : husks c t = 0 :=
  husks_of_no_old c t h

/-- hence without an old array the objects are exactly the stored pairs -/
theorem objCount_eq_of_no_old (c : Cfg κ) (t : Table κ ν) (m : AMap κ ν) (h : Inv c t) (hr : Rel c t m)
    (ho : t.old = none) : objCount t = m.length := by
  rw [objCount_ledger h hr, husks_of_no_old c t ho]; rfl

/-- after `clear` no object is left -/
theorem objCount_clear (c : Cfg κ) (t : Table κ ν) : objCount (t.clear c) = 0 :=
  (clear_destroys_everything c t).2.2.2

/-- after `lock_table` / a finished migration the objects are exactly the stored pairs: the husks died with the old
array, nothing else did -/
theorem objCount_lockTable (c : Cfg κ) (t : Table κ ν) (m : AMap κ ν) (h : Inv c t) (hr : Rel c t m) :
    objCount (t.lockTable c) = m.length ∧ objCount (t.migrateAll c) = m.length ∧
    objCount t = objCount (t.migrateAll c) + husks c t := by
  obtain ⟨m1, m2, _, _, _, _, m7, _⟩ := migrateAll_spec c t h
  have e := objCount_eq_of_no_old c (t.migrateAll c) m m1 (hr.of_same m2) m7
  refine ⟨e, e, ?_⟩
  rw [e]; exact objCount_ledger h hr

/-- the per-stripe element counters add up to the number of live cells (`liveCount`, the quantity the driver's
self-check compares them with), which is the number of stored pairs -/
theorem counters_count_live_objects (c : Cfg κ) (t : Table κ ν) (m : AMap κ ν) (h : Inv c t) (hr : Rel c t m) :
    t.sumCnt = (t.liveCount c : Int) ∧ t.liveCount c = m.length ∧ objCount t = t.liveCount c + husks c t := by
  have e : t.liveCount c = m.length := by
    rw [liveCount_eq, rel_length_liveLocs h hr, liveLocs_length]
  refine ⟨sumCnt_eq_liveCount h hr, e, ?_⟩
  rw [e]; exact objCount_ledger h hr

/-! ## 4. non-vacuity: the concrete table of `Props/C03Frame.lean` with a pending migration

`cE`: 2 slots per bucket, 2 stripes, identity hash.  `tFull`: 2 buckets holding keys 0,1,2,3.  `tPend`: after
`cuckoo_fast_double` — 4 buckets, both stripes pending, all four elements still in the old array. -/
section Examples
open Cuckoo.Props.C03Frame

/-- stripe 0 taken lazily -/
def tOne : Table Nat Nat := tPend.rehashLock cE 0 true
/-- … then stripe 1: the last one -/
def tTwo : Table Nat Nat := tOne.rehashLock cE 1 true

theorem tOne_inv : Inv cE tOne := (rehashLock_lazy_spec cE tPend 0 tPend_inv).1
theorem tTwo_inv : Inv cE tTwo := (rehashLock_lazy_spec cE tOne 1 tOne_inv).1
theorem tOne_rel : ∃ m, Rel cE tOne m := by
  obtain ⟨m, r⟩ := tPend_rel
  exact ⟨m, r.of_same (rehashLock_lazy_spec cE tPend 0 tPend_inv).2.1⟩

/-- (target bucket, target slot, key) of the writes of `rehash_lock(l)` -/
def traceOf (t : Table Nat Nat) (l : Nat) : List (Nat × Nat × Nat) :=
  match t.old with
  | some o => (rehashWrites cE t l o).map (fun (w : Write Nat Nat) => (w.1, w.2.1, w.2.2.key))
  | none => []

/-- the ledger along the migration: 4 objects, all live in the old array; after stripe 0 two copies have been
constructed (6 objects: 4 pairs + 2 husks); after the last stripe the old array is gone with its 4 husks and the 4
objects left are the 4 pairs -/
example : objCount tPend = 4 ∧ husks cE tPend = 0 ∧ liveOld cE tPend = 4 := by decide +kernel
example : objCount tOne = 6 ∧ husks cE tOne = 2 ∧ liveOld cE tOne = 2 ∧ tOne.rem = 1 := by decide +kernel
example : objCount tTwo = 4 ∧ husks cE tTwo = 0 ∧ tTwo.old.isSome = false := by decide +kernel

/-- the ledger theorem applies to the pending tables (its hypotheses are satisfiable with husks present) -/
example : ∃ m : AMap Nat Nat, objCount tOne = m.length + husks cE tOne ∧ husks cE tOne = 2 := by
  obtain ⟨m, r⟩ := tOne_rel
  exact ⟨m, objCount_eq cE tOne m tOne_inv r, by decide +kernel⟩

/-- the writes of `rehash_lock(0)` on the pending table: key 2 goes up into bucket 2 (slot 0), key 0 stays in bucket 0
at its slot 1; of `rehash_lock(1)`: keys 3 and 1 go up into bucket 3 -/
example : traceOf tPend 0 = [(2, 0, 2), (0, 1, 0)] ∧ traceOf tPend 1 = [(3, 0, 3), (3, 1, 1)] := by decide +kernel

/-- the write-discipline theorem applies to it: un-migrated stripe, old array present -/
example : ∃ o, tPend.old = some o ∧ (rehashWrites cE tPend 0 o).Pairwise Write.Apart ∧
    (∀ w ∈ rehashWrites cE tPend 0 o, tPend.cur.get cE.S w.1 w.2.1 = none) ∧
    tOne.cur.count = tPend.cur.count + (rehashWrites cE tPend 0 o).length := by
  have hl : tPend.locks[0]? = some ⟨2, false⟩ := by decide +kernel
  cases ho : tPend.old with
  | none =>
    have : tPend.old.isSome = true := by decide +kernel
    rw [ho] at this; cases this
  | some o =>
    obtain ⟨_, a2, a3, _, a5, _⟩ := rehashLock_constructs_on_empty cE tPend 0 _ o true tPend_inv hl rfl ho
    exact ⟨o, rfl, a3, fun w hw => (a2 w hw).2.2.2.1, a5⟩

/-- the lazy release really happens on `tOne` (`rem = 1`, stripe 1 pending), and by the theorem the array released
holds husks only -/
example : ∃ o, tOne.old = some o ∧ tTwo = { migT cE tOne 1 o with rem := 0, old := none } ∧
    OldAllHusks cE (migT cE tOne 1 o) := by
  have hl : tOne.locks[1]? = some ⟨2, false⟩ := by decide +kernel
  have hrem : tOne.rem = 1 := by decide +kernel
  cases ho : tOne.old with
  | none =>
    have : tOne.old.isSome = true := by decide +kernel
    rw [ho] at this; cases this
  | some o =>
    obtain ⟨a1, _, a3⟩ := (old_release_kills_only_husks cE tOne tOne_inv).1 1 _ o hrem hl rfl ho
    exact ⟨o, rfl, a1, a3⟩

/-- a hop on the migrated table (key 3 from bucket 3 slot 0 to the empty cell (1, 0)) passes its validations, and by
the theorem it moves exactly one object -/
example : ∃ t', hop cE tTwo ⟨3, 0, 3, 0⟩ ⟨1, 0, 0, 0⟩ = some t' ∧ objCount t' = objCount tTwo ∧
    (t'.cur.get cE.S 3 0).isSome = false ∧ (t'.cur.get cE.S 1 0).isSome = true := by
  cases hh : hop cE tTwo ⟨3, 0, 3, 0⟩ ⟨1, 0, 0, 0⟩ with
  | none =>
    have : (hop cE tTwo ⟨3, 0, 3, 0⟩ ⟨1, 0, 0, 0⟩).isSome = true := by decide +kernel
    rw [hh] at this; cases this
  | some t' =>
    obtain ⟨sl, _, _, a3, a4, _, _, _, a8⟩ :=
      hop_moves_one_object cE tTwo t' ⟨3, 0, 3, 0⟩ ⟨1, 0, 0, 0⟩ tTwo_inv hh (by decide +kernel) (by decide)
    exact ⟨t', rfl, a8, by rw [a4]; rfl, by rw [a3]; rfl⟩

/-- the range hypotheses of `hop_moves_one_object` are needed: a target record outside the array reads as empty, the
write to it is dropped, and the source would be destroyed without a copy (3 objects left of 4).  `cuckoopath_move`
never passes such a record (`PathOK`: slot `< S`, bucket an alternate index `< 2^hp`) -/
example : (hop cE tTwo ⟨3, 0, 3, 0⟩ ⟨9, 0, 0, 0⟩).map objCount = some 3 ∧ objCount tTwo = 4 := by decide +kernel

/-- `erase(1)` on the pending table: stripe 1 is migrated (two constructions, two husks), then one object is
destroyed: 5 objects = 3 pairs + 2 husks -/
example : objCount (tPend.fnOp cE true 1 (fun v => .ret v true)).1 = 5 ∧
    husks cE (tPend.fnOp cE true 1 (fun v => .ret v true)).1 = 2 := by decide +kernel

/-- `clear` on the table with husks leaves no object -/
example : objCount (tOne.clear cE) = 0 := objCount_clear cE tOne

/-- `lock_table` on the table with husks: the 2 husks die with the old array, the 4 pairs stay -/
example : objCount (tOne.lockTable cE) = 4 ∧ (tOne.lockTable cE).old.isSome = false := by decide +kernel

/-- the hypotheses of `fast_double_keeps_every_object` hold for the full table (`tPend` is the table it produces) -/
example : ∃ t', fastDouble cE false false 5 tFull tFull.hp = (t', .ok true) ∧ husks cE t' = 0 ∧
    objCount t' = objCount (tFull.migrateAll cE) :=
  have ⟨t', a1, _, _, _, _, a6, a7⟩ := fast_double_keeps_every_object cE false 4 tFull tFull_inv rfl
    (by decide +kernel) (by decide +kernel) (by decide +kernel)
  ⟨t', a1, a7, a6⟩

/-- a successful rebuild (`rehash(2)` on the table with husks): by the theorem the 4 pairs are the only objects left -/
example : ∃ t', expandSimple cE false false 8 tOne 2 = (t', .ok true) ∧ t'.old = none ∧
    ∃ m : AMap Nat Nat, objCount t' = m.length := by
  have hok : (match (expandSimple cE false false 8 tOne 2).2 with | .ok true => true | _ => false) = true := by
    decide +kernel
  obtain ⟨m, r⟩ := tOne_rel
  rcases hres : expandSimple cE false false 8 tOne 2 with ⟨t', res⟩
  rw [hres] at hok
  cases res with
  | err e => cases hok
  | ok b =>
    cases b with
    | false => cases hok
    | true =>
      obtain ⟨_, _, a3, _, _, a6⟩ :=
        rebuild_drops_only_husks cE false false 8 tOne t' 2 true m tOne_inv r (fun e => by cases e) hres
      exact ⟨t', rfl, a3, m, a6⟩

end Examples

end Cuckoo.Props.C08Life
