import Cuckoo.Model.ProtoLive
import Cuckoo.Proofs.ProtoInv
import Cuckoo.Proofs.LiveAux
/-!
# C04 (liveness side) — a call is sent back to retry only by a completed resize

For every execution accepted by the protocol acceptor together with rule L (`Model/ProtoLive.lean`), for any number of
threads, stripes and lock arrays and any schedule:
* the number of failed validations of a thread never exceeds the number of counter bumps (completed resizes);
* in a stretch of the execution without a completed resize no validation fails at all, i.e. every thread that gets its
  first lock proceeds;
so retry loops cannot spin on their own: ordinary operations of other threads (insert, erase, displacement, lazy
migration) never invalidate anybody's snapshot.  Together with deadlock freedom (`Props/C04.lean`) and the statically
bounded search (`Gen/Consts.lean`), what remains unproved for termination is fairness of the spinlocks themselves and
that the environment does not resize for ever.
-/
namespace Cuckoo.Props.C04Live
open Cuckoo.Proto

/-- the resize counter of the final state counts the bumps of the trace -/
theorem rc_counts_bumps (evs : List Ev) (s s' : PS) (l l' : LS) (h : runL s l evs = some (s', l')) :
    s'.rc = s.rc + bumps evs := by
  exact runL_rc h

/-- retries are bounded by completed resizes, for every thread and every accepted execution -/
theorem retries_bounded_by_resizes (hp n : Nat) (hn : 0 < n) (evs : List Ev) (s' : PS) (l' : LS)
    (h : runL (init hp n) LS.init evs = some (s', l')) (t : Tid) :
    l'.fails t ≤ bumps evs := by
  have h1 := linv_fails_le (linv_run (linv_init hp n) h) t
  have h2 := runL_rc h
  simp only [init] at h2
  omega

/-- a stretch without a completed resize: nobody's validation fails (stated for a stretch that starts in any reachable
state in which no thread is waiting with a snapshot that is already stale: here, every thread's snapshot is current) -/
theorem no_resize_no_retry (s : PS) (l : LS) (hs : Reach s) (hcur : ∀ t, (s.th t).snapRc = s.rc)
    (evs : List Ev) (hb : bumps evs = 0) (s' : PS) (l' : LS) (h : runL s l evs = some (s', l')) (t : Tid) :
    l'.fails t = l.fails t := by
  exact cur_run hcur hb h t

/-- the product run projects onto an accepted run of the safety acceptor (so every safety theorem applies to it) -/
theorem runL_run (evs : List Ev) (s s' : PS) (l l' : LS) (h : runL s l evs = some (s', l')) : run s evs = some s' := by
  exact runL_proj h

/-- non-vacuity: a thread fails one validation after one resize by another thread, and the bound is tight -/
example : (runL (init 2 2) LS.init
    [.rcLoad 0, .hpLoad 0, .genLoad 0,
     .allBegin 1, .acquire 1 ⟨0, 0⟩, .acquire 1 ⟨0, 1⟩, .allEnd 1, .storeHp 1 3, .bumpRc 1, .release 1 ⟨0, 1⟩, .release 1 ⟨0, 0⟩,
     .acquire 0 ⟨0, 0⟩, .rcLoad 0, .release 0 ⟨0, 0⟩]).map (fun p => p.2.fails 0) = some 1 := by
  decide

end Cuckoo.Props.C04Live
