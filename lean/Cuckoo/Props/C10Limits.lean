import Cuckoo.Gen.Limits
import Cuckoo.Model.Ops
/-!
# C10 / C15 — the decision logic of the resize limits IS the one in the source text (T-F)

`Gen/Limits.lean` is regenerated on every run by `translate/limits.py` from the text of `check_resize_validity`,
`minimum_load_factor(double)` and `maximum_hashpower(size_type)`: the ordered guards (atoms `(lhs, operator, rhs)`, locals resolved
to the calls that initialise them) with the guarded action, and what follows when no guard fires.  Here the guard lists are
*interpreted* — names are looked up in an environment built from a model table, operators are the ones of `Nat` and of IEEE
doubles (`Float`) — and the model's own decision functions (`Table.checkResize`, `Table.setMlf`, `Table.setMhp`, the
`failure_under_expansion` test of `fastDouble`) are proved to be exactly that interpretation, for every table and argument.
A source change that reorders the guards, weakens a comparison (`<` into `<=`), drops one, or stores a setting before it is
validated changes the generated data and a theorem below stops compiling — on paths no test or stream executes.
-/
namespace Cuckoo.Props.C10Limits
open Cuckoo Cuckoo.Model Cuckoo.Gen.Limits

/-- values of the names that occur in the guards -/
inductive Val
  | nat (n : Nat)
  | flt (x : Float)
  | bool (b : Bool)

abbrev Env := String → Option Val

/-- one atom of a condition; `none` = not interpretable (unknown name / ill-typed): no theorem below would then hold -/
def evalAtom (env : Env) (a : String × String × String) : Option Bool :=
  match a.2.1 with
  | "" => match env a.1 with
    | some (.bool b) => some b
    | _ => none
  | op =>
    match env a.1, env a.2.2 with
    | some (.nat x), some (.nat y) =>
      (match op with
       | "<" => some (decide (x < y)) | ">" => some (decide (x > y)) | "<=" => some (decide (x ≤ y)) | ">=" => some (decide (x ≥ y))
       | "==" => some (decide (x = y)) | "!=" => some (decide (x ≠ y)) | _ => none)
    | some (.flt x), some (.flt y) =>
      (match op with
       | "<" => some (x < y) | ">" => some (x > y) | "<=" => some (x ≤ y) | ">=" => some (x ≥ y) | _ => none)
    | _, _ => none

def evalCond (env : Env) : List (String × String × String) → Option Bool
  | [] => some true
  | a :: rest => do
    let x ← evalAtom env a
    let y ← evalCond env rest
    pure (x && y)

/-- the action of the first guard whose condition holds; `some none` = no guard fires -/
def firstGuard (env : Env) : List (List (String × String × String) × String) → Option (Option String)
  | [] => some none
  | (cond, act) :: rest => do
    let b ← evalCond env cond
    if b then pure (some act) else firstGuard env rest

/-- what the function does: the action of the first guard that fires, else its last statement (`return ok`, or — for a source
that tests the good case first — whatever follows) -/
def outcome (env : Env) (guards : List (List (String × String × String) × String)) (tail : List String) : Option String :=
  (firstGuard env guards).map fun r => r.getD (tail.getLastD "")

/-! ### check_resize_validity -/

def envResize (c : Cfg κ) (t : Table κ ν) (auto : Bool) (origHp newHp : Nat) : Env := fun s =>
  match s with
  | "maximum_hashpower()" => some (.nat t.mhp)
  | "NO_MAXIMUM_HASHPOWER" => some (.nat noMaxHp)
  | "new_hp" => some (.nat newHp)
  | "orig_hp" => some (.nat origHp)
  | "hashpower()" => some (.nat t.hp)
  | "AUTO_RESIZE::value" => some (.bool auto)
  | "load_factor()" => some (.flt (lfOf t.size (t.capacity c)))
  | "minimum_load_factor()" => some (.flt t.mlf)
  | _ => none

/-- the outcome of `check_resize_validity` as the model computes it: the policy exceptions by `Table.checkResize`, then the
`hashpower() != orig_hp` test the callers make (`fastDouble`: `failure_under_expansion`), else `ok` -/
def modelResize (c : Cfg κ) (t : Table κ ν) (auto : Bool) (origHp newHp : Nat) : String :=
  match t.checkResize c auto newHp with
  | some .maxHpExceeded => "throw maximum_hashpower_exceeded"
  | some .loadFactorTooLow => "throw load_factor_too_low"
  | some _ => "?"
  | none => if t.hp ≠ origHp then "return failure_under_expansion" else "return ok"

/-- **the model's resize-validity decision is the interpretation of the source's guards**, for every table, mode and request:
whatever the shape of the source (nested or conjoined conditions, the failure or the success tested first), it throws
`maximum_hashpower_exceeded`, throws `load_factor_too_low`, returns `failure_under_expansion` or returns `ok` in exactly the
cases in which the model does — in particular the load-factor comparison is STRICT and applies to automatic resizes only
(C15: with a minimum of 0 it can never fire) -/
theorem checkResize_is_source (c : Cfg κ) (t : Table κ ν) (auto : Bool) (origHp newHp : Nat) :
    outcome (envResize c t auto origHp newHp) checkResizeValidity checkResizeValidity_then =
      some (modelResize c t auto origHp newHp) := by
  simp only [checkResizeValidity, checkResizeValidity_then, outcome, firstGuard, evalCond, evalAtom, envResize, modelResize,
    Table.checkResize, Table.lfBelow, bind, Option.bind, pure, Bool.and_true, List.getLastD]
  by_cases h1 : t.mhp = noMaxHp <;> by_cases h2 : t.mhp < newHp <;> cases auto <;>
    by_cases h3 : lfOf t.size (t.capacity c) < t.mlf <;> by_cases h4 : t.hp = origHp <;>
    simp [h1, h2, h3, h4]

/-- nothing is executed before the guards (other than initialisations of locals) -/
theorem checkResize_nothing_before : checkResizeValidity_before = [] := by decide

/-! ### the setters -/

def envMlf (m : Float) : Env := fun s =>
  match s with
  | "mlf" => some (.flt m)
  | "0.0" => some (.flt 0.0)
  | "1.0" => some (.flt 1.0)
  | _ => none

/-- `minimum_load_factor(mlf)` rejects exactly what the source's guards reject … -/
theorem setMlf_is_source (t : Table κ ν) (m : Float) :
    firstGuard (envMlf m) setMinimumLoadFactor =
      some (match (t.setMlf m).2 with | .err _ => some "throw std::invalid_argument" | .ok _ => none) := by
  simp only [setMinimumLoadFactor, firstGuard, evalCond, evalAtom, envMlf, Table.setMlf, bind, Option.bind, pure, Bool.and_true]
  by_cases h1 : m < 0.0 <;> by_cases h2 : 1.0 < m <;> simp [h1, h2]

/-- … and the setting is stored only after both guards (nothing is written when one fires: every statement of the function
after the guards is the one release store) -/
theorem setMlf_stores_after_validation :
    setMinimumLoadFactor_then = ["minimum_load_factor_.store(mlf,std::memory_order_release)"] ∧ setMinimumLoadFactor_before = [] := by decide

def envMhp (t : Table κ ν) (m : Nat) : Env := fun s =>
  match s with
  | "hashpower()" => some (.nat t.hp)
  | "mhp" => some (.nat m)
  | _ => none

theorem setMhp_is_source (t : Table κ ν) (m : Nat) :
    firstGuard (envMhp t m) setMaximumHashpower =
      some (match (t.setMhp m).2 with | .err _ => some "throw std::invalid_argument" | .ok _ => none) := by
  simp only [setMaximumHashpower, firstGuard, evalCond, evalAtom, envMhp, Table.setMhp, bind, Option.bind, pure, Bool.and_true]
  by_cases h : m < t.hp <;> simp [h]

theorem setMhp_stores_after_validation :
    setMaximumHashpower_then = ["maximum_hashpower_.store(mhp,std::memory_order_release)"] ∧ setMaximumHashpower_before = [] := by decide

/-! non-vacuity: the interpreter distinguishes `<` from `<=` (a table whose load factor equals the minimum) -/
example : evalAtom (fun s => if s == "a" then some (.flt 1.0) else if s == "b" then some (.flt 1.0) else none) ("a", "<", "b") = some false ∧
          evalAtom (fun s => if s == "a" then some (.flt 1.0) else if s == "b" then some (.flt 1.0) else none) ("a", "<=", "b") = some true := by
  constructor <;> rfl

end Cuckoo.Props.C10Limits
