import Cuckoo.Props.C02
import Cuckoo.Proofs.Serial
/-!
# C12 — stream serialization round-trips the table and yields a fully working table

`Table.write` is `operator<<` of a locked table (logical content of the stream: hashpower, the raw bucket
array, size, minimum load factor, maximum hashpower); `Table.read` is `operator>>` into an (active) locked table
of any previous size and contents.  Because the result satisfies `Inv` and `Rel` (and everything is migrated),
every later operation — in locked or normal mode — behaves as C02 states: as on a freshly built table.
-/
namespace Cuckoo.Props.C12
open Cuckoo Cuckoo.Model Cuckoo.Spec
variable {κ ν : Type} [DecidableEq κ]

/-- writing does not change the source (it is a pure function of it) and records its size and settings -/
theorem write_records (t : Table κ ν) :
    (t.write).hp = t.hp ∧ (t.write).cells = t.cur.cells ∧ (t.write).size = t.size ∧
    (t.write).mlf = t.mlf ∧ (t.write).mhp = t.mhp := by
  exact ⟨rfl, rfl, rfl, rfl, rfl⟩

/-- reading the image of `src` into any locked destination gives a well-formed table with the source's contents,
size and settings; `bump` (whether the resize generation is advanced) does not matter for this -/
theorem read_write_roundtrip (c : Cfg κ) (bump : Bool) (src dst : Table κ ν) (m : AMap κ ν)
    (hs : Inv c src) (hr : Rel c src m) (hsl : AllMig src)
    (hd : Inv c dst) (hdl : AllMig dst)
    (hmlf : (src.mlf < 0.0) = false ∧ (src.mlf > 1.0) = false) (hhp : src.hp ≤ src.mhp) :
    (dst.read c bump src.write).2 = .ok () ∧
    Inv c (dst.read c bump src.write).1 ∧ AllMig (dst.read c bump src.write).1 ∧
    Rel c (dst.read c bump src.write).1 m ∧
    (dst.read c bump src.write).1.size = src.size ∧
    (dst.read c bump src.write).1.mlf = src.mlf ∧ (dst.read c bump src.write).1.mhp = src.mhp ∧
    (dst.read c bump src.write).1.cur.cells = src.cur.cells ∧ (dst.read c bump src.write).1.hp = src.hp := by
  have e : dst.read c bump src.write = (dst.readFinal c bump src, .ok ()) := read_ok c bump dst src.write hmlf hhp
  rw [e]
  have hsum := readFinal_sumCnt c bump dst src hd
  have hsz : (src.size : Int) = (m.length : Int) := by
    have h : src.size = src.sumCnt.toNat := rfl
    rw [h, hr.count, Int.toNat_natCast]
  refine ⟨rfl, readFinal_inv c bump dst src hs hd hdl, readFinal_allMig c bump dst src hdl, ?_, ?_, rfl, rfl, rfl, rfl⟩
  · refine ⟨fun k v => (hr.pairs k v).trans ?_, hr.nodup, hsum.trans hsz⟩
    constructor
    · rintro ⟨tag, hl⟩
      exact ⟨tag, (readFinal_live c bump dst src hsl hdl _).mpr hl⟩
    · rintro ⟨tag, hl⟩
      exact ⟨tag, (readFinal_live c bump dst src hsl hdl _).mp hl⟩
  · have h : (dst.readFinal c bump src).size = (dst.readFinal c bump src).sumCnt.toNat := rfl
    rw [h, hsum, Int.toNat_natCast]

/-- the whole size is booked on stripe 0 and every other counter is 0 (so later per-stripe updates keep the sum exact) -/
theorem read_counters (c : Cfg κ) (bump : Bool) (src dst : Table κ ν) (hs : Inv c src) (hd : Inv c dst) :
    (dst.read c bump src.write).1.sumCnt = (src.size : Int) := by
  have h : (dst.read c bump src.write).1.sumCnt = (dst.readCore c bump src.write).sumCnt := by
    unfold Table.sumCnt
    rw [(read_locks c bump dst src.write).1]
    rfl
  rw [h]
  exact readCore_sumCnt c bump dst src.write hd

/-- with `bump = true` (the repaired code) extraction advances the resize generation, so operations that were
parked on a lock re-validate and restart -/
theorem read_bumps_generation (c : Cfg κ) (src dst : Table κ ν) :
    (dst.read c true src.write).1.rc = dst.rc + 1 ∧ (dst.read c false src.write).1.rc = dst.rc := by
  exact ⟨(read_locks c true dst src.write).2, (read_locks c false dst src.write).2⟩

/-- afterwards the destination is an ordinary table: any operation sequence on it refines the map `m` -/
theorem usable_after_read (c : Cfg κ) (bump : Bool) (src dst : Table κ ν) (m : AMap κ ν)
    (hs : Inv c src) (hr : Rel c src m) (hsl : AllMig src) (hd : Inv c dst) (hdl : AllMig dst)
    (hmlf : (src.mlf < 0.0) = false ∧ (src.mlf > 1.0) = false) (hhp : src.hp ≤ src.mhp) (ops : List (C02.Op κ ν)) :
    ∃ m', C02.specRun true m ops (C02.run c ⟨(dst.read c bump src.write).1, true⟩ ops).2 m' ∧
      C02.Good c (C02.run c ⟨(dst.read c bump src.write).1, true⟩ ops).1 m' := by
  obtain ⟨_, hi, ha, hrel, _⟩ := read_write_roundtrip c bump src dst m hs hr hsl hd hdl hmlf hhp
  exact C02.seq_refines c ops ⟨(dst.read c bump src.write).1, true⟩ m ⟨hi, hrel, fun _ => ha⟩

end Cuckoo.Props.C12
