def hello := "world"
