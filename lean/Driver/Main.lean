import Driver.Arith
import Driver.Model
/-! Line-protocol driver: one request per input line, one canonical answer per output line. -/
open Driver

def handle (st : St) (line : String) : St × String :=
  let ws := (line.trimAscii.toString.splitOn " ").filter (· ≠ "")
  match ws with
  | [] => (st, "")
  | "arith" :: rest => (st, (arithLine rest).getD "bad-op")
  | "m" :: rest => modelLine st rest
  | _ => (st, "bad-op")

partial def loop (h : IO.FS.Stream) (out : IO.FS.Stream) (st : St) : IO Unit := do
  let line ← h.getLine
  if line.isEmpty then return ()
  let (st, r) := handle st line
  out.putStrLn r
  loop h out st

def main : IO Unit := do
  let stdin ← IO.getStdin
  let stdout ← IO.getStdout
  loop stdin stdout {}
