import Driver.Arith
/-! Line-protocol driver: one request per input line, one canonical answer per output line. -/
open Driver

def handle (line : String) : String :=
  let ws := (line.trimAscii.toString.splitOn " ").filter (· ≠ "")
  match ws with
  | [] => ""
  | "arith" :: rest => (arithLine rest).getD "bad-op"
  | _ => "bad-op"

partial def loop (h : IO.FS.Stream) (out : IO.FS.Stream) : IO Unit := do
  let line ← h.getLine
  if line.isEmpty then return ()
  out.putStrLn (handle line)
  loop h out

def main : IO Unit := do
  let stdin ← IO.getStdin
  let stdout ← IO.getStdout
  loop stdin stdout
