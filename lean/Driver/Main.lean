import Driver.Arith
import Driver.Model
import Driver.Proto
import Driver.Lin
import Driver.Sec
/-! Line-protocol driver: one request per input line, one canonical answer per output line
(protocol-trace lines `p …` answer only at `p done`). -/
open Driver

structure DSt where
  m : St := {}
  p : PSt := {}

def handle (st : DSt) (line : String) : DSt × Option String :=
  let ws := (line.trimAscii.toString.splitOn " ").filter (· ≠ "")
  match ws with
  | [] => (st, some "")
  | "arith" :: rest => (st, some ((arithLine rest).getD "bad-op"))
  | "m" :: "sec" :: rest => let (m, r) := secLine st.m rest; ({ st with m := m }, some r)
  | "m" :: rest => let (m, r) := modelLine st.m rest; ({ st with m := m }, some r)
  | "p" :: rest => let (p, r) := protoLine st.p rest; ({ st with p := p }, r)
  | "lin" :: rest => (st, some (linLine rest))
  | _ => (st, some "bad-op")

partial def loop (h : IO.FS.Stream) (out : IO.FS.Stream) (st : DSt) : IO Unit := do
  let line ← h.getLine
  if line.isEmpty then return ()
  let (st, r) := handle st line
  match r with
  | some r => out.putStrLn r
  | none => pure ()
  loop h out st

def main : IO Unit := do
  let stdin ← IO.getStdin
  let stdout ← IO.getStdout
  loop stdin stdout {}
