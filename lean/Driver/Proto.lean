import Cuckoo.Model.Proto
import Cuckoo.Model.ProtoLive
import Cuckoo.Model.Fine
/-! K3(i): replay of recorded synchronisation traces through the protocol acceptor `Proto.accept`, rule L
(`Model/ProtoLive.lean`) and the fine-grained acceptor `Fine.accept` (rule T, two-phase holds: the hypothesis of the
reduction theorems of `Props/C01Red.lean`).  A bucket access of stripe `i` is replayed as a data write on location `i`
(guard map = identity), so the data-access rule of `Fine.accept` is exactly the protocol's `access` rule. -/
namespace Driver
open Cuckoo.Proto

structure PSt where
  cur : Option (Cuckoo.Fine.FS Unit) := none
  live : LS := LS.init      -- retry bookkeeping (rule L, Model/ProtoLive.lean)
  n : Nat := 0
  rejected : Option (Nat × String) := none

def parseEv (ws : List String) : Option Ev :=
  match ws with
  | ["rcL", t] => (fun t => Ev.rcLoad t) <$> t.toNat?
  | ["hpL", t] => (fun t => Ev.hpLoad t) <$> t.toNat?
  | ["cur", t] => (fun t => Ev.genLoad t) <$> t.toNat?
  | ["acq", t, g, i] => do let t ← t.toNat?; let g ← g.toNat?; let i ← i.toNat?; pure (Ev.acquire t ⟨g, i⟩)
  | ["unl", t, g, i] => do let t ← t.toNat?; let g ← g.toNat?; let i ← i.toNat?; pure (Ev.release t ⟨g, i⟩)
  | ["acc", t, st] => do let t ← t.toNat?; let st ← st.toNat?; pure (Ev.access t st)
  | ["LA<", t] => (fun t => Ev.allBegin t) <$> t.toNat?
  | ["LA>", t] => (fun t => Ev.allEnd t) <$> t.toNat?
  | ["hpS", t, v] => do let t ← t.toNat?; let v ← v.toNat?; pure (Ev.storeHp t v)
  | ["app", t, n] => do let t ← t.toNat?; let n ← n.toNat?; pure (Ev.append t n)
  | ["rcB", t] => (fun t => Ev.bumpRc t) <$> t.toNat?
  | ["end", t, k] => do let t ← t.toNat?; pure (Ev.opEnd t (k == "1"))
  | ["send", t] => (fun t => Ev.sectionEnd t) <$> t.toNat?
  | _ => none

def protoLine (st : PSt) (ws : List String) : PSt × Option String :=
  match ws with
  | "init" :: hp :: sizes =>
    match hp.toNat?, sizes.mapM String.toNat? with
    | some hp, some (n :: rest) =>
      let s0 := init hp n
      let s := { s0 with gens := n :: rest }
      ({ cur := some { ps := s, mem := fun _ => (), shrunk := fun _ => false }, live := LS.init, n := 0, rejected := none }, none)
    | _, _ => (st, some "bad-op")
  | ["done"] =>
    let r := match st.rejected with
      | some (i, e) => s!"REJECT {i} {e}"
      | none => s!"accepted {st.n}"
    ({}, some r)
  | ws =>
    match st.rejected, st.cur with
    | some _, _ => (st, none)
    | none, some fs =>
      let s := fs.ps
      match parseEv ws with
      | none => ({ st with rejected := some (st.n, "unparsable: " ++ " ".intercalate ws) }, none)
      | some e =>
        let fe : Cuckoo.Fine.FEv Unit := match e with
          | .access t stripe => .data t (.write stripe ())
          | e => .sync e
        match accept s e, stepL s st.live e with
        | some _, some l' =>
          match Cuckoo.Fine.accept (fun _ x => x) fs fe with
          | some fs' => ({ st with cur := some fs', live := l', n := st.n + 1 }, none)
          | none =>
            ({ st with rejected := some (st.n, "rule T (a hold acquires a lock / appends a lock array after it has released one: not two-phase): "
                                               ++ " ".intercalate ws) }, none)
        | none, _ => ({ st with rejected := some (st.n, " ".intercalate ws) }, none)
        | some _, none =>
          ({ st with rejected := some (st.n, "rule L (first lock on a snapshot whose validation already failed, no counter load since): "
                                             ++ " ".intercalate ws) }, none)
    | none, none => (st, some "bad-op")

end Driver
