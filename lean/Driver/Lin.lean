import Cuckoo.Model.Lin
/-! K3(iii): histories of concurrent executions of the real code, decided by the verified linearizability checker
`Cuckoo.Lin.checkWitnessFast` (sound and complete: `Props/C01Lin.lean`).

Request (one line):
`lin <nm0> (k v)* <nfin> (k v)* <nops> op*` with
`op ::= tid inv resp kind a b res` for ordinary calls and
`op ::= tid inv resp section nb (ltkind a b)* res` for a locked section (`res` = comma-separated answers).
Answer: `lin ok <tid.inv …>` (a linearization), `lin NOTLIN`, `lin skip <why>` (a history this checker does not
decide, e.g. a section that ended with an exception), or `lin bad <why>`. -/
namespace Driver
open Cuckoo.Lin Cuckoo.Spec

private def takePairs : Nat → List Nat → Option (AMap Nat Nat × List Nat)
  | 0, rest => some ([], rest)
  | n + 1, k :: v :: rest => (takePairs n rest).map fun (m, r) => ((k, v) :: m, r)
  | _, _ => none

private def parseErr (s : String) : Option LErr :=
  if s == "E:lftl" then some .lftl else if s == "E:maxhp" then some .maxhp else if s == "E:badalloc" then some .badalloc else none

private def parseVal (s : String) : Option LRes :=
  if s == "-" then some (.val none) else (s.toNat?).map fun n => .val (some n)

private def parseBool (s : String) : Option LRes :=
  if s == "1" then some (.bool true) else if s == "0" then some (.bool false) else (parseErr s).map .fail

/-- an ordinary call -/
private def parseCall (kind : String) (a b : Nat) (res : String) : Option (LOp × LRes) :=
  match kind with
  | "find" => (parseVal res).map fun r => (.find a, r)
  | "insert" => (parseBool res).map fun r => (.insert a b, r)
  | "ioa" => (parseBool res).map fun r => (.ioa a b, r)
  | "update" => (parseBool res).map fun r => (.update a b, r)
  | "erase" => (parseBool res).map fun r => (.erase a, r)
  | "upsert" => (parseBool res).map fun r => (.upsert a b, r)
  | "updatefn" => (parseBool res).map fun r => (.updatefn a b, r)
  | "erasefn" => (parseBool res).map fun r => (.erasefn a b, r)
  -- the flag returned by rehash / reserve is judged by the hashpower-timeline oracle of the harness, not by the map
  | "rehash" => if res == "1" || res == "0" || res == "ok" then some (.rehash a, .ok) else (parseErr res).map fun e => (.rehash a, .fail e)
  | "reserve" => if res == "1" || res == "0" || res == "ok" then some (.reserve a, .ok) else (parseErr res).map fun e => (.reserve a, .fail e)
  | "clear" => if res == "ok" then some (.clear, .ok) else none
  | _ => none

private def parseLt (kind : String) (a b : Nat) (res : String) : Option (LtOp × LtRes) :=
  match kind with
  | "ltinsert" => if res == "1" then some (.insert a b, .bool true) else if res == "0" then some (.insert a b, .bool false) else none
  | "lterase" => if res == "1" then some (.erase a, .bool true) else if res == "0" then some (.erase a, .bool false) else none
  | "ltfind" => if res == "-" then some (.find a, .val none) else (res.toNat?).map fun n => (.find a, .val (some n))
  | "ltclear" => if res == "ok" then some (.clear, .ok) else none
  | "ltsize" => (res.toNat?).map fun n => (.size, .size n)
  | "ltrehash" => if res == "ok" then some (.rehash a, .ok) else none
  | "ltreserve" => if res == "ok" then some (.reserve a, .ok) else none
  | _ => if res == "ok" then some (.other, .ok) else none

private def takeBody : Nat → List String → Option (List (String × Nat × Nat) × List String)
  | 0, rest => some ([], rest)
  | n + 1, k :: a :: b :: rest => do
    let a ← a.toNat?
    let b ← b.toNat?
    let (xs, r) ← takeBody n rest
    pure ((k, a, b) :: xs, r)
  | _, _ => none

/-- the calls of a history; `Except.error` distinguishes undecided (`skip`) from malformed (`bad`) input -/
private def parseOps : Nat → List String → Except String (List HOp)
  | 0, [] => .ok []
  | 0, _ => .error "bad trailing tokens"
  | n + 1, tid :: inv :: resp :: "section" :: nb :: rest =>
    match tid.toNat?, inv.toNat?, resp.toNat?, nb.toNat? with
    | some tid, some inv, some resp, some nb =>
      match takeBody nb rest with
      | some (body, res :: rest') =>
        if res.startsWith "E:" then .error "skip section ended with an exception"
        else
          let answers := (res.splitOn ",").filter (· ≠ "")
          if answers.length ≠ body.length then .error "bad section answers"
          else
            match (body.zip answers).mapM (fun ((k, a, b), r) => parseLt k a b r) with
            | some prs =>
              match parseOps n rest' with
              | .ok ops => .ok (⟨tid, inv, resp, .sec (prs.map (·.1)), .sec (prs.map (·.2))⟩ :: ops)
              | .error e => .error e
            | none => .error "bad section call"
      | _ => .error "bad section"
    | _, _, _, _ => .error "bad numbers"
  | n + 1, tid :: inv :: resp :: kind :: a :: b :: res :: rest =>
    match tid.toNat?, inv.toNat?, resp.toNat?, a.toNat?, b.toNat? with
    | some tid, some inv, some resp, some a, some b =>
      match parseCall kind a b res with
      | some (op, r) =>
        match parseOps n rest with
        | .ok ops => .ok (⟨tid, inv, resp, op, r⟩ :: ops)
        | .error e => .error e
      | none => .error s!"bad call {kind} {res}"
    | _, _, _, _, _ => .error "bad numbers"
  | _, _ => .error "bad truncated"

def linLine (ws : List String) : String :=
  match ws with
  | nm0 :: rest =>
      match nm0.toNat? with
      | none => "lin bad nm0"
      | some n0 =>
        let nums (k : Nat) (xs : List String) : Option (List Nat × List String) :=
          (xs.take k).mapM String.toNat? |>.map fun ns => (ns, xs.drop k)
        match nums (2 * n0) rest with
        | none => "lin bad m0"
        | some (m0n, rest1) =>
          match takePairs n0 m0n, rest1 with
          | some (m0, _), nf :: rest2 =>
            match nf.toNat? with
            | none => "lin bad nfin"
            | some nfin =>
              match nums (2 * nfin) rest2 with
              | none => "lin bad fin"
              | some (fn, rest3) =>
                match takePairs nfin fn, rest3 with
                | some (fin, _), nops :: rest4 =>
                  match nops.toNat? with
                  | none => "lin bad nops"
                  | some nops =>
                    match parseOps nops rest4 with
                    | .error e => if e.startsWith "skip" then "lin " ++ e else "lin bad " ++ e
                    | .ok h =>
                      if !wellFormedB h then "lin bad stamps"
                      else
                        match checkWitnessFast m0 h fin with
                        | some order =>
                          if validWitness m0 h order fin then
                            "lin ok " ++ " ".intercalate (order.map fun o => s!"{o.tid}.{o.inv}")
                          else "lin bad witness"
                        | none => "lin NOTLIN"
                | _, _ => "lin bad fin pairs"
          | _, _ => "lin bad m0 pairs"
  | [] => "lin bad empty"

end Driver
