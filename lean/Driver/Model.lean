import Cuckoo.Model.Inv
import Cuckoo.Model.Objects
/-! K2 side of the driver: runs the executable model on the line protocol (DESIGN 4.2). -/
namespace Driver
open Cuckoo Cuckoo.Model

abbrev T := Table Nat Nat

def mask64 : Nat := 2 ^ 64

/-- the hash families shared with harness/k2_seq.cc -/
def hashFn (mode : Nat) (k : Nat) : Nat :=
  match mode with
  | 0 => k % mask64                                          -- identity
  | 1 => 0x1234                                              -- constant
  | 2 => ((k % 4) + ((k / 4) <<< 32)) % mask64               -- few low bits
  | 3 => (k ^^^ (k <<< 32)) % mask64                         -- tag always 0 (for k < 2^32)
  | 4 => (k * 0x9E3779B97F4A7C15) % mask64                   -- multiplicative
  | 5 => ((k <<< 24) ||| (k <<< 16)) % mask64                -- low 16 bits zero
  | _ => (k * 0xff51afd7ed558ccd + 0x1b873593) % mask64

structure Entry where
  t : T
  locked : Bool := false
  alloc : Nat := 0
  movedFrom : Bool := false      -- the object still exists (and keeps its allocator) but holds no table

structure St where
  cfg : Cfg Nat := { S := 4, M := 65536, hash := hashFn 0, simple := true, nothrowMove := true, hpLimit := 40 }
  bumpOnRead : Bool := false
  pol : Policy := ⟨false, false, false⟩
  tabs : Array (Option Entry) := Array.replicate 8 none
  wires : Array (Option (Wire Nat Nat)) := Array.replicate 8 none

def mix (h : UInt64) (x : Nat) : UInt64 := (h ^^^ UInt64.ofNat x) * 1099511628211

def intBits (i : Int) : Nat := (i % (2 ^ 64 : Int)).toNat

def digestCells (h : UInt64) (cells : Array (Option (Slot Nat Nat))) (withVal : Bool) : UInt64 := Id.run do
  let mut h := h
  let mut i := 0
  for c in cells do
    match c with
    | some sl =>
      h := mix (mix (mix h i) sl.tag) sl.key
      if withVal then h := mix h sl.val
    | none => pure ()
    i := i + 1
  return h

def digest (t : T) : String := Id.run do
  let mut h : UInt64 := 1469598103934665603
  h := mix h t.hp
  h := mix h t.rc
  h := mix h t.rem
  h := mix h (match t.old with | some o => 1 + o.hp | none => 0)
  h := mix h t.mhp
  h := mix h t.mlf.toBits.toNat
  h := mix h t.workers
  for g in t.oldGens do h := mix h g
  h := mix h t.locks.size
  for l in t.locks do
    h := mix (mix h (intBits l.cnt)) (if l.migrated then 1 else 0)
  h := digestCells h t.cur.cells true
  match t.old with
  | some o => h := digestCells h o.cells false
  | none => pure ()
  let oldS := match t.old with | some o => toString o.hp | none => "-"
  return s!"D hp={t.hp} rc={t.rc} rem={t.rem} old={oldS} nlocks={t.locks.size} gens={t.oldGens.length} size={t.size} h={h.toNat}"

def dumpCells (cells : Array (Option (Slot Nat Nat))) (S : Nat) : String := Id.run do
  let mut s := ""
  let mut i := 0
  for c in cells do
    match c with
    | some sl => s := s ++ s!" [{i / S},{i % S}:{sl.tag}:{sl.key}={sl.val}]"
    | none => pure ()
    i := i + 1
  return s

def dump (c : Cfg Nat) (t : T) : String :=
  let locks := t.locks.foldl (fun s l => s ++ s!" ({l.cnt},{if l.migrated then 1 else 0})") ""
  let old := match t.old with | some o => s!"hp={o.hp}" ++ dumpCells o.cells c.S | none => "-"
  s!"DUMP hp={t.hp} rc={t.rc} rem={t.rem} mhp={t.mhp} mlf={t.mlf.toBits.toNat} workers={t.workers} gens={t.oldGens} locks:{locks} cur:{dumpCells t.cur.cells c.S} old: {old}"

def errName : Err → String
  | .maxHpExceeded => "maxhp"
  | .loadFactorTooLow => "lftl"
  | .badAlloc => "badalloc"
  | .invalidArg => "invalid"
  | .outOfRange => "oor"
  | .fnThrow => "fnthrow"
  | .fuel => "FUEL"

def showCalls (cs : List (Call Nat)) : String :=
  cs.foldl (fun s c =>
    let cx := match c.ctx with | none => "-" | some .newlyInserted => "N" | some .alreadyExisted => "E"
    s ++ s!" call={cx}:{c.seen}") ""

def showB (b : Bool) : String := if b then "1" else "0"

def showOut (o : Out Bool Nat) : String :=
  (match o.res with | .ok b => "ok " ++ showB b | .err e => "err " ++ errName e) ++ showCalls o.calls

def showRes {α} (f : α → String) : Res α → String
  | .ok a => "ok " ++ f a
  | .err e => "err " ++ errName e

/-- functor spec `kind,c,erase`: n = no-op, s = set c, a = add c, T = set c then throw -/
def parseFn (s : String) : Option (Nat → FnOut Nat) :=
  match s.splitOn "," with
  | [kind, c, e] => do
    let c ← c.toNat?
    let er := e == "1"
    match kind with
    | "n" => some fun v => .ret v er
    | "s" => some fun _ => .ret c er
    | "a" => some fun v => .ret ((v + c) % mask64) er
    | "T" => some fun _ => .throw c
    | _ => none
  | _ => none

def showPos (p : Pos) : String := s!"({p.1},{p.2})"

def posVal (c : Cfg Nat) (t : T) (p : Pos) : String :=
  match t.cur.get c.S p.1 p.2 with
  | some sl => s!"{sl.key}={sl.val}"
  | none => "end"

def hashPositions (c : Cfg Nat) (t : T) (ps : List Pos) : UInt64 × String :=
  ps.foldl (fun (acc : UInt64 × String) p =>
    match t.cur.get c.S p.1 p.2 with
    | some sl => (mix (mix (mix (mix acc.1 p.1) p.2) sl.key) sl.val, acc.2 ++ s!" ({p.1},{p.2},{sl.key},{sl.val})")
    | none => (mix acc.1 999999, acc.2 ++ " (?)")) (7, "")

/-- walk forward from begin to end: count, order-sensitive hash of (pos,key,val), and the sequence if short -/
def iterFwd (c : Cfg Nat) (t : T) : String :=
  let ps := t.cur.traverse c.S
  let (h, seq) := hashPositions c t ps
  s!"iter n={ps.length} h={h.toNat}" ++ (if ps.length ≤ 64 then seq else "")

/-- walk backward from end to begin -/
def iterBwd (c : Cfg Nat) (t : T) : String :=
  let ps := t.cur.traverseBack c.S
  let (h, seq) := hashPositions c t ps
  s!"riter n={ps.length} h={h.toNat}" ++ (if ps.length ≤ 64 then seq else "")

/-- runs `f` on table `id`.  The entry is taken OUT of the state first (and `f` gets the state without it), so that the
table's arrays are uniquely referenced while the model updates them: in-place updates instead of a copy of the whole
store per request.  `f` must put the entry back (`putTab`). -/
def withTab (st : St) (id : Nat) (f : St → Entry → St × String) : St × String :=
  let ⟨cfg, bump, pol, tabs, wires⟩ := st
  match tabs[id]? with
  | some (some e) =>
    if e.movedFrom then (⟨cfg, bump, pol, tabs, wires⟩, "bad-table")
    else f ⟨cfg, bump, pol, tabs.setIfInBounds id none, wires⟩ e
  | _ => (⟨cfg, bump, pol, tabs, wires⟩, "bad-table")

/-- a live (not moved-from) source object -/
def srcTab (st : St) (id : Nat) : Option Entry :=
  match st.tabs[id]? with
  | some (some e) => if e.movedFrom then none else some e
  | _ => none

def markMoved (st : St) (id : Nat) (e : Entry) : St :=
  { st with tabs := st.tabs.setIfInBounds id (some { e with movedFrom := true, locked := false }) }

def putTab (st : St) (id : Nat) (e : Entry) : St := { st with tabs := st.tabs.setIfInBounds id (some e) }

/-- `insert` each pair in order (initializer-list / range constructors, `operator=(initializer_list)`): stops at an error -/
def insertAll (c : Cfg Nat) (t : T) : List (Nat × Nat) → T × Option Err
  | [] => (t, none)
  | (k, v) :: rest =>
    match t.uprase c false k v false false (fun _ v => .ret v false) with
    | (t, o, _) =>
      match o.res with
      | .err e => (t, some e)
      | .ok _ => insertAll c t rest

def parsePairs : List String → Option (List (Nat × Nat))
  | [] => some []
  | k :: v :: rest => do
    let k ← k.toNat?; let v ← v.toNat?; let r ← parsePairs rest
    pure ((k, v) :: r)
  | _ => none

def modelLine (st : St) (ws : List String) : St × String :=
  let c := st.cfg
  match ws with
  | ["cfg", s, m, simple, nothrow, hpl, hm, bump] =>
    match s.toNat?, m.toNat?, hpl.toNat?, hm.toNat? with
    | some s, some m, some hpl, some hm =>
      ({ st with cfg := { S := s, M := m, hash := hashFn hm, simple := simple == "1",
                          nothrowMove := nothrow == "1", hpLimit := hpl },
                 bumpOnRead := bump == "1" }, "ok")
    | _, _, _, _ => (st, "bad-op")
  | ["new", id, n] =>
    match id.toNat?, n.toNat? with
    | some id, some n => (putTab st id { t := Table.init c n }, "ok")
    | _, _ => (st, "bad-op")
  | ["apol", _, bits] =>
    match bits.toNat? with
    | some b => ({ st with pol := ⟨b % 2 == 1, (b / 2) % 2 == 1, (b / 4) % 2 == 1⟩ }, "ok")
    | none => (st, "bad-op")
  | ["newa", id, n, a] =>
    match id.toNat?, n.toNat?, a.toNat? with
    | some id, some n, some a => (putTab st id { t := Table.init c n, alloc := a }, "ok")
    | _, _, _ => (st, "bad-op")
  | ["copya", d, s_, a] =>
    match d.toNat?, s_.toNat?, a.toNat? with
    | some d, some s_, some a =>
      match srcTab st s_ with
      | some e =>
        let o := Obj.copyCtorA ⟨e.t, e.alloc⟩ a
        (putTab st d { t := o.t, alloc := o.alloc }, "ok")
      | _ => (st, "bad-table")
    | _, _, _ => (st, "bad-op")
  | ["movea", d, s_, a] =>
    match d.toNat?, s_.toNat?, a.toNat? with
    | some d, some s_, some a =>
      match srcTab st s_ with
      | some e =>
        let o := Obj.moveCtorA ⟨e.t, e.alloc⟩ a
        let st := putTab st d { t := o.t, alloc := o.alloc }
        (markMoved st s_ e, "ok")
      | _ => (st, "bad-table")
    | _, _, _ => (st, "bad-op")
  | ["allocid", id] =>
    match id.toNat? with
    | some id => withTab st id fun st e => (putTab st id e, s!"ok a={e.alloc} own={e.alloc} mism=0")
    | none => (st, "bad-op")
  | "newil" :: id :: n :: rest | "newrange" :: id :: n :: rest =>
    match id.toNat?, n.toNat?, parsePairs rest with
    | some id, some n, some ps =>
      let (t, e) := insertAll c (Table.init c n) (if ws.head? == some "newil" then ps.take 4 else ps)
      match e with
      | none => (putTab st id { t := t }, "ok")
      | some er => (st, "err " ++ errName er)
    | _, _, _ => (st, "bad-op")
  | "assignil" :: id :: _ :: rest =>
    match id.toNat?, parsePairs rest with
    | some id, some ps =>
      withTab st id fun st e =>
        if e.locked then (putTab st id e, "bad-table") else
        let ⟨t, locked, alloc, mf⟩ := e
        let (t, er) := insertAll c (t.clear c) (ps.take 4)
        (putTab st id ⟨t, locked, alloc, mf⟩, match er with | none => "ok" | some x => "err " ++ errName x)
    | _, _ => (st, "bad-op")
  | ["ltmoveassign", a, b] =>
    -- `lt_a = std::move(lt_b)` on two active locked tables: a's section ends (table a is unlocked), b stays locked
    match a.toNat?, b.toNat? with
    | some a, some b =>
      match srcTab st a, srcTab st b with
      | some ea, some eb =>
        if a != b && ea.locked && eb.locked then (putTab st a { ea with locked := false }, "ok") else (st, "bad-table")
      | _, _ => (st, "bad-table")
    | _, _ => (st, "bad-op")
  | ["copy", d, s_] =>
    match d.toNat?, s_.toNat? with
    | some d, some s_ =>
      match srcTab st s_ with
      | some e =>
        let o := match st.tabs[d]? with
          | some (some de) => Obj.copyAssign st.pol ⟨de.t, de.alloc⟩ ⟨e.t, e.alloc⟩     -- assignment
          | _ => Obj.copyCtor ⟨e.t, e.alloc⟩                                           -- construction
        (putTab st d { t := o.t, alloc := o.alloc }, "ok")
      | _ => (st, "bad-table")
    | _, _ => (st, "bad-op")
  | ["move", d, s_] =>
    match d.toNat?, s_.toNat? with
    | some d, some s_ =>
      match srcTab st s_ with
      | some e =>
        let o := match st.tabs[d]? with
          | some (some de) => Obj.moveAssign st.pol ⟨de.t, de.alloc⟩ ⟨e.t, e.alloc⟩
          | _ => Obj.moveCtor ⟨e.t, e.alloc⟩
        let st := putTab st d { t := o.t, alloc := o.alloc }
        (markMoved st s_ e, "ok")
      | _ => (st, "bad-table")
    | _, _ => (st, "bad-op")
  | ["swap", a, b] =>
    match a.toNat?, b.toNat? with
    | some a, some b =>
      match srcTab st a, srcTab st b with
      | some ea, some eb =>
        if Obj.swapOK st.pol ⟨ea.t, ea.alloc⟩ ⟨eb.t, eb.alloc⟩ then
          let (oa, ob) := Obj.swap st.pol ⟨ea.t, ea.alloc⟩ ⟨eb.t, eb.alloc⟩
          (putTab (putTab st a { t := oa.t, alloc := oa.alloc }) b { t := ob.t, alloc := ob.alloc }, "ok")
        else (st, "bad-swap")      -- undefined behaviour in C++: the generator never asks for it
      | _, _ => (st, "bad-table")
    | _, _ => (st, "bad-op")
  | [op, id, a] =>
    match id.toNat?, a.toNat? with
    | some id, some a =>
      withTab st id fun st e =>
        let ⟨t, locked, alloc, mf⟩ := e
        let mk := fun (t : T) => (⟨t, locked, alloc, mf⟩ : Entry)
        match op with
        | "find" =>
          let (t, o) := t.fnOp c false a (fun v => .ret v false)
          (putTab st id (mk t), showOut o)
        | "findv" =>
          let (t, r) := t.findVal c a
          (putTab st id (mk t), showRes toString r)
        | "erase" =>
          let (t, o) := t.fnOp c true a (fun v => .ret v true)
          (putTab st id (mk t), showOut { o with calls := [] })
        | "rehash" =>
          let (t, r) := t.rehash c locked a
          (putTab st id (mk t), showRes showB r)
        | "reserve" =>
          let (t, r) := t.reserve c locked a
          (putTab st id (mk t), showRes showB r)
        | "setmlf" =>
          let (t, r) := t.setMlf (Float.ofBits (UInt64.ofNat a))
          (putTab st id (mk t), showRes (fun _ => "") r)
        | "setmhp" =>
          let (t, r) := t.setMhp a
          (putTab st id (mk t), showRes (fun _ => "") r)
        | "setworkers" => (putTab st id (mk { t with workers := a }), "ok")
        | "ltfind" => let p := t.ltFind c a; (putTab st id (mk t), s!"{showPos p} {posVal c t p}")
        | "ltapi" => (putTab st id (mk t), if locked then "ok" else "bad-table")
        | "api" =>
          let (t, o) := t.fnOp c false a (fun v => .ret v false)
          (putTab st id (mk t), match o.res with | .ok b => "ok " ++ showB b | .err er => "err " ++ errName er)
        | "ltcount" => (putTab st id (mk t), toString (t.ltCount c a))
        | "ltat" =>
          match t.ltAt c a with
          | .ok v => (putTab st id (mk t), s!"ok {a}={v}")
          | .err er => (putTab st id (mk t), "err " ++ errName er)
        | "ltequalrange" =>
          let r := t.ltEqualRange c a
          (putTab st id (mk t), s!"{showPos r.1} {showPos r.2}")
        | "lterase" =>
          let (t, n) := t.ltErase c a
          (putTab st id (mk t), toString n)
        | "lteraseit" =>
          let p := t.ltFind c a
          if p == t.cur.endPos then (putTab st id (mk t), "absent")
          else
            let (t, nx) := t.ltEraseAt c p
            (putTab st id (mk t), s!"{showPos nx} {posVal c t nx}")
        | "ltindex" =>
          match t.ltIndex c a 0 with
          | (t, .ok (p, _)) => (putTab st id (mk t), s!"ok {posVal c t p}")
          | (t, .err er) => (putTab st id (mk t), "err " ++ errName er)
        | "read" =>
          match st.wires[a]? with
          | some (some w) =>
            let (t, r) := t.read c st.bumpOnRead w
            (putTab st id (mk t), showRes (fun _ => "") r)
          | _ => (putTab st id (mk t), "bad-wire")
        | _ => (putTab st id (mk t), "bad-op")
    | _, _ => (st, "bad-op")
  | [op, id] =>
    match id.toNat? with
    | some id =>
      withTab st id fun st e =>
        let ⟨t, locked, alloc, mf⟩ := e
        let mk := fun (t : T) => (⟨t, locked, alloc, mf⟩ : Entry)
        match op with
        | "digest" => (putTab st id (mk t), digest t)
        | "inv" =>
          let bad := t.checkInv c
          (putTab st id (mk t), if bad.isEmpty then "inv ok" else s!"inv BAD {bad}")
        | "dump" => (putTab st id (mk t), dump c t)
        | "clear" => (putTab st id (mk (t.clear c)), "ok")
        | "stats" =>
          let sz := t.size
          (putTab st id (mk t), s!"size={sz} empty={showB (sz == 0)} hp={t.hp} buckets={2 ^ t.hp} cap={t.capacity c} lf={(lfOf sz (t.capacity c)).toBits.toNat} mlf={t.mlf.toBits.toNat} mhp={t.mhp}")
        | "probe" => (putTab st id (mk t), if locked then "ok held" else "ok free")
        | "lock" => (putTab st id ⟨t.lockTable c, true, alloc, mf⟩, "ok")
        | "unlock" => (putTab st id ⟨t, false, alloc, mf⟩, "ok")
        | "iter" => (putTab st id (mk t), iterFwd c t)
        | "riter" => (putTab st id (mk t), iterBwd c t)
        | "write" => (putTab { st with wires := st.wires.setIfInBounds id (some t.write) } id (mk t), "ok")
        | _ => (putTab st id (mk t), "bad-op")
    | none => (st, "bad-op")
  | [op, id, a, b] =>
    match id.toNat?, a.toNat? with
    | some id, some a =>
      withTab st id fun st e =>
        let ⟨t, locked, alloc, mf⟩ := e
        let mk := fun (t : T) => (⟨t, locked, alloc, mf⟩ : Entry)
        match op with
        | "insert" =>
          match b.toNat? with
          | some v =>
            let (t, o, _) := t.uprase c false a v false false (fun _ v => .ret v false)
            (putTab st id (mk t), showOut { o with calls := [] })
          | none => (putTab st id (mk t), "bad-op")
        | "ioa" =>
          match b.toNat? with
          | some v =>
            let (t, o, _) := t.uprase c false a v false false (fun _ _ => .ret v false)
            (putTab st id (mk t), showOut { o with calls := [] })
          | none => (putTab st id (mk t), "bad-op")
        | "update" =>
          match b.toNat? with
          | some v =>
            let (t, o) := t.fnOp c false a (fun _ => .ret v false)
            (putTab st id (mk t), showOut { o with calls := [] })
          | none => (putTab st id (mk t), "bad-op")
        | "updatefn" =>
          match parseFn b with
          | some f => let (t, o) := t.fnOp c false a f; (putTab st id (mk t), showOut o)
          | none => (putTab st id (mk t), "bad-op")
        | "erasefn" =>
          match parseFn b with
          | some f => let (t, o) := t.fnOp c true a f; (putTab st id (mk t), showOut o)
          | none => (putTab st id (mk t), "bad-op")
        | "ltinsert" =>
          match b.toNat? with
          | some v =>
            match t.ltInsert c a v with
            | (t, .ok (p, ins)) => (putTab st id (mk t), s!"ok {showB ins} {showPos p} {posVal c t p}")
            | (t, .err er) => (putTab st id (mk t), "err " ++ errName er)
          | none => (putTab st id (mk t), "bad-op")
        | _ => (putTab st id (mk t), "bad-op")
    | _, _ => (st, "bad-op")
  | [op, id, k, v, ctxAware, fnNew, fnOld] =>
    match id.toNat?, k.toNat?, v.toNat?, parseFn fnNew, parseFn fnOld with
    | some id, some k, some v, some fN, some fO =>
      withTab st id fun st e =>
        let ⟨t, locked, alloc, mf⟩ := e
        let mk := fun (t : T) => (⟨t, locked, alloc, mf⟩ : Entry)
        let fn : Ctx → Nat → FnOut Nat := fun cx x => match cx with | .newlyInserted => fN x | .alreadyExisted => fO x
        match op with
        | "upsert" =>
          let (t, o, _) := t.uprase c false k v (ctxAware == "1") false fn
          (putTab st id (mk t), showOut o)
        | "uprase" =>
          let (t, o, _) := t.uprase c false k v (ctxAware == "1") true fn
          (putTab st id (mk t), showOut o)
        | _ => (putTab st id (mk t), "bad-op")
    | _, _, _, _, _ => (st, "bad-op")
  | _ => (st, "bad-op")

end Driver
