import Cuckoo.Gen.Arith
import Cuckoo.Gen.Consts
import Cuckoo.Arith.Spec
import Cuckoo.Model.Par
/-! K1 side of the driver: evaluates the generated arithmetic and the Nat-level spec. -/
namespace Driver
open Cuckoo

def bv64 (n : Nat) : BitVec 64 := BitVec.ofNat 64 n

/-- one K1 request; `none` = malformed -/
def arithLine (ws : List String) : Option String :=
  match ws with
  | ["hashsize", a] => do
      let a ← a.toNat?
      pure s!"{(Gen.hashsize (bv64 a)).toNat} {Spec.hashsize a % 2^64}"
  | ["hashmask", a] => do
      let a ← a.toNat?
      pure s!"{(Gen.hashmask (bv64 a)).toNat} {Spec.hashmask a % 2^64}"
  | ["partial_key", a] => do
      let a ← a.toNat?
      pure s!"{(Gen.partial_key (bv64 a)).toNat} {Spec.partialKey a}"
  | ["index_hash", a, b] => do
      let a ← a.toNat?; let b ← b.toNat?
      pure s!"{(Gen.index_hash (bv64 a) (bv64 b)).toNat} {Spec.indexHash a b}"
  | ["alt_index", a, p, i] => do
      let a ← a.toNat?; let p ← p.toNat?; let i ← i.toNat?
      pure s!"{(Gen.alt_index (bv64 a) (BitVec.ofNat 8 p) (bv64 i)).toNat} {Spec.altIndex a p i}"
  | ["lock_ind", i] => do
      let i ← i.toNat?
      pure s!"{(Gen.lock_ind (bv64 i)).toNat} {Spec.lockInd Gen.Consts.kMaxNumLocks i}"
  | ["reserve_calc", s, n] => do
      let s ← s.toNat?; let n ← n.toNat?
      if s == Gen.Consts.DEFAULT_SLOT_PER_BUCKET then
        match Gen.reserve_calc (bv64 n) with
        | some r => pure s!"{r.toNat} {Spec.reserveCalc s n}"
        | none => pure s!"fuel {Spec.reserveCalc s n}"
      else
        pure s!"{Spec.reserveCalc s n} {Spec.reserveCalc s n}"
  | ["split", s, e, w] => do
      let s ← s.toNat?; let e ← e.toNat?; let w ← w.toNat?
      if s > e || w > 64 then none else
      let one := ",".intercalate ((Model.splitWork s e w).map fun c => s!"{c.1}-{c.2}")
      pure s!"{one}|{one}"
  | _ => none

end Driver
