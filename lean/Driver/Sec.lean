import Driver.Model
import Cuckoo.Model.Conc
/-! K3(ii): replay of the critical sections of a recorded concurrent execution.

The harness cuts the recorded trace of the real table into lock-holds, orders them by their commit points (first
release, `Props/C01Red.lean`), names for each hold the section of `Model/Conc.lean` it is an execution of (with the
parameters the code used: the snapshot `run_cuckoo` carried, the path records of the hop, the hashpower handed to
`cuckoo_fast_double`) and sends one `m sec …` request per hold.  The driver applies `Conc.*Sec` to table 0 and answers
what the section's call would return (`none` for an internal section); at the end `m digest 0` must equal the digest of the
real table, cell by cell.  Answers are in the harness's result vocabulary (`1`/`0`, a value or `-`, `E:lftl` …). -/
namespace Driver
open Cuckoo Cuckoo.Model Cuckoo.Model.Conc

private def showResp (findLike : Bool) : Option (Resp Nat) → String
  | none => "none"
  | some .unit => "unit"
  | some (.bool (.err e) _) => "E:" ++ errName e
  | some (.bool (.ok b) calls) =>
    if findLike then
      match calls with
      | [c] => toString c.seen
      | _ => "-"
    else showB b

/-- the functor of a lookup-type call of the harness (`callOf` of `Props/C01Lin.lean`) -/
private def lookupFn (kind : String) (b : Nat) : Option (Bool × (Nat → FnOut Nat)) :=
  match kind with
  | "find" => some (false, fun v => .ret v false)
  | "update" => some (false, fun _ => .ret b false)
  | "erase" => some (true, fun v => .ret v true)
  | "updatefn" => some (false, fun v => .ret ((v + b) % mask64) false)
  | "erasefn" => some (true, fun v => .ret v (v == b))
  | _ => none

/-- the functor of an inserting call: `(value to insert, functor on a duplicate)` -/
private def insertFn (kind : String) (b : Nat) : Option (Ctx → Nat → FnOut Nat) :=
  match kind with
  | "insert" => some fun _ v => .ret v false
  | "ioa" => some fun _ _ => .ret b false
  | "upsert" => some fun _ v => .ret ((v + b) % mask64) false
  | _ => none

private def nat3 (a b c : String) : Option (Nat × Nat × Nat) := do
  let a ← a.toNat?; let b ← b.toNat?; let c ← c.toNat?; pure (a, b, c)

def secLine (st : St) (ws : List String) : St × String :=
  let c := st.cfg
  withTab st 0 fun st e =>
    let t := e.t
    let fin (r : T × Option (Resp Nat)) (findLike : Bool := false) : St × String :=
      (putTab st 0 { e with t := r.1 }, showResp findLike r.2)
    let bad : St × String := (putTab st 0 e, "bad-op")
    match ws with
    | ["lookup", kind, a, b] =>
      match a.toNat?, b.toNat?, lookupFn kind (b.toNat?.getD 0) with
      | some a, some _, some (ce, fn) => fin (lookupSec c ce a fn t) (kind == "find")
      | _, _, _ => bad
    | ["instry", kind, a, b] =>
      match a.toNat?, b.toNat?, insertFn kind (b.toNat?.getD 0) with
      | some a, some b, some fn => fin (insertTrySec c a b false false fn t)
      | _, _, _ => bad
    | "lock" :: bs =>
      match bs.mapM String.toNat? with
      | some bs => fin (lockSec c bs t)
      | none => bad
    | ["hop", hpS, rcS, fb, fs, fh, tb, ts] =>
      match nat3 hpS rcS fb, nat3 fs fh tb, ts.toNat? with
      | some (hpS, rcS, fb), some (fs, fh, tb), some ts =>
        fin (hopSec c hpS rcS ⟨fb, fs, fh, Spec.partialKey fh⟩ ⟨tb, ts, 0, 0⟩ t)
      | _, _, _ => bad
    | "last" :: kind :: a :: b :: hpS :: rcS :: fb :: fs :: fh :: rest =>
      match nat3 a b hpS, nat3 rcS fb fs, fh.toNat?, insertFn kind (b.toNat?.getD 0), rest.mapM String.toNat? with
      | some (a, b, hpS), some (rcS, fb, fs), some fh, some fn, some rest =>
        let fr : PathRec := ⟨fb, fs, fh, Spec.partialKey fh⟩
        match rest with
        | [] => fin (insertLastSec c hpS rcS a b false false fn fr none t)
        | [tb, ts] => fin (insertLastSec c hpS rcS a b false false fn fr (some ⟨tb, ts, 0, 0⟩) t)
        | _ => bad
      | _, _, _, _, _ => bad
    | ["double", curHp] =>
      match curHp.toNat? with
      | some h => fin (doubleSec c (c.fuel t.cur.cells.size) h t)
      | none => bad
    | ["rehash", n] => match n.toNat? with
      | some n => fin (rehashSec c n t)
      | none => bad
    | ["reserve", n] => match n.toNat? with
      | some n => fin (reserveSec c n t)
      | none => bad
    | ["expand", n] => match n.toNat? with
      | some n => fin (expandSec c n t)
      | none => bad
    | ["clear"] => fin (clearSec c t)
    | _ => bad

end Driver
