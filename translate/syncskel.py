#!/usr/bin/env python3
"""T-E: the ordered skeleton of synchronisation-relevant actions of every protocol function of
libcuckoo/cuckoohash_map.hh, as Lean data (Cuckoo/Gen/Sync.lean).  Props/C01Sync.lean proves by `decide` that each
skeleton obeys the local rules S, V, A, R, E of Model/Proto.lean — by *running* the skeleton on a small abstract
machine on all small inputs, so that behaviour-preserving rewrites of the source do not matter.

Two independent extractions must produce the *same* list of actions (kind, receiver, operands, structure markers)
for every covered function, else the translator reports an error:
  (a) text pass: comments / string literals / `LIBCUCKOO_VERIF` branches / hook, debug and assert macros are blanked
      (offsets preserved); the function is located by enclosing class + name + parameter discriminator and brace
      matching; a small statement parser (if/else, while, do, for, range-for, switch, try/catch, return, throw,
      continue, break, declarations, assignments, lambdas) walks the tokens and a linear scanner recognises the
      vocabulary;
  (b) AST pass: clang++-14 -ast-dump=json of the class template *pattern* (guard off, NDEBUG); the function is
      located by record path + name + parameter types; statements and calls come from clang's tree (callee names from
      the `name` / `member` fields, or - UnresolvedMemberExpr carries no name in clang 14 - from the callee node's own
      source range).  Operand *texts* are the source slices delimited by clang's node ranges.
The opening brace of the body found by (a) must be at the offset of clang's CompoundStmt.

Every operand is also emitted in postfix form (`Tk` tokens: numbers, names, operators, calls with arity, member
accesses, subscripts) so that the Lean side can evaluate it: (a) gets it from a precedence-climbing parser over the
tokens, (b) from a post-order walk of clang's expression tree; an operand on which the two do not agree (or that
either cannot express) is emitted as `unk` — never as one side's guess.

Normalisations (done identically, and independently, by both passes): `std::for_each(C.begin(), C.end(), [](T &v){..})`
is a range loop over `C` with element `v`; every loop is `loop … do_ body [incr_ increment] endLoop`; `++x`, `x += e`
are `step` (with the new value in postfix form), `x = e` is `assign`.

usage: syncskel.py <repo> <out.lean> [scratch_dir]      (SYNCSKEL_DEBUG=1 prints the postfix-form statistics)
"""
import json
import os
import re
import subprocess
import sys


class TranslateError(Exception):
    pass


HEADER = os.path.join("libcuckoo", "cuckoohash_map.hh")

# ----------------------------------------------------------------------------------------------------------------
# vocabulary (shared classification table; *finding* the calls / receivers / operands is done twice, independently)
# ----------------------------------------------------------------------------------------------------------------

# callee name -> kind ; None in the table = decided by `classify`
SIMPLE_CALLS = {
    "load_resize_counter": "loadRc",
    "get_current_locks": "getLocks",
    "check_resize_counter": "checkRc",
    "rehash_lock": "rehashLock",
    "lock_one": "lockOne",
    "lock_two": "lockTwo",
    "lock_three": "lockThree",
    "lock_all": "lockAll",
    "maybe_resize_locks": "maybeResizeLocks",
    "bump_resize_counter": "bumpRcCall",
    "decrement_num_remaining_lazy_rehash_locks": "lazyDec",
    "rehash_with_workers": "rehashWorkers",
    "move_bucket": "moveBucket",
    "cuckoo_clear": "cuckooClear",
    "cuckoopath_search": "pathSearch",
    "cuckoopath_move": "pathMove",
    "slot_search": "slotSearch",
    "run_cuckoo": "runCuckoo",
    "cuckoo_insert": "cuckooInsert",
    "cuckoo_fast_double": "fastDouble",
    "cuckoo_expand_simple": "expandSimple",
    "snapshot_and_lock_two": "snapshotLockTwo",
    "check_resize_validity": "checkValidity",
    "parallel_exec": "parallelExec",
    "parallel_exec_noexcept": "parallelExec",
    "try_lock": "tryLock",
    "reset": "reset",
    "release": "releaseMgr",
    "buckets": "bucketsRef",
}
SPECIAL_CALLS = {"lock", "unlock", "hashpower", "num_remaining_lazy_rehash_locks", "is_migrated", "swap",
                 "emplace_back", "push_back", "pop_back", "clear", "erase", "fetch_add", "fetch_sub", "load", "store",
                 "exchange", "back", "setKV", "eraseKV", "clear_and_deallocate", "resize"}
BUCKET_ARRAYS = ("buckets_", "old_buckets_")

KINDS = ["loadRc", "rcLoadRaw", "rcOther", "hpGet", "hpSet", "getLocks", "locksBack", "lock", "unlock", "tryLock",
         "checkRc", "rehashLock", "lockOne", "lockTwo", "lockThree", "lockAll", "maybeResizeLocks", "emplaceBack",
         "allLocksOther", "bumpRc", "bumpRcCall", "lazySet", "lazyGet", "lazyDec", "rehashWorkers", "isMigrated",
         "setMigrated", "moveBucket", "bucketAt", "bucketsSwap", "bucketsAssign", "bucketsMeth", "bucketsRef",
         "streamIn", "cuckooClear", "pathSearch", "pathMove", "slotSearch", "runCuckoo", "cuckooInsert", "fastDouble",
         "expandSimple", "snapshotLockTwo", "checkValidity", "parallelExec", "reset", "releaseMgr", "swapVals",
         "resizeVec", "params", "decl", "assign", "step", "do_", "incr_", "loop", "endLoop", "if_", "then_", "else_", "endIf", "try_", "catch_", "endTry", "switch_",
         "case_", "default_", "endSwitch", "lambda_", "endLambda", "ret", "throw_", "continue_", "break_"]


def last_ident(text):
    m = re.findall(r"[A-Za-z_]\w*", text)
    return m[-1] if m else ""


def classify(name, recv, nargs, free):
    """kind of a call `recv.name(args)` (recv == '' : implicit this / free function), or None if not vocabulary"""
    # rl: the last component of the receiver: `a.b_` -> b_ ; `lt.buckets()` -> buckets() ; anything else -> ""
    rl = ""
    if re.search(r"\w$", recv):
        rl = last_ident(recv)
    elif recv.endswith("()"):
        rl = last_ident(recv) + "()"
    if name in SIMPLE_CALLS:
        if name in ("reset", "release", "try_lock") and not recv:
            return None
        return SIMPLE_CALLS[name]
    if name == "lock" or name == "unlock":
        return name if recv else None
    if name == "hashpower":
        return "hpGet" if nargs == 0 else "hpSet"
    if name == "num_remaining_lazy_rehash_locks":
        return "lazyGet" if nargs == 0 else "lazySet"
    if name == "is_migrated":
        return "isMigrated"
    if name == "resize":
        return "resizeVec" if recv else None
    if name == "swap":
        if not recv:
            return "swapVals" if free else None
        if rl in BUCKET_ARRAYS or rl == "buckets()":
            return "bucketsSwap"
        return None
    if rl == "all_locks_":
        if name == "emplace_back":
            return "emplaceBack"
        if name == "back":
            return "locksBack"
        if name in ("push_back", "pop_back", "clear", "erase"):
            return "allLocksOther"
        return None
    if rl == "resize_counter_":
        if name == "fetch_add":
            return "bumpRc"
        if name == "load":
            return "rcLoadRaw"
        if name in ("store", "fetch_sub", "exchange"):
            return "rcOther"
        return None
    if rl in BUCKET_ARRAYS and name in ("setKV", "eraseKV", "clear", "clear_and_deallocate"):
        return "bucketsMeth"
    return None


CMP_OPS = ("==", "!=", "<", ">", "<=", ">=")

# ----------------------------------------------------------------------------------------------------------------
# covered functions:  key, record path below cuckoohash_map, name tokens, parameter discriminator
# ----------------------------------------------------------------------------------------------------------------


def has(*words):
    def f(params):
        return all(((w[1:] not in params) if w.startswith("!") else (w in params)) for w in words)
    return f


FUNCS = [
    ("snapshot_and_lock_two", (), ["snapshot_and_lock_two"], has()),
    ("lock_one", (), ["lock_one"], has("normal_mode", "!locked_table_mode")),
    ("lock_two", (), ["lock_two"], has("normal_mode", "!locked_table_mode")),
    ("lock_three", (), ["lock_three"], has("normal_mode", "!locked_table_mode")),
    ("lock_all", (), ["lock_all"], has("normal_mode", "!locked_table_mode")),
    ("lock_one_lt", (), ["lock_one"], has("locked_table_mode", "!normal_mode")),
    ("lock_two_lt", (), ["lock_two"], has("locked_table_mode", "!normal_mode")),
    ("lock_three_lt", (), ["lock_three"], has("locked_table_mode", "!normal_mode")),
    ("lock_all_lt", (), ["lock_all"], has("locked_table_mode", "!normal_mode")),
    ("check_resize_counter", (), ["check_resize_counter"], has()),
    ("load_resize_counter", (), ["load_resize_counter"], has()),
    ("get_current_locks", (), ["get_current_locks"], has()),
    ("AllUnlocker", ("AllUnlocker",), ["operator", "(", ")"], has()),
    ("LockDeleter", ("LockDeleter",), ["operator", "(", ")"], has()),
    ("TwoBuckets_unlock", ("TwoBuckets",), ["unlock"], has()),
    ("rehash_lock", (), ["rehash_lock"], has()),
    ("rehash_with_workers", (), ["rehash_with_workers"], has()),
    ("run_cuckoo", (), ["run_cuckoo"], has()),
    ("cuckoopath_search", (), ["cuckoopath_search"], has()),
    ("cuckoopath_move", (), ["cuckoopath_move"], has()),
    ("slot_search", (), ["slot_search"], has()),
    ("cuckoo_insert_loop", (), ["cuckoo_insert_loop"], has()),
    ("cuckoo_fast_double", (), ["cuckoo_fast_double"], has()),
    ("cuckoo_expand_simple", (), ["cuckoo_expand_simple"], has()),
    ("maybe_resize_locks", (), ["maybe_resize_locks"], has()),
    ("clear", (), ["clear"], has()),
    ("locked_table_ctor", ("locked_table",), ["locked_table"], has("cuckoohash_map", "!locked_table")),
    ("locked_table_unlock", ("locked_table",), ["unlock"], has()),
    ("locked_table_maybe_resize_locks", ("locked_table",), ["maybe_resize_locks"], has()),
    ("locked_table_bump_resize_counter", ("locked_table",), ["bump_resize_counter"], has()),
    ("locked_table_istream", ("locked_table",), ["operator", ">>"], has()),
]

# type aliases / fields that tie the RAII managers to their deleters: (record path, name)
ALIASES = [((), "LockManager"), ((), "AllLocksManager"), ((), "locked_table_mode"), ((), "normal_mode")]

# data members whose type ties a manager to the locks it releases: record path
FIELD_RECORDS = [("TwoBuckets",), ("AllUnlocker",), ("locked_table",)]

# ----------------------------------------------------------------------------------------------------------------
# (a) text pass
# ----------------------------------------------------------------------------------------------------------------


def blank_comments_strings(src):
    out = list(src)
    n = len(src)

    def sp(a, b):
        for k in range(a, b):
            if out[k] != "\n":
                out[k] = " "
    i = 0
    while i < n:
        c = src[i]
        if c == "/" and src[i + 1:i + 2] == "/":
            j = src.find("\n", i)
            j = n if j < 0 else j
            while j < n and src[j - 1] == "\\":       # continued // comment
                j2 = src.find("\n", j + 1)
                j = n if j2 < 0 else j2
            sp(i, j)
            i = j
        elif c == "/" and src[i + 1:i + 2] == "*":
            j = src.find("*/", i + 2)
            if j < 0:
                raise TranslateError("unterminated comment")
            sp(i, j + 2)
            i = j + 2
        elif c == '"':
            if i > 0 and src[i - 1] == "R":
                m = re.match(r'"([^()\\ ]{0,16})\(', src[i:])
                if m:
                    j = src.find(")" + m.group(1) + '"', i)
                    if j < 0:
                        raise TranslateError("unterminated raw string")
                    j += len(m.group(1)) + 1
                    sp(i + 1, j)
                    i = j + 1
                    continue
            j = i + 1
            while j < n and src[j] != '"':
                if src[j] == "\\":
                    j += 1
                if src[j] == "\n":
                    raise TranslateError("unterminated string literal")
                j += 1
            sp(i + 1, j)
            i = j + 1
        elif c == "'":
            if i > 0 and src[i - 1].isalnum() and src[i + 1:i + 2].isalnum() and src[i + 2:i + 3] != "'":
                i += 1                                  # digit separator
                continue
            j = i + 1
            while j < n and src[j] != "'":
                if src[j] == "\\":
                    j += 1
                j += 1
            sp(i + 1, j)
            i = j + 1
        else:
            i += 1
    return "".join(out)


def blank_preprocessor(txt):
    """blank every directive; of a conditional on LIBCUCKOO_VERIF keep the guard-off branch"""
    out = list(txt)
    stack = []
    pos = 0
    lines = txt.split("\n")
    k = 0

    def sp(a, b):
        for q in range(a, b):
            if out[q] != "\n":
                out[q] = " "
    while k < len(lines):
        line = lines[k]
        start = pos
        end = pos + len(line)
        if line.lstrip().startswith("#"):
            logical = line
            while logical.rstrip().endswith("\\") and k + 1 < len(lines):
                k += 1
                logical = logical.rstrip()[:-1] + " " + lines[k]
                end += 1 + len(lines[k])
            m = re.match(r"\s*#\s*(\w+)\s*(.*)", logical)
            name, arg = (m.group(1), m.group(2)) if m else ("", "")
            if name in ("if", "ifdef", "ifndef"):
                if re.search(r"\bLIBCUCKOO_VERIF\b", arg):
                    if name == "if" and not re.match(r"\s*defined\s*\(?\s*LIBCUCKOO_VERIF\b", arg):
                        raise TranslateError("unsupported condition on LIBCUCKOO_VERIF: " + arg.strip())
                    positive = name != "ifndef"
                    stack.append({"verif": True, "active": not positive})
                else:
                    stack.append({"verif": False, "active": True})
            elif name == "else":
                if not stack:
                    raise TranslateError("#else without #if")
                if stack[-1]["verif"]:
                    stack[-1]["active"] = not stack[-1]["active"]
            elif name == "elif":
                if not stack or stack[-1]["verif"]:
                    raise TranslateError("#elif on a LIBCUCKOO_VERIF conditional is not supported")
            elif name == "endif":
                if not stack:
                    raise TranslateError("#endif without #if")
                stack.pop()
            sp(start, end)
        elif not all(e["active"] for e in stack):
            sp(start, end)
        pos = end + 1
        k += 1
    if stack:
        raise TranslateError("unterminated #if")
    return "".join(out)


IGNORED_MACROS = ("LIBCUCKOO_VERIF_EVENT", "LIBCUCKOO_DBG", "assert", "static_assert")


def blank_macros(txt):
    out = list(txt)
    for m in re.finditer(r"\b(%s)\s*\(" % "|".join(IGNORED_MACROS), txt):
        if out[m.start()] == " ":
            continue
        i = m.end()
        depth = 1
        while depth and i < len(txt):
            if txt[i] == "(":
                depth += 1
            elif txt[i] == ")":
                depth -= 1
            i += 1
        if depth:
            raise TranslateError("unbalanced macro invocation at offset %d" % m.start())
        for q in range(m.start(), i):
            if out[q] != "\n":
                out[q] = " "
    return "".join(out)


TOK = re.compile(r"""
   (?P<id>[A-Za-z_]\w*)
 | (?P<num>\.?\d(?:[eEpP][+-]|[\w.'])*)
 | (?P<str>"[^"\n]*")
 | (?P<chr>'[^'\n]*')
 | (?P<op>->\*|\.\.\.|<<=|>>=|::|->|\+\+|--|<<|>>|<=|>=|==|!=|&&|\|\||[-+*/%&|^]=|[{}()\[\];:,.?~!<>=+\-*/%&|^])
""", re.X)

KEYWORDS = set("""alignas alignof asm auto bool break case catch char class const constexpr const_cast continue
decltype default delete do double dynamic_cast else enum explicit extern false float for friend goto if inline int long
mutable namespace new noexcept nullptr operator private protected public register reinterpret_cast return short signed
sizeof static static_assert static_cast struct switch template this throw true try typedef typeid typename union
unsigned using virtual void volatile while""".split())
TYPE_KEYWORDS = set("auto bool char double float int long short signed unsigned void".split())


class Tok:
    __slots__ = ("t", "off", "kind")

    def __init__(self, t, off, kind):
        self.t, self.off, self.kind = t, off, kind


def tokenize(txt, base=0):
    toks = []
    pos = 0
    n = len(txt)
    while pos < n:
        if txt[pos].isspace():
            pos += 1
            continue
        m = TOK.match(txt, pos)
        if not m:
            raise TranslateError("cannot tokenize at offset %d: %r" % (base + pos, txt[pos:pos + 20]))
        toks.append(Tok(m.group(0), base + pos, m.lastgroup))
        pos = m.end()
    return toks


def norm_tokens(texts):
    """canonical text of a token sequence: no spaces except between two word-like tokens"""
    out = []
    prev = ""
    for t in texts:
        if prev and re.match(r"[\w\"']", t[0]) and re.match(r"[\w\"']", prev[-1]):
            out.append(" ")
        out.append(t)
        prev = t
    return "".join(out)


def norm_text(s):
    return norm_tokens([t.t for t in tokenize(s)])


class Unsupported(Exception):
    """an operand outside the little expression language of the RPN tables (it is then emitted as `unk`)"""


UNK = [("unk",)]


class Act:
    __slots__ = ("k", "r", "a", "alt", "x")

    def __init__(self, k, r="", a=(), alt=None, x=()):
        self.k, self.r, self.a, self.alt = k, r, list(a), alt
        self.x = [list(e) for e in x]      # postfix (RPN) form of the receiver / operands, see the header of Gen/Sync.lean

    def key(self):
        return (self.k, self.r, tuple(self.a))

    def __repr__(self):
        return "%s[%s](%s)" % (self.k, self.r, ", ".join(self.a))


class TextPass:
    def __init__(self, src):
        t = blank_comments_strings(src)
        t = blank_preprocessor(t)
        t = blank_macros(t)
        self.txt = t
        self.toks = tokenize(t)
        self.match = {}
        self.parent_brace = [None] * len(self.toks)
        st = []
        braces = []
        pairs = {")": "(", "]": "[", "}": "{"}
        for i, tk in enumerate(self.toks):
            self.parent_brace[i] = braces[-1] if braces else None
            if tk.kind != "op":
                continue
            if tk.t in "([{":
                st.append(i)
                if tk.t == "{":
                    braces.append(i)
            elif tk.t in pairs:
                if not st or self.toks[st[-1]].t != pairs[tk.t]:
                    raise TranslateError("unbalanced %r at offset %d" % (tk.t, tk.off))
                j = st.pop()
                self.match[j] = i
                self.match[i] = j
                if tk.t == "}":
                    braces.pop()
                    self.parent_brace[i] = braces[-1] if braces else None
        if st:
            raise TranslateError("unbalanced %r at offset %d" % (self.toks[st[-1]].t, self.toks[st[-1]].off))
        # record scopes: class/struct NAME ... {   (no ';' or '(' in between)
        self.records = {}     # open-brace index -> name
        T = self.toks
        for i, tk in enumerate(T):
            if tk.t in ("class", "struct") and i + 1 < len(T) and T[i + 1].kind == "id" and T[i + 1].t not in KEYWORDS:
                if i > 0 and T[i - 1].t in ("enum", "friend", "<", ","):
                    continue
                j = i + 2
                while j < len(T) and T[j].t not in ("{", ";", "(", ")", "=", ">"):
                    j += 1
                if j < len(T) and T[j].t == "{":
                    self.records[j] = T[i + 1].t

    # ---- locating ------------------------------------------------------------------------------------------
    def record_path(self, i):
        """names of the records enclosing token i, innermost last; None if the innermost brace is not a record body"""
        b = self.parent_brace[i]
        if b is None or b not in self.records:
            return None
        path = []
        while b is not None:
            if b in self.records:
                path.append(self.records[b])
            elif self.toks[b - 1].t not in ("libcuckoo",) and not (b >= 2 and self.toks[b - 2].t == "namespace"):
                return None
            b = self.parent_brace[b]
        return tuple(reversed(path))

    def locate(self, path, name_toks, pred):
        T = self.toks
        want = ("cuckoohash_map",) + tuple(path)
        found = []
        L = len(name_toks)
        for i in range(len(T) - L - 1):
            if T[i].t != name_toks[0]:
                continue
            if any(T[i + q].t != name_toks[q] for q in range(L)) or T[i + L].t != "(":
                continue
            if i > 0 and T[i - 1].t in (".", "->", "::", "~"):
                continue
            if self.record_path(i) != want:
                continue
            p0 = i + L
            p1 = self.match[p0]
            m = p1 + 1
            while T[m].t in ("const", "noexcept", "override", "final", "volatile", "&", "&&"):
                if T[m].t == "noexcept" and T[m + 1].t == "(":
                    m = self.match[m + 1]
                m += 1
            init = None
            if T[m].t == ":":
                a = m + 1
                q = a
                ok = False
                while True:
                    while T[q].kind == "id" or T[q].t in ("::", "<", ">", ","):
                        if T[q].t == "," or q - a > 64:
                            break
                        q += 1
                    if T[q].t not in ("(", "{"):
                        break
                    q = self.match[q] + 1
                    if T[q].t == ",":
                        q += 1
                        continue
                    if T[q].t == "{":
                        ok = True
                    break
                if not ok:
                    continue
                init = (a, q)
                m = q
            if T[m].t != "{":
                continue
            params = [t.t for t in T[p0 + 1:p1]]
            if pred(params):
                found.append({"name": i, "params": (p0, p1), "init": init, "body": (m, self.match[m])})
        if len(found) != 1:
            raise TranslateError("text pass: %d definitions match %s::%s" % (len(found), "::".join(want), "".join(name_toks)))
        return found[0]

    # ---- skeleton ------------------------------------------------------------------------------------------
    def param_names(self, p0, p1):
        T = self.toks
        names = []
        s = p0 + 1
        q = s
        parts = []
        d = 0
        while q < p1:
            t = T[q]
            if t.kind == "op" and t.t in "([{":
                q = self.match[q] + 1
                continue
            if t.t == "<":
                d += 1
            elif t.t == ">":
                d -= 1
            elif t.t == ">>":
                d -= 2
            elif t.t == "," and d <= 0:
                parts.append((s, q))
                s = q + 1
            q += 1
        if p1 > p0 + 1:
            parts.append((s, p1))
        for a, b in parts:
            e = b
            for z in range(a, b):
                if T[z].t == "=":
                    e = z
                    break
            last = T[e - 1] if e > a else None
            if last is not None and e - a >= 2 and last.kind == "id" and last.t not in KEYWORDS and T[e - 2].t != "::":
                names.append(last.t)
            elif e - a == 1 and T[a].t == "void":
                continue
            else:
                names.append("")
        return names

    def skeleton(self, loc):
        self.out = []
        self.emit("params", "", self.param_names(*loc["params"]))
        if loc["init"]:
            self.scan_expr(loc["init"][0], loc["init"][1])
        b0, b1 = loc["body"]
        i = b0 + 1
        while i < b1:
            i = self.stmt(i, b1)
        return self.out

    def text(self, a, b):
        return norm_tokens([t.t for t in self.toks[a:b]])

    def cond_args(self, a, b):
        """[op, lhs, rhs] if tokens a..b are one plain comparison, else ['?', text] (conservative)"""
        T = self.toks
        depth = 0
        ops = []
        for q in range(a, b):
            t = T[q].t
            if T[q].kind != "op":
                continue
            if t in "([{":
                depth += 1
            elif t in ")]}":
                depth -= 1
            elif depth == 0 and (t in CMP_OPS or t in ("&&", "||", "?", "<<", ">>", "=", ",")):
                ops.append(q)
        if len(ops) == 1 and T[ops[0]].t in CMP_OPS and a < ops[0] < b - 1:
            return [T[ops[0]].t, self.text(a, ops[0]), self.text(ops[0] + 1, b)]
        return ["?", self.text(a, b)]

    def stmt_end(self, i, limit):
        T = self.toks
        q = i
        while q < limit:
            t = T[q].t
            if T[q].kind == "op" and t in "([{":
                q = self.match[q] + 1
                continue
            if t == ";":
                return q
            q += 1
        raise TranslateError("text pass: statement at offset %d has no ';'" % T[i].off)

    def emit(self, k, r="", a=(), x=()):
        self.out.append(Act(k, r, a, None, x))

    # ---- operands in postfix form (precedence-climbing parser over the tokens; the AST pass produces the same
    # ---- form by a post-order walk of clang's tree; an operand both do not agree on is emitted as `unk`) -----
    BIN_LEVELS = [("||",), ("&&",), ("|",), ("^",), ("&",), ("==", "!="), ("<", ">", "<=", ">="), ("<<", ">>"),
                  ("+", "-"), ("*", "/", "%")]

    def rx(self, a, b):
        """RPN of tokens a..b ; [] for an empty range ; UNK if outside the expression language"""
        if b <= a:
            return []
        try:
            r, i = self.px_ternary(a, b)
            if i != b:
                raise Unsupported()
            return r
        except (Unsupported, IndexError, KeyError, RecursionError):
            return list(UNK)

    def px_ternary(self, i, e):
        T = self.toks
        r, i = self.px_bin(i, e, 0)
        if i < e and T[i].t == "?":
            x, j = self.px_ternary(i + 1, e)
            if j >= e or T[j].t != ":":
                raise Unsupported()
            y, k = self.px_ternary(j + 1, e)
            return r + x + y + [("op", "?:")], k
        return r, i

    def px_bin(self, i, e, level):
        T = self.toks
        if level == len(self.BIN_LEVELS):
            return self.px_unary(i, e)
        r, i = self.px_bin(i, e, level + 1)
        while i < e and T[i].kind == "op" and T[i].t in self.BIN_LEVELS[level]:
            o = T[i].t
            y, i = self.px_bin(i + 1, e, level + 1)
            r = r + y + [("op", o)]
        return r, i

    def px_unary(self, i, e):
        T = self.toks
        if i >= e:
            raise Unsupported()
        t = T[i]
        if t.kind == "op" and t.t in ("!", "-", "+", "*", "&", "~", "++", "--"):
            r, j = self.px_unary(i + 1, e)
            return r + [("op", "u" + t.t)], j
        return self.px_postfix(i, e)

    def px_args(self, o, c):
        """arguments between the brackets at o and c: (rpn of all, count)"""
        r = []
        n = 0
        for x, y in self.split_args(o + 1, c):
            z, j = self.px_ternary(x, y)
            if j != y:
                raise Unsupported()
            r += z
            n += 1
        return r, n

    def px_postfix(self, i, e):
        T = self.toks
        start = i
        t = T[i]
        if t.kind == "num":
            m = re.match(r"^(0[xX][0-9a-fA-F]+|\d+)[uUlL]*$", t.t)
            if not m:
                raise Unsupported()
            r = [("num", int(m.group(1), 0) if m.group(1).lower().startswith("0x") else int(m.group(1)))]
            i += 1
        elif t.t in ("true", "false", "nullptr"):
            r = [("num", 1 if t.t == "true" else 0)]
            i += 1
        elif t.t == "this":
            r = [("var", "this")]
            i += 1
        elif t.t in ("static_cast", "reinterpret_cast", "const_cast"):
            j = self.skip_angle(i + 1, e) if T[i + 1].t == "<" else None
            if j is None or T[j].t != "(":
                raise Unsupported()
            c = self.match[j]
            r, k = self.px_ternary(j + 1, c)
            if k != c:
                raise Unsupported()
            i = c + 1
        elif t.t == "(":
            c = self.match[i]
            if c + 1 < e and (T[c + 1].kind in ("id", "num") and T[c + 1].t not in KEYWORDS or T[c + 1].t == "(") and \
                    all(T[z].kind == "id" or T[z].t in ("::", "*", "&", "<", ">") for z in range(i + 1, c)):
                raise Unsupported()            # looks like a C-style cast
            r, k = self.px_ternary(i + 1, c)
            if k != c:
                raise Unsupported()
            i = c + 1
        elif t.t == "{":
            c = self.match[i]
            r, n = self.px_args(i, c)
            r = r + [("lst", n)]
            i = c + 1
        elif t.kind == "id" and (t.t not in KEYWORDS or t.t in TYPE_KEYWORDS):
            # (qualified) name, possibly with template arguments
            j = i
            name_end = i
            while True:
                if T[j].kind != "id" or (T[j].t in KEYWORDS and T[j].t not in TYPE_KEYWORDS):
                    raise Unsupported()
                j += 1
                name_end = j                      # the name without trailing template arguments
                if j < e and T[j].t == "<":
                    k = self.skip_angle(j, e)
                    if k is not None and k < e and T[k].t in ("(", "::", "{"):
                        j = k
                if j + 1 < e and T[j].t == "::":
                    j += 1
                    if T[j].t == "template":
                        j += 1
                    continue
                break
            if j < e and T[j].t in ("(", "{"):
                c = self.match[j]
                if c >= e:
                    raise Unsupported()
                args, n = self.px_args(j, c)
                r = args + [("call", self.text(i, name_end), n, self.text(start, c + 1))]
                i = c + 1
            else:
                r = [("var", self.text(i, j))]
                i = j
        else:
            raise Unsupported()
        while i < e:
            t = T[i]
            if t.t == "[":
                c = self.match[i]
                x, k = self.px_ternary(i + 1, c)
                if k != c:
                    raise Unsupported()
                r = r + x + [("sub", self.text(start, c + 1))]
                i = c + 1
            elif t.t in (".", "->"):
                j = i + 1
                if T[j].t == "template":
                    j += 1
                if T[j].kind != "id" or T[j].t in KEYWORDS:
                    raise Unsupported()
                name = T[j].t
                j += 1
                k = j
                if j < e and T[j].t == "<":
                    z = self.skip_angle(j, e)
                    if z is not None and z < e and T[z].t == "(":
                        k = z
                if k < e and T[k].t == "(":
                    c = self.match[k]
                    args, n = self.px_args(k, c)
                    r = r + args + [("call", "." + name, n + 1, self.text(start, c + 1))]
                    i = c + 1
                else:
                    r = r + [("mem", name, self.text(start, j))]
                    i = j
            elif t.t in ("++", "--"):
                r = r + [("op", "p" + t.t)]
                i += 1
            elif t.t == "(":
                raise Unsupported()
            else:
                break
        return r, i

    def assign_op(self, a, e):
        """index of the top-level assignment operator of the expression statement a..e, or None"""
        T = self.toks
        q = a
        while q < e:
            t = T[q]
            if t.kind == "op" and t.t in "([{":
                q = self.match[q] + 1
                continue
            if t.kind == "op" and t.t in ("=", "+=", "-=", "*=", "/=", "%=", "&=", "|=", "^=", "<<=", ">>="):
                return q
            if t.t == "?":
                return None
            q += 1
        return None

    def expr_stmt(self, a, e):
        """expression statement / for-increment in tokens a..e : its actions, then `assign` / `step` if it is one"""
        T = self.toks
        self.scan_expr(a, e)
        if e <= a:
            return
        p = self.assign_op(a, e)
        if p is not None and p > a:
            lhs = self.text(a, p)
            if T[p].t == "=":
                self.emit("assign", "", [lhs, self.text(p + 1, e)], [self.rx(p + 1, e)])
            else:
                o = T[p].t[:-1]
                x, y = self.rx(a, p), self.rx(p + 1, e)
                nv = list(UNK) if x == UNK or y == UNK else x + y + [("op", o)]
                self.emit("step", "", [self.text(a, e), lhs], [nv])
        elif T[a].t in ("++", "--") or T[e - 1].t in ("++", "--"):
            lo, hi = (a + 1, e) if T[a].t in ("++", "--") else (a, e - 1)
            o = (T[a].t if T[a].t in ("++", "--") else T[e - 1].t)[0]
            x = self.rx(lo, hi)
            nv = list(UNK) if x == UNK else x + [("num", 1), ("op", o)]
            self.emit("step", "", [self.text(a, e), self.text(lo, hi)], [nv])

    def stmt(self, i, limit):
        T = self.toks
        t = T[i].t
        if t == "{":
            e = self.match[i]
            q = i + 1
            while q < e:
                q = self.stmt(q, e)
            return e + 1
        if t == ";":
            return i + 1
        if t == "if":
            j = i + 1
            if T[j].t == "constexpr":
                j += 1
            if T[j].t != "(":
                raise TranslateError("text pass: malformed if at offset %d" % T[i].off)
            k = self.match[j]
            if any(T[q].t == ";" for q in range(j + 1, k) if self.depth_in(j, q) == 0):
                raise TranslateError("text pass: if with init-statement at offset %d is not supported" % T[i].off)
            self.emit("if_", "", self.cond_args(j + 1, k), [self.rx(j + 1, k)])
            self.scan_expr(j + 1, k)
            self.emit("then_")
            q = self.stmt(k + 1, limit)
            if q < limit and T[q].t == "else":
                self.emit("else_")
                q = self.stmt(q + 1, limit)
            self.emit("endIf")
            return q
        if t == "while":
            j = i + 1
            k = self.match[j]
            self.emit("loop", "", ["while"] + self.cond_args(j + 1, k), [self.rx(j + 1, k)])
            self.scan_expr(j + 1, k)
            self.emit("do_")
            q = self.stmt(k + 1, limit)
            self.emit("endLoop")
            return q
        if t == "do":
            # find the `while ( cond ) ;` that closes it
            b0 = i + 1
            if T[b0].t != "{":
                raise TranslateError("text pass: do-while without braces at offset %d is not supported" % T[i].off)
            w = self.match[b0] + 1
            if T[w].t != "while" or T[w + 1].t != "(":
                raise TranslateError("text pass: malformed do-while at offset %d" % T[i].off)
            k = self.match[w + 1]
            self.emit("loop", "", ["do"] + self.cond_args(w + 2, k), [self.rx(w + 2, k)])
            self.emit("do_")
            self.stmt(b0, limit)
            self.emit("incr_")
            self.scan_expr(w + 2, k)
            self.emit("endLoop")
            return k + 2 if T[k + 1].t == ";" else k + 1
        if t == "for":
            j = i + 1
            k = self.match[j]
            semis = [q for q in range(j + 1, k) if T[q].t == ";" and self.depth_in(j, q) == 0]
            if not semis:
                colon = [q for q in range(j + 1, k) if T[q].t == ":" and self.depth_in(j, q) == 0]
                if len(colon) != 1:
                    raise TranslateError("text pass: malformed range-for at offset %d" % T[i].off)
                c = colon[0]
                if T[c - 1].kind != "id":
                    raise TranslateError("text pass: range-for declarator at offset %d is not supported" % T[i].off)
                self.scan_expr(c + 1, k)
                self.emit("loop", "", ["range", T[c - 1].t, self.text(c + 1, k)], [self.rx(c + 1, k)])
                self.emit("do_")
                q = self.stmt(k + 1, limit)
                self.emit("endLoop")
                return q
            if len(semis) != 2:
                raise TranslateError("text pass: malformed for at offset %d" % T[i].off)
            s1, s2 = semis
            if s1 > j + 1:
                self.simple_stmt(j + 1, s1)
            cond = self.cond_args(s1 + 1, s2) if s2 > s1 + 1 else ["?", ""]
            self.emit("loop", "", ["for"] + cond, [self.rx(s1 + 1, s2)])
            self.scan_expr(s1 + 1, s2)
            self.emit("do_")
            q = self.stmt(k + 1, limit)
            if k > s2 + 1:
                self.emit("incr_")
                self.expr_stmt(s2 + 1, k)
            self.emit("endLoop")
            return q
        if t == "switch":
            j = i + 1
            k = self.match[j]
            self.scan_expr(j + 1, k)
            self.emit("switch_", "", [self.text(j + 1, k)], [self.rx(j + 1, k)])
            q = self.stmt(k + 1, limit)
            self.emit("endSwitch")
            return q
        if t == "case":
            q = i + 1
            while T[q].t != ":":
                q += 1
            self.emit("case_", "", [self.text(i + 1, q)])
            return q + 1
        if t == "default" and T[i + 1].t == ":":
            self.emit("default_")
            return i + 2
        if t == "try":
            self.emit("try_")
            q = self.stmt(i + 1, limit)
            if T[q].t != "catch":
                raise TranslateError("text pass: try without catch at offset %d" % T[i].off)
            while q < limit and T[q].t == "catch":
                j = q + 1
                k = self.match[j]
                self.emit("catch_", "", [self.text(j + 1, k)])
                q = self.stmt(k + 1, limit)
            self.emit("endTry")
            return q
        e = self.stmt_end(i, limit)
        if t == "return":
            self.scan_expr(i + 1, e)
            self.emit("ret", "", [self.text(i + 1, e)] if e > i + 1 else [], [self.rx(i + 1, e)] if e > i + 1 else [])
        elif t == "throw":
            self.scan_expr(i + 1, e)
            self.emit("throw_", "", [self.text(i + 1, e)] if e > i + 1 else [], [self.rx(i + 1, e)] if e > i + 1 else [])
        elif t == "continue":
            self.emit("continue_")
        elif t == "break":
            self.emit("break_")
        elif t in ("goto", "using", "typedef", "struct", "class", "enum", "template", "namespace", "co_return"):
            raise TranslateError("text pass: unsupported statement %r at offset %d" % (t, T[i].off))
        else:
            self.simple_stmt(i, e)
        return e + 1

    def depth_in(self, open_idx, q):
        """nesting depth of token q relative to the inside of the bracket opened at open_idx"""
        d = 0
        p = open_idx + 1
        T = self.toks
        while p < q:
            if T[p].kind == "op" and T[p].t in "([{":
                if self.match[p] >= q:
                    d += 1
                    p += 1
                    continue
                p = self.match[p] + 1
                continue
            p += 1
        return d

    def skip_angle(self, q, e):
        """q at '<' : index after the matching '>' or None"""
        T = self.toks
        d = 0
        while q < e:
            t = T[q].t
            if T[q].kind == "op" and t in "([":
                q = self.match[q] + 1
                continue
            if t == "<":
                d += 1
            elif t == ">":
                d -= 1
            elif t == ">>":
                d -= 2
            elif t in (";", "{", "}", "&&", "||", "=") and T[q].kind == "op":
                return None
            q += 1
            if d <= 0:
                return q if d == 0 else None
        return None

    def try_decl(self, a, e):
        """if tokens a..e start a declaration return (index of the first declarator name) else None"""
        T = self.toks
        q = a
        while q < e and T[q].t in ("const", "static", "constexpr", "typename", "volatile", "mutable", "thread_local"):
            q += 1
        if q >= e:
            return None
        if T[q].t in TYPE_KEYWORDS:
            while q < e and (T[q].t in TYPE_KEYWORDS):
                q += 1
        elif T[q].kind == "id" and T[q].t not in KEYWORDS:
            q += 1
            while True:
                if q < e and T[q].t == "<":
                    r = self.skip_angle(q, e)
                    if r is None:
                        return None
                    q = r
                if q + 1 < e and T[q].t == "::":
                    q += 1
                    if T[q].t == "template":
                        q += 1
                    if T[q].kind != "id" or T[q].t in KEYWORDS:
                        return None
                    q += 1
                    continue
                break
        else:
            return None
        while q < e and T[q].t in ("const", "volatile"):
            q += 1
        while q < e and T[q].t in ("&", "&&", "*"):
            q += 1
            while q < e and T[q].t == "const":
                q += 1
        if q < e and T[q].kind == "id" and T[q].t not in KEYWORDS:
            nxt = T[q + 1].t if q + 1 < e else ";"
            if nxt in ("=", ";", "(", "{", ",", "["):
                return q
        return None

    def simple_stmt(self, a, e):
        """declaration or expression statement in tokens a..e (e exclusive, no ';')"""
        T = self.toks
        d = self.try_decl(a, e)
        if d is None:
            self.expr_stmt(a, e)
            return
        q = d
        while True:
            name = T[q].t
            q += 1
            init = ""
            x = []
            stop = q
            # end of this declarator: top-level ','
            while stop < e and T[stop].t != ",":
                if T[stop].kind == "op" and T[stop].t in "([{":
                    stop = self.match[stop] + 1
                    continue
                if T[stop].t == "<":
                    r = self.skip_angle(stop, e)
                    if r is not None and r < e and T[r].t in ("(", "::", "{"):
                        stop = r
                        continue
                stop += 1
            if q < stop and T[q].t == "=":
                init = self.text(q + 1, stop)
                x = [self.rx(q + 1, stop)]
            elif q < stop and T[q].t in ("(", "{") and self.match[q] == stop - 1:
                init = self.text(q, stop)
                if T[q].t == "{":
                    x = [self.rx(q, stop)]
            self.scan_expr(q, stop)
            self.emit("decl", "", [name, init] + self.subscript_parts(init), x)
            if stop >= e:
                break
            q = stop + 1
            while q < e and T[q].t in ("&", "&&", "*", "const"):
                q += 1
            if not (q < e and T[q].kind == "id"):
                raise TranslateError("text pass: declarator list at offset %d is not supported" % T[a].off)

    def receiver(self, dot, lo):
        """tokens of the postfix expression ending just before the '.' / '->' at index dot; returns start index"""
        T = self.toks
        q = dot
        while True:
            p = q - 1
            if p < lo:
                break
            t = T[p]
            if t.kind == "op" and t.t in ")]":
                m = self.match[p]
                if m < lo:
                    break
                q = m
                # a call / subscript: continue with what precedes; a parenthesised primary: stop
                if m - 1 >= lo and (T[m - 1].kind == "id" and T[m - 1].t not in KEYWORDS or T[m - 1].t in (")", "]", ">")):
                    if T[m - 1].t == ">":
                        break
                    continue
                break
            if t.kind == "id" and (t.t not in KEYWORDS or t.t == "this"):
                q = p
                if p - 1 >= lo and T[p - 1].t in (".", "->", "::"):
                    q = p - 1
                    continue
                break
            if t.t in (".", "->", "::") and q != dot:
                q = p
                continue
            break
        if q < dot and T[q].t in (".", "->", "::"):
            q += 1
        return q

    def split_args(self, a, b):
        """top-level comma split of tokens a..b"""
        T = self.toks
        parts = []
        s = a
        q = a
        while q < b:
            if T[q].kind == "op" and T[q].t in "([{":
                q = self.match[q] + 1
                continue
            if T[q].t == ",":
                parts.append((s, q))
                s = q + 1
            q += 1
        if b > a:
            parts.append((s, b))
        return parts

    def for_each_parts(self, call, close):
        """std::for_each(C.begin(), C.end(), [..](T &v) {..}) -> (container token range, deref?, v, body braces) or None"""
        T = self.toks
        parts = self.split_args(call + 1, close)
        if len(parts) != 3:
            return None
        (b0, b1), (e0, e1), (l0, l1) = parts
        if b1 - b0 < 4 or e1 - e0 < 4 or T[b1 - 1].t != ")" or T[b1 - 2].t != "(" or T[e1 - 1].t != ")" or T[e1 - 2].t != "(":
            return None
        if T[b1 - 3].t != "begin" or T[e1 - 3].t != "end" or T[b1 - 4].t not in (".", "->") or T[e1 - 4].t != T[b1 - 4].t:
            return None
        if self.text(b0, b1 - 4) != self.text(e0, e1 - 4):
            return None
        if T[l0].t != "[" or T[self.match[l0] + 1].t != "(":
            return None
        p0 = self.match[l0] + 1
        p1 = self.match[p0]
        if p1 - p0 < 2 or T[p1 - 1].kind != "id" or any(T[z].t == "," for z in range(p0, p1)):
            return None
        g = p1 + 1
        while g < l1 and T[g].t != "{":
            if not (T[g].kind == "id"):
                return None
            g += 1
        if g >= l1 or self.match[g] != l1 - 1:
            return None
        return (b0, b1 - 4), T[b1 - 4].t == "->", T[p1 - 1].t, (g, l1 - 1)

    def deref_text(self, a, b):
        s = self.text(a, b)
        return "*" + s if re.match(r"^\w+$", s) else "*(" + s + ")"

    def scan_expr(self, a, b):
        T = self.toks
        q = a
        while q < b:
            tk = T[q]
            prev = T[q - 1].t if q > a else ""
            prevk = T[q - 1].kind if q > a else ""
            # lambda
            if tk.t == "[" and (q == a or (prevk == "op" and prev not in (")", "]", ">")) or prev == "return"):
                r = self.match[q] + 1
                if r < b and T[r].t == "(":
                    r = self.match[r] + 1
                g = r
                while g < b and T[g].t not in ("{", ";", ",", ")"):
                    g += 1
                if g < b and T[g].t == "{" and all(T[z].kind == "id" or T[z].t in ("->", "::", "&", "*", "<", ">") for z in range(r, g)):
                    self.emit("lambda_")
                    e = self.match[g]
                    z = g + 1
                    while z < e:
                        z = self.stmt(z, e)
                    self.emit("endLambda")
                    q = e + 1
                    continue
            if tk.t == ">>" and q + 1 < b:
                # stream extraction into ... : operands = the two neighbouring postfix expressions at this level
                lo = a
                hi = q + 1
                while hi < b and not (T[hi].kind == "op" and T[hi].t in (">>", "<<", ";", ",", "=", "?", "&&", "||")):
                    if T[hi].kind == "op" and T[hi].t in "([{":
                        hi = self.match[hi] + 1
                        continue
                    hi += 1
                ls = q
                while ls > lo and not (T[ls - 1].kind == "op" and T[ls - 1].t in (">>", "<<", ",", "=", "?", "&&", "||", "(", "[", "{")):
                    if T[ls - 1].kind == "op" and T[ls - 1].t in ")]}":
                        ls = self.match[ls - 1]
                        continue
                    ls -= 1
                self.emit("streamIn", "", [self.text(ls, q), self.text(q + 1, hi)], [self.rx(ls, q), self.rx(q + 1, hi)])
                q += 1
                continue
            if tk.kind != "id" or tk.t in KEYWORDS:
                q += 1
                continue
            name = tk.t
            member = prev in (".", "->") or (prev == "template" and q - 2 >= a and T[q - 2].t in (".", "->"))
            nxt = T[q + 1].t if q + 1 < b else ""
            # bucket array: subscript / assignment
            if name in BUCKET_ARRAYS and nxt in ("[", "="):
                recv = ""
                rxr = []
                if member:
                    dot = q - 1 if prev in (".", "->") else q - 2
                    rs = self.receiver(dot, a)
                    recv = self.text(rs, dot)
                    rxr = self.rx(rs, dot)
                if nxt == "[":
                    self.emit("bucketAt", recv, [name, self.text(q + 2, self.match[q + 1])], [rxr, self.rx(q + 2, self.match[q + 1])])
                else:
                    e = q + 2
                    while e < b and T[e].t != ",":
                        if T[e].kind == "op" and T[e].t in "([{":
                            e = self.match[e] + 1
                            continue
                        e += 1
                    self.emit("bucketsAssign", recv, [name, self.text(q + 2, e)], [rxr, self.rx(q + 2, e)])
                q += 1
                continue
            # std::for_each over a whole container = a range loop
            if name == "for_each" and nxt == "(" and not member and (prev != "::" or (q - 2 >= a and T[q - 2].t == "std")):
                fe = self.for_each_parts(q + 1, self.match[q + 1])
                if fe is not None:
                    (c0, c1), arrow, var, (g0, g1) = fe
                    self.scan_expr(c0, c1)
                    ctext = self.deref_text(c0, c1) if arrow else self.text(c0, c1)
                    cx = self.rx(c0, c1)
                    if arrow and cx != UNK:
                        cx = cx + [("op", "u*")]
                    self.emit("loop", "", ["range", var, ctext], [cx])
                    self.emit("do_")
                    z = g0 + 1
                    while z < g1:
                        z = self.stmt(z, g1)
                    self.emit("endLoop")
                    q = self.match[q + 1] + 1
                    continue
            # call: name ( ...   or   name <targs> ( ...
            call = None
            targs = None
            if nxt == "(":
                call = q + 1
            elif nxt == "<" and (name in SIMPLE_CALLS or name in SPECIAL_CALLS):
                r = self.skip_angle(q + 1, b)
                if r is not None and r < b and T[r].t == "(":
                    call = r
                    targs = self.text(q + 2, r - 1)
            if call is None or not (name in SIMPLE_CALLS or name in SPECIAL_CALLS):
                q += 1
                continue
            close = self.match[call]
            parts = self.split_args(call + 1, close)
            args = [self.text(x, y) for x, y in parts]
            recv = ""
            rxr = []
            if member:
                dot = q - 1 if prev in (".", "->") else q - 2
                rs = self.receiver(dot, a)
                recv = self.text(rs, dot)
                rxr = self.rx(rs, dot)
            xs = [rxr] + [self.rx(x, y) for x, y in parts]
            free = (not member) and (prev != "::" or (q - 2 >= a and T[q - 2].t == "std"))
            if prev == "::" and not member and not (q - 2 >= a and T[q - 2].t == "std"):
                free = False
            kind = classify(name, recv, len(args), free and name == "swap")
            if kind is None:
                q += 1
                continue
            if kind == "isMigrated" and close + 1 < b and T[close + 1].t == "=":
                e = close + 2
                while e < b and T[e].t != ",":
                    if T[e].kind == "op" and T[e].t in "([{":
                        e = self.match[e] + 1
                        continue
                    e += 1
                self.emit("setMigrated", recv, [self.text(close + 2, e)], [rxr, self.rx(close + 2, e)])
            elif kind in ("lock", "unlock", "tryLock"):
                self.emit(kind, recv, self.subscript_parts(recv), [rxr])
            else:
                pre = [targs] if targs is not None else []
                if kind in ("bucketsSwap", "bucketsMeth"):
                    pre = [name] + pre
                if kind == "parallelExec":
                    pre, args, xs = [], [], []
                self.emit(kind, recv, pre + args, xs)
            q += 1

    @staticmethod
    def subscript_parts(recv):
        """'X[Y]' (X a postfix expression) -> [X, Y] ; anything else -> []"""
        if not recv.endswith("]") or not re.match(r"^(?:[\w.:\[\]()]|->)+\[", recv):
            return []
        d = 0
        for p in range(len(recv) - 1, -1, -1):
            if recv[p] == "]":
                d += 1
            elif recv[p] == "[":
                d -= 1
                if d == 0:
                    if p > 0 and re.match(r"^(?:[\w.:\[\]()]|->)+$", recv[:p]):
                        return [recv[:p], recv[p + 1:-1]]
                    return []
        return []

    def fields(self, path):
        """[(field name, type text)] of the non-static data members of the record, in declaration order"""
        T = self.toks
        want = ("cuckoohash_map",) + tuple(path)
        opens = [b for b, nm in self.records.items() if nm == want[-1] and self.record_path(b + 1) == want]
        if len(opens) != 1:
            raise TranslateError("text pass: %d definitions of record %s" % (len(opens), "::".join(want)))
        b = opens[0]
        e = self.match[b]
        res = []
        q = b + 1
        while q < e:
            # one member declaration: up to ';' at this level, or a function body
            s0 = q
            if T[q].t in ("public", "private", "protected") and T[q + 1].t == ":":
                q += 2
                continue
            has_paren = False
            body = False
            while q < e and T[q].t != ";":
                if T[q].kind == "op" and T[q].t in "([":
                    has_paren = True
                    q = self.match[q] + 1
                    continue
                if T[q].t == "{":
                    q = self.match[q] + 1
                    if has_paren or T[s0].t in ("class", "struct", "enum", "union"):
                        body = True
                        break
                    continue
                q += 1
            if body:
                if q < e and T[q].t == ";":
                    q += 1
                continue
            if not has_paren and T[s0].t not in ("using", "typedef", "friend", "static", "template", "class", "struct", "enum"):
                d = self.try_decl(s0, q)
                if d is not None:
                    ty = self.text(s0, d)
                    z = d
                    while z < q:
                        if T[z].kind == "id":
                            res.append((T[z].t, ty))
                        z += 1
                        while z < q and T[z].t != ",":
                            if T[z].kind == "op" and T[z].t in "([{":
                                z = self.match[z]
                            z += 1
                        z += 1
            q += 1
        return res

    def alias(self, path, name):
        """text of `using name = ...;` in the given record"""
        T = self.toks
        want = ("cuckoohash_map",) + tuple(path)
        res = []
        for i in range(len(T) - 3):
            if T[i].t == "using" and T[i + 1].t == name and T[i + 2].t == "=" and self.record_path(i) == want:
                e = i + 3
                while T[e].t != ";":
                    e += 1
                res.append(self.text(i + 3, e))
        if len(res) != 1:
            raise TranslateError("text pass: %d alias declarations of %s" % (len(res), name))
        return res[0]


# ----------------------------------------------------------------------------------------------------------------
# (b) AST pass
# ----------------------------------------------------------------------------------------------------------------

TRANSPARENT = ("ImplicitCastExpr", "ExprWithCleanups", "MaterializeTemporaryExpr", "CXXBindTemporaryExpr", "ConstantExpr",
               "FullExpr")


class AstPass:
    def __init__(self, repo, scratch, raw_src):
        os.makedirs(scratch, exist_ok=True)
        tu = os.path.join(scratch, "syncskel_tu.cc")
        with open(tu, "w") as f:
            f.write("#include <libcuckoo/cuckoohash_map.hh>\n")
        try:
            p = self.run_clang(repo, tu)
        except OSError as e:
            raise TranslateError("cannot run clang++-14 for the AST cross-check: %s" % e.strerror)
        self.load(p, raw_src)

    @staticmethod
    def run_clang(repo, tu):
        return subprocess.run(["clang++-14", "-std=gnu++17", "-DNDEBUG", "-ULIBCUCKOO_VERIF", "-fsyntax-only", "-I" + repo,
                            "-Xclang", "-ast-dump=json", "-Xclang", "-ast-dump-filter=cuckoohash_map", tu],
                           stdout=subprocess.PIPE, stderr=subprocess.PIPE, universal_newlines=True)

    def load(self, p, raw_src):
        if p.returncode != 0:
            raise TranslateError("clang could not parse the header: " + " | ".join(p.stderr.strip().splitlines()[:3]))
        self.src = raw_src
        dec = json.JSONDecoder()
        txt = p.stdout
        i = 0
        self.root = None
        while True:
            j = txt.find("{", i)
            if j < 0:
                break
            obj, i = dec.raw_decode(txt, j)
            if obj.get("kind") == "ClassTemplateDecl" and obj.get("name") == "cuckoohash_map" and \
               any(c.get("kind") == "CXXRecordDecl" and c.get("completeDefinition") for c in obj.get("inner", [])):
                self.root = obj
                break
        if self.root is None:
            raise TranslateError("AST pass: class template cuckoohash_map not found in clang's dump")
        self.top = [c for c in self.root["inner"] if c.get("kind") == "CXXRecordDecl" and c.get("completeDefinition")][0]

    # ---- locating ------------------------------------------------------------------------------------------
    def record(self, path):
        n = self.top
        for name in path:
            nxt = None
            for c in n.get("inner", []):
                cand = c
                if c.get("kind") == "ClassTemplateDecl":
                    cand = [x for x in c.get("inner", []) if x.get("kind") == "CXXRecordDecl"][0]
                if cand.get("kind") == "CXXRecordDecl" and cand.get("name") == name and cand.get("completeDefinition"):
                    nxt = cand
            if nxt is None:
                raise TranslateError("AST pass: record %s not found" % "::".join(path))
            n = nxt
        return n

    def locate(self, path, name_toks, pred):
        rec = self.record(path)
        name = "".join(name_toks)
        found = []
        for c in rec.get("inner", []):
            cands = [c]
            if c.get("kind") in ("FunctionTemplateDecl", "FriendDecl"):
                cands = [x for x in c.get("inner", []) if x.get("kind") in ("CXXMethodDecl", "FunctionDecl", "CXXConstructorDecl")][:1]
            for f in cands:
                if f.get("kind") not in ("CXXMethodDecl", "FunctionDecl", "CXXConstructorDecl") or f.get("name") != name:
                    continue
                inner = f.get("inner", [])
                if not any(x.get("kind") == "CompoundStmt" for x in inner):
                    continue
                ptxt = []
                for x in inner:
                    if x.get("kind") == "ParmVarDecl":
                        ptxt += re.findall(r"\w+", x.get("type", {}).get("qualType", ""))
                if pred(ptxt):
                    found.append(f)
        if len(found) != 1:
            raise TranslateError("AST pass: %d definitions match %s::%s" % (len(found), "::".join(("cuckoohash_map",) + tuple(path)), name))
        return found[0]

    def fields(self, path):
        rec = self.record(path)
        return [(c.get("name", ""), c.get("type", {}).get("qualType", "")) for c in rec.get("inner", [])
                if c.get("kind") == "FieldDecl"]

    def alias(self, path, name):
        rec = self.record(path)
        res = [c for c in rec.get("inner", []) if c.get("kind") == "TypeAliasDecl" and c.get("name") == name]
        if len(res) != 1:
            raise TranslateError("AST pass: %d alias declarations of %s" % (len(res), name))
        return res[0].get("type", {}).get("qualType", "")

    # ---- source ranges ---------------------------------------------------------------------------------------
    def loc(self, l):
        if "expansionLoc" in l or "spellingLoc" in l:
            raise TranslateError("AST pass: a vocabulary action comes out of a macro expansion (offset %s)" %
                                 l.get("expansionLoc", {}).get("offset"))
        if "offset" not in l:
            raise TranslateError("AST pass: node without a source location")
        return l["offset"], l.get("tokLen", 0)

    def rng(self, n):
        r = n.get("range")
        if not r:
            raise TranslateError("AST pass: %s without a range" % n.get("kind"))
        b, _ = self.loc(r["begin"])
        e, tl = self.loc(r["end"])
        return b, e + tl

    def slice(self, n):
        b, e = self.rng(n)
        return self.src[b:e]

    def ntext(self, n):
        return norm_text(blank_comments_strings(self.slice(n)))

    @staticmethod
    def kids(n):
        return [c for c in (n.get("inner") or [])]

    def strip(self, n):
        while n.get("kind") in TRANSPARENT and len(self.kids(n)) == 1:
            n = self.kids(n)[0]
        return n

    def strip_paren(self, n):
        n = self.strip(n)
        while n.get("kind") == "ParenExpr":
            n = self.strip(self.kids(n)[0])
        return n

    # ---- skeleton ------------------------------------------------------------------------------------------
    def skeleton(self, f):
        self.out = []
        body = None
        self.emit("params", "", [c.get("name", "") for c in self.kids(f) if c.get("kind") == "ParmVarDecl"])
        for c in self.kids(f):
            if c.get("kind") == "CXXCtorInitializer":
                for x in self.kids(c):
                    self.full_expr(x)
            elif c.get("kind") == "CompoundStmt":
                body = c
        self.body_offset = self.rng(body)[0]
        self.stmt(body)
        return self.out

    def cond_args(self, n):
        m = self.strip(n)
        text = self.ntext(n)
        simple = None
        if m.get("kind") == "BinaryOperator" and m.get("opcode") in CMP_OPS:
            ops = self.kids(m)
            simple = [m["opcode"], self.ntext(ops[0]), self.ntext(ops[1])]
        elif m.get("kind") == "CXXOperatorCallExpr" and len(self.kids(m)) == 3:
            callee = self.strip(self.kids(m)[0])
            nm = callee.get("referencedDecl", {}).get("name", "") or callee.get("name", "")
            if nm.startswith("operator") and nm[8:] in CMP_OPS:
                simple = [nm[8:], self.ntext(self.kids(m)[1]), self.ntext(self.kids(m)[2])]
        return simple, ["?", text]

    def emit(self, k, r="", a=(), alt=None, x=()):
        self.out.append(Act(k, r, a, alt, x))

    # ---- operands in postfix form (post-order walk of clang's tree) --------------------------------------------
    ASSIGN_OPS = ("=", "+=", "-=", "*=", "/=", "%=", "&=", "|=", "^=", "<<=", ">>=")

    def rx(self, n):
        if not n:
            return []
        try:
            return self.rpn(n)
        except (Unsupported, TranslateError, KeyError, IndexError, RecursionError):
            return list(UNK)

    def op_callee(self, m):
        callee = self.strip(self.kids(m)[0]) if self.kids(m) else {}
        nm = callee.get("referencedDecl", {}).get("name", "") or callee.get("name", "")
        return nm[8:] if nm.startswith("operator") else None

    def spelled_before_bracket(self, n):
        """(normalised text of the tokens before the first top-level ( or { of n's slice, without trailing template
        arguments ; that bracket or None)"""
        b, e = self.rng(n)
        toks = tokenize(blank_comments_strings(self.src[b:e]), b)
        d = 0
        cut = None
        for i, t in enumerate(toks):
            if t.kind == "op" and t.t in ("(", "{") and d == 0:
                cut = i
                break
            if t.t == "<":
                d += 1
            elif t.t == ">":
                d -= 1
            elif t.t == ">>":
                d -= 2
        if cut is None:
            return None, None
        head = toks[:cut]
        if head and head[-1].t in (">", ">>"):
            d = 0
            p = len(head) - 1
            while p >= 0:
                if head[p].t == ">":
                    d += 1
                elif head[p].t == ">>":
                    d += 2
                elif head[p].t == "<":
                    d -= 1
                    if d == 0:
                        break
                p -= 1
            if p <= 0:
                raise Unsupported()
            head = head[:p]
        if not head:
            return None, None
        return norm_tokens([t.t for t in head]), toks[cut].t

    def rpn(self, n):
        k = n.get("kind")
        ch = [c for c in self.kids(n) if c]
        if k in TRANSPARENT or k in ("ParenExpr", "CXXStaticCastExpr", "CXXReinterpretCastExpr", "CXXConstCastExpr"):
            if len(ch) != 1:
                raise Unsupported()
            return self.rpn(ch[0])
        if k == "IntegerLiteral":
            return [("num", int(n.get("value")))]
        if k == "CXXBoolLiteralExpr":
            return [("num", 1 if n.get("value") else 0)]
        if k == "CXXNullPtrLiteralExpr":
            return [("num", 0)]
        if k == "CXXThisExpr":
            if n.get("implicit"):
                raise Unsupported()
            return [("var", "this")]
        if k in ("DeclRefExpr", "DependentScopeDeclRefExpr", "UnresolvedLookupExpr"):
            return [("var", self.ntext(n))]
        if k in ("MemberExpr", "CXXDependentScopeMemberExpr", "UnresolvedMemberExpr"):
            name = n.get("name") or n.get("member")
            if not name:
                raise Unsupported()
            if not ch or (self.strip(ch[0]).get("kind") == "CXXThisExpr" and self.strip(ch[0]).get("implicit")):
                return [("var", self.ntext(n))]
            return self.rpn(ch[0]) + [("mem", name, self.ntext(n))]
        if k == "ArraySubscriptExpr":
            return self.rpn(ch[0]) + self.rpn(ch[1]) + [("sub", self.ntext(n))]
        if k == "UnaryOperator":
            o = n.get("opcode")
            if o not in ("!", "-", "+", "*", "&", "~", "++", "--"):
                raise Unsupported()
            return self.rpn(ch[0]) + [("op", ("p" if n.get("isPostfix") and o in ("++", "--") else "u") + o)]
        if k == "BinaryOperator":
            o = n.get("opcode")
            if o in self.ASSIGN_OPS or o in (",", ".*", "->*", "<=>"):
                raise Unsupported()
            return self.rpn(ch[0]) + self.rpn(ch[1]) + [("op", o)]
        if k == "ConditionalOperator":
            return self.rpn(ch[0]) + self.rpn(ch[1]) + self.rpn(ch[2]) + [("op", "?:")]
        if k in ("CallExpr", "CXXMemberCallExpr"):
            info = self.callee_info(ch[0]) if ch else None
            if not info:
                raise Unsupported()
            name, off, recv, targs, free = info
            args = [a for a in ch[1:] if a.get("kind") != "CXXDefaultArgExpr"]
            r = []
            for a in args:
                r += self.rpn(a)
            callee = self.strip_paren(ch[0])
            if callee.get("kind") in ("MemberExpr", "CXXDependentScopeMemberExpr", "UnresolvedMemberExpr"):
                if recv is not None:
                    return self.rpn(recv) + r + [("call", "." + name, len(args) + 1, self.ntext(n))]
                return r + [("call", name, len(args), self.ntext(n))]
            spelled, br = self.spelled_before_bracket(n)
            if spelled is None or br != "(":
                raise Unsupported()
            return r + [("call", spelled, len(args), self.ntext(n))]
        if k == "CXXOperatorCallExpr":
            o = self.op_callee(n)
            ops = ch[1:]
            if o == "[]" and len(ops) == 2:
                return self.rpn(ops[0]) + self.rpn(ops[1]) + [("sub", self.ntext(n))]
            if o == "->" and len(ops) == 1:
                return self.rpn(ops[0])
            if o in ("++", "--"):
                return self.rpn(ops[0]) + [("op", ("p" if len(ops) == 2 else "u") + o)]
            if o in ("!", "*", "-", "&", "~") and len(ops) == 1:
                return self.rpn(ops[0]) + [("op", "u" + o)]
            if o is None or o in self.ASSIGN_OPS or o in ("()", ",") or len(ops) != 2:
                raise Unsupported()
            return self.rpn(ops[0]) + self.rpn(ops[1]) + [("op", o)]
        if k in ("CXXFunctionalCastExpr", "CXXUnresolvedConstructExpr", "CXXTemporaryObjectExpr", "CXXConstructExpr"):
            spelled, br = self.spelled_before_bracket(n)
            if spelled is None or (ch and self.rng(ch[0]) == self.rng(n)):
                if len(ch) == 1:
                    return self.rpn(ch[0])        # implicit construction / conversion
                raise Unsupported()
            args = ch
            if br == "{" and len(ch) == 1 and self.strip(ch[0]).get("kind") == "InitListExpr" and \
                    self.ntext(ch[0]) == self.ntext(n)[len(spelled):]:
                args = [c for c in self.kids(self.strip(ch[0])) if c]
            r = []
            for a in args:
                if a.get("kind") == "CXXDefaultArgExpr":
                    continue
                r += self.rpn(a)
            return r + [("call", spelled, len([a for a in args if a.get("kind") != "CXXDefaultArgExpr"]), self.ntext(n))]
        if k == "InitListExpr":
            r = []
            for a in ch:
                r += self.rpn(a)
            return r + [("lst", len(ch))]
        raise Unsupported()

    def expr_stmt(self, n):
        """expression statement / for-increment: its actions, then `assign` / `step` if it is one"""
        self.full_expr(n)
        m = self.strip(n)
        k = m.get("kind")
        ch = [c for c in self.kids(m) if c]
        o = None
        ops = ch
        if k in ("BinaryOperator", "CompoundAssignOperator"):
            o = m.get("opcode")
        elif k == "UnaryOperator":
            o = m.get("opcode")
        elif k == "CXXOperatorCallExpr":
            o = self.op_callee(m)
            ops = ch[1:]
        if o == "=" and len(ops) == 2:
            self.emit("assign", "", [self.ntext(ops[0]), self.ntext(ops[1])], None, [self.rx(ops[1])])
        elif o in self.ASSIGN_OPS and o != "=" and len(ops) == 2:
            x, y = self.rx(ops[0]), self.rx(ops[1])
            nv = list(UNK) if x == UNK or y == UNK else x + y + [("op", o[:-1])]
            self.emit("step", "", [self.ntext(n), self.ntext(ops[0])], None, [nv])
        elif o in ("++", "--") and k in ("UnaryOperator", "CXXOperatorCallExpr") and len(ops) >= 1:
            x = self.rx(ops[0])
            nv = list(UNK) if x == UNK else x + [("num", 1), ("op", o[0])]
            self.emit("step", "", [self.ntext(n), self.ntext(ops[0])], None, [nv])

    def for_each_parts(self, args):
        """std::for_each(C.begin(), C.end(), [..](T &v) {..}) -> (container node, deref?, v, body) or None"""
        if len(args) != 3:
            return None
        ends = []
        for a, nm in ((args[0], "begin"), (args[1], "end")):
            m = self.strip(a)
            if m.get("kind") not in ("CallExpr", "CXXMemberCallExpr"):
                return None
            kk = [c for c in self.kids(m) if c]
            if len(kk) != 1:
                return None
            cal = self.strip_paren(kk[0])
            if cal.get("kind") not in ("MemberExpr", "CXXDependentScopeMemberExpr") or (cal.get("name") or cal.get("member")) != nm:
                return None
            base = [c for c in self.kids(cal) if c]
            if len(base) != 1 or (self.strip(base[0]).get("kind") == "CXXThisExpr" and self.strip(base[0]).get("implicit")):
                return None
            ends.append((base[0], bool(cal.get("isArrow"))))
        if self.ntext(ends[0][0]) != self.ntext(ends[1][0]) or ends[0][1] != ends[1][1]:
            return None
        lam = self.strip(args[2])
        if lam.get("kind") != "LambdaExpr":
            return None
        body = [c for c in self.kids(lam) if c.get("kind") == "CompoundStmt"]
        ps = []
        for c in self.kids(lam):
            if c.get("kind") == "CXXRecordDecl":
                for mth in self.kids(c):
                    if mth.get("kind") == "CXXMethodDecl" and mth.get("name") == "operator()":
                        ps = [p for p in self.kids(mth) if p.get("kind") == "ParmVarDecl"]
                    if mth.get("kind") == "FunctionTemplateDecl":
                        return None
        if len(body) != 1 or len(ps) != 1 or not ps[0].get("name"):
            return None
        return ends[0][0], ends[0][1], ps[0]["name"], body[0]

    def stmt(self, n):
        k = n.get("kind")
        if not n or k is None or k == "NullStmt":
            return
        if k == "CompoundStmt":
            for c in self.kids(n):
                self.stmt(c)
        elif k == "DeclStmt":
            for c in self.kids(n):
                ck = c.get("kind")
                if ck == "VarDecl":
                    init = ""
                    x = []
                    ch = [y for y in self.kids(c) if y.get("kind") not in ("FullComment",)]
                    if ch:
                        self.full_expr(ch[0])
                        if c.get("init") == "c":
                            init = self.ntext(ch[0])
                            x = [self.rx(ch[0])]
                        elif c.get("init") in ("call", "list"):
                            # direct initialisation: the text between the declared name and the end of the declarator
                            noff, nlen = self.loc(c["loc"])
                            init = norm_text(blank_comments_strings(self.src[noff + nlen:self.rng(c)[1]]))
                            if c.get("init") == "list":
                                x = [self.rx(ch[0]) if self.strip(ch[0]).get("kind") == "InitListExpr" else list(UNK)]
                    self.emit("decl", "", [c.get("name", ""), init] + (self.sub_parts(ch[0]) if c.get("init") == "c" else []), None, x)
                elif ck in ("StaticAssertDecl", "TypeAliasDecl", "TypedefDecl", "UsingDecl", "EmptyDecl"):
                    if ck != "StaticAssertDecl":
                        raise TranslateError("AST pass: unsupported local declaration %s" % ck)
                else:
                    raise TranslateError("AST pass: unsupported local declaration %s" % ck)
        elif k == "IfStmt":
            if n.get("hasInit") or n.get("hasVar"):
                raise TranslateError("AST pass: if with init-statement / condition variable is not supported")
            ch = self.kids(n)
            simple, alt = self.cond_args(ch[0])
            self.emit("if_", "", simple or alt, alt, [self.rx(ch[0])])
            self.full_expr(ch[0])
            self.emit("then_")
            self.stmt(ch[1])
            if n.get("hasElse") or len(ch) > 2:
                self.emit("else_")
                self.stmt(ch[2])
            self.emit("endIf")
        elif k == "WhileStmt":
            ch = self.kids(n)
            if n.get("hasVar") or len(ch) != 2:
                raise TranslateError("AST pass: while with a condition variable is not supported")
            simple, alt = self.cond_args(ch[0])
            self.emit("loop", "", ["while"] + (simple or alt), ["while"] + alt, [self.rx(ch[0])])
            self.full_expr(ch[0])
            self.emit("do_")
            self.stmt(ch[1])
            self.emit("endLoop")
        elif k == "DoStmt":
            ch = self.kids(n)
            cond = self.strip_paren(ch[1])
            if ch[0].get("kind") == "CompoundStmt" and not self.kids(ch[0]) and cond.get("kind") == "IntegerLiteral" and cond.get("value") == "0":
                return   # `do {} while (0)` : an expanded no-op debug macro
            if ch[0].get("kind") != "CompoundStmt":
                raise TranslateError("AST pass: do-while without braces is not supported")
            simple, alt = self.cond_args(ch[1])
            self.emit("loop", "", ["do"] + (simple or alt), ["do"] + alt, [self.rx(ch[1])])
            self.emit("do_")
            self.stmt(ch[0])
            self.emit("incr_")
            self.full_expr(ch[1])
            self.emit("endLoop")
        elif k == "ForStmt":
            ch = self.kids(n)
            if len(ch) != 5 or ch[1]:
                raise TranslateError("AST pass: unsupported for statement")
            if ch[0]:
                self.stmt_or_expr(ch[0])
            if ch[2]:
                simple, alt = self.cond_args(ch[2])
            else:
                simple, alt = None, ["?", ""]
            self.emit("loop", "", ["for"] + (simple or alt), ["for"] + alt, [self.rx(ch[2])])
            if ch[2]:
                self.full_expr(ch[2])
            self.emit("do_")
            self.stmt(ch[4])
            if ch[3]:
                self.emit("incr_")
                self.expr_stmt(ch[3])
            self.emit("endLoop")
        elif k == "CXXForRangeStmt":
            ch = self.kids(n)
            if len(ch) != 8 or ch[0]:
                raise TranslateError("AST pass: unsupported range-for statement")
            rv = [y for y in self.kids(ch[1]) if y.get("kind") == "VarDecl"]
            lv = [y for y in self.kids(ch[6]) if y.get("kind") == "VarDecl"]
            if len(rv) != 1 or len(lv) != 1 or not self.kids(rv[0]):
                raise TranslateError("AST pass: unsupported range-for statement")
            rexpr = self.kids(rv[0])[0]
            self.full_expr(rexpr)
            self.emit("loop", "", ["range", lv[0].get("name", ""), self.ntext(rexpr)], None, [self.rx(rexpr)])
            self.emit("do_")
            self.stmt(ch[7])
            self.emit("endLoop")
        elif k == "SwitchStmt":
            ch = self.kids(n)
            if len(ch) != 2:
                raise TranslateError("AST pass: unsupported switch statement")
            self.full_expr(ch[0])
            self.emit("switch_", "", [self.ntext(ch[0])], None, [self.rx(ch[0])])
            self.stmt(ch[1])
            self.emit("endSwitch")
        elif k == "CaseStmt":
            ch = self.kids(n)
            self.emit("case_", "", [self.ntext(ch[0])])
            self.stmt_or_expr(ch[-1])
        elif k == "DefaultStmt":
            self.emit("default_")
            self.stmt_or_expr(self.kids(n)[-1])
        elif k == "CXXTryStmt":
            ch = self.kids(n)
            self.emit("try_")
            self.stmt(ch[0])
            for c in ch[1:]:
                if c.get("kind") != "CXXCatchStmt":
                    raise TranslateError("AST pass: unsupported try statement")
                cc = self.kids(c)
                ty = "..."
                if cc[0] and cc[0].get("kind") == "VarDecl":
                    ty = self.ntext(cc[0])
                self.emit("catch_", "", [ty])
                self.stmt(cc[-1])
            self.emit("endTry")
        elif k == "ReturnStmt":
            ch = [c for c in self.kids(n) if c]
            if ch:
                self.full_expr(ch[0])
            self.emit("ret", "", [self.ntext(ch[0])] if ch else [], None, [self.rx(ch[0])] if ch else [])
        elif k == "ContinueStmt":
            self.emit("continue_")
        elif k == "BreakStmt":
            self.emit("break_")
        elif k in ("GotoStmt", "LabelStmt", "AttributedStmt", "CoreturnStmt"):
            raise TranslateError("AST pass: unsupported statement %s" % k)
        else:
            self.expr_stmt(n)

    def sub_parts(self, n):
        """[base, index] if n is a subscript expression"""
        m = self.strip(n)
        if m.get("kind") == "ArraySubscriptExpr":
            bb = self.kids(m)
            return [self.ntext(bb[0]), self.ntext(bb[1])]
        if m.get("kind") == "CXXOperatorCallExpr" and len(self.kids(m)) == 3 and self.ntext(m).endswith("]"):
            callee = self.strip(self.kids(m)[0])
            nm = callee.get("referencedDecl", {}).get("name", "") or callee.get("name", "")
            if nm == "operator[]":
                bb = self.kids(m)
                return [self.ntext(bb[1]), self.ntext(bb[2])]
        return []

    def stmt_or_expr(self, n):
        self.stmt(n)

    def full_expr(self, n):
        """actions of one full expression, in source order of their key token"""
        items = []
        self.expr(n, items, None)
        items.sort(key=lambda x: x[0])
        for _, acts in items:
            self.out.extend(acts)

    def callee_info(self, c):
        """(name, name offset, receiver node or None, template args text or None, is free function)"""
        c = self.strip_paren(c)
        k = c.get("kind")
        b, e = self.rng(c)
        toks = tokenize(blank_comments_strings(self.src[b:e]), b)
        targs = None
        if toks and toks[-1].t in (">", ">>"):
            d = 0
            p = len(toks) - 1
            while p >= 0:
                if toks[p].t == ">":
                    d += 1
                elif toks[p].t == ">>":
                    d += 2
                elif toks[p].t == "<":
                    d -= 1
                    if d == 0:
                        break
                p -= 1
            if p <= 0:
                return None
            targs = norm_tokens([t.t for t in toks[p + 1:-1]])
            toks = toks[:p]
        if not toks or toks[-1].kind != "id":
            return None
        sname, off = toks[-1].t, toks[-1].off
        if k in ("MemberExpr", "CXXDependentScopeMemberExpr", "UnresolvedMemberExpr"):
            name = c.get("name") or c.get("member") or sname
            if name != sname:
                raise TranslateError("AST pass: member name %s does not match its source range (%s)" % (name, sname))
            recv = None
            ch = [x for x in self.kids(c) if x]
            if ch:
                base = self.strip(ch[0])
                if not (base.get("kind") == "CXXThisExpr" and base.get("implicit")):
                    recv = ch[0]
            elif len(toks) >= 3 and toks[-2].t in (".", "->"):
                raise TranslateError("AST pass: explicit receiver of %s is not in the tree" % name)
            return name, off, recv, targs, False
        if k in ("UnresolvedLookupExpr", "DeclRefExpr", "DependentScopeDeclRefExpr"):
            name = c.get("name") or c.get("referencedDecl", {}).get("name") or sname
            if name != sname:
                if name.startswith("operator"):
                    return None
                raise TranslateError("AST pass: callee name %s does not match its source range (%s)" % (name, sname))
            qual = [t.t for t in toks[:-1]]
            free = (qual == [] and k == "UnresolvedLookupExpr") or qual == ["std", "::"]
            if k == "DeclRefExpr" and qual == []:
                free = c.get("referencedDecl", {}).get("kind") == "FunctionDecl"
            return name, off, None, targs, free
        return None

    def expr(self, n, items, ctx):
        if not n:
            return
        k = n.get("kind")
        if k == "LambdaExpr":
            body = [c for c in self.kids(n) if c.get("kind") == "CompoundStmt"]
            if len(body) != 1:
                raise TranslateError("AST pass: unsupported lambda")
            saved = self.out
            self.out = []
            self.emit("lambda_")
            self.stmt(body[0])
            self.emit("endLambda")
            acts, self.out = self.out, saved
            items.append(((self.rng(n)[0], 0), acts))
            return
        if k in ("CompoundStmt", "DeclStmt", "IfStmt", "WhileStmt", "ForStmt", "ReturnStmt", "CXXTryStmt", "StmtExpr"):
            raise TranslateError("AST pass: statement %s inside an expression" % k)
        if k == "CXXThrowExpr":
            ch = [c for c in self.kids(n) if c]
            saved = self.out
            self.out = []
            if ch:
                self.full_expr(ch[0])
            self.emit("throw_", "", [self.ntext(ch[0])] if ch else [], None, [self.rx(ch[0])] if ch else [])
            acts, self.out = self.out, saved
            items.append(((self.rng(n)[0], 0), acts))
            return
        if k in ("CallExpr", "CXXMemberCallExpr"):
            ch = self.kids(n)
            info = self.callee_info(ch[0]) if ch else None
            if info:
                name, off, recv, targs, free = info
                if name == "for_each" and recv is None and free:
                    fe = self.for_each_parts([a for a in ch[1:] if a.get("kind") != "CXXDefaultArgExpr"])
                    if fe is not None:
                        cnode, arrow, var, body = fe
                        saved = self.out
                        self.out = []
                        self.full_expr(cnode)
                        ctext = self.ntext(cnode)
                        cx = self.rx(cnode)
                        if arrow:
                            ctext = "*" + ctext if re.match(r"^\w+$", ctext) else "*(" + ctext + ")"
                            if cx != UNK:
                                cx = cx + [("op", "u*")]
                        self.emit("loop", "", ["range", var, ctext], None, [cx])
                        self.emit("do_")
                        self.stmt(body)
                        self.emit("endLoop")
                        acts, self.out = self.out, saved
                        items.append(((off, 0), acts))
                        return
                if name in SIMPLE_CALLS or name in SPECIAL_CALLS:
                    args = [a for a in ch[1:] if a.get("kind") != "CXXDefaultArgExpr"]
                    rtext = self.ntext(recv) if recv is not None else ""
                    rxr = self.rx(recv) if recv is not None else []
                    kind = classify(name, rtext, len(args), free and name == "swap")
                    if kind is not None:
                        atexts = [self.ntext(a) for a in args]
                        xs = [rxr] + [self.rx(a) for a in args]
                        if kind == "isMigrated" and ctx and ctx[0] == "assign_lhs" and ctx[1] is n:
                            act = Act("setMigrated", rtext, [self.ntext(ctx[2])], None, [rxr, self.rx(ctx[2])])
                        elif kind in ("lock", "unlock", "tryLock"):
                            act = Act(kind, rtext, self.sub_parts(recv), None, [rxr])
                        else:
                            pre = [targs] if targs is not None else []
                            if kind in ("bucketsSwap", "bucketsMeth"):
                                pre = [name] + pre
                            if kind == "parallelExec":
                                pre, atexts, xs = [], [], []
                            act = Act(kind, rtext, pre + atexts, None, xs)
                        items.append(((off, 0), [act]))
            for c in ch:
                self.expr(c, items, None)
            return
        if k in ("BinaryOperator", "CXXOperatorCallExpr", "CompoundAssignOperator"):
            ch = self.kids(n)
            op = n.get("opcode")
            ops = ch
            if k == "CXXOperatorCallExpr":
                callee = self.strip(ch[0]) if ch else {}
                nm = callee.get("referencedDecl", {}).get("name", "") or callee.get("name", "")
                op = nm[8:] if nm.startswith("operator") else None
                ops = ch[1:]
            if op == "=" and len(ops) == 2:
                lhs = self.strip_paren(ops[0])
                if lhs.get("kind") in ("MemberExpr", "CXXDependentScopeMemberExpr") and \
                        (lhs.get("name") or lhs.get("member")) in BUCKET_ARRAYS:
                    name = lhs.get("name") or lhs.get("member")
                    b, e = self.rng(lhs)
                    recv = ""
                    rxr = []
                    lk = [x for x in self.kids(lhs) if x]
                    if lk and not (self.strip(lk[0]).get("kind") == "CXXThisExpr" and self.strip(lk[0]).get("implicit")):
                        recv = self.ntext(lk[0])
                        rxr = self.rx(lk[0])
                    items.append(((e - len(name), 0), [Act("bucketsAssign", recv, [name, self.ntext(ops[1])], None, [rxr, self.rx(ops[1])])]))
                    self.expr(ops[1], items, None)
                    for x in lk:
                        self.expr(x, items, None)
                    return
                if lhs.get("kind") in ("CallExpr", "CXXMemberCallExpr"):
                    self.expr(ops[0], items, ("assign_lhs", lhs, ops[1]))
                    self.expr(ops[1], items, None)
                    return
            if op == ">>" and len(ops) == 2:
                rb, _ = self.rng(ops[1])
                items.append(((rb, -1), [Act("streamIn", "", [self.ntext(ops[0]), self.ntext(ops[1])], None, [self.rx(ops[0]), self.rx(ops[1])])]))
            for c in (ops if k == "CXXOperatorCallExpr" else ch):
                self.expr(c, items, ctx if k == "ParenExpr" else None)
            return
        if k in ("ArraySubscriptExpr",):
            ch = self.kids(n)
            base = self.strip_paren(ch[0])
            if base.get("kind") in ("MemberExpr", "CXXDependentScopeMemberExpr") and (base.get("name") or base.get("member")) in BUCKET_ARRAYS:
                name = base.get("name") or base.get("member")
                b, e = self.rng(base)
                recv = ""
                rxr = []
                lk = [x for x in self.kids(base) if x]
                if lk and not (self.strip(lk[0]).get("kind") == "CXXThisExpr" and self.strip(lk[0]).get("implicit")):
                    recv = self.ntext(lk[0])
                    rxr = self.rx(lk[0])
                items.append(((e - len(name), 0), [Act("bucketAt", recv, [name, self.ntext(ch[1])], None, [rxr, self.rx(ch[1])])]))
            for c in ch:
                self.expr(c, items, None)
            return
        if k in TRANSPARENT or k == "ParenExpr":
            for c in self.kids(n):
                self.expr(c, items, ctx)
            return
        if k in ("CXXRecordDecl", "FullComment"):
            return
        for c in self.kids(n):
            if isinstance(c, dict):
                self.expr(c, items, None)


# ----------------------------------------------------------------------------------------------------------------
# comparison and output
# ----------------------------------------------------------------------------------------------------------------


RPN_STATS = {"agree": 0, "unk": 0, "differ": 0}


def compare(key, ta, aa):
    n = max(len(ta), len(aa))
    for i in range(n):
        x = ta[i] if i < len(ta) else None
        y = aa[i] if i < len(aa) else None
        same = x is not None and y is not None and (x.key() == y.key() or (y.alt is not None and x.k == y.k and x.r == y.r and x.a == y.alt))
        if not same:
            return "%s: action %d differs: text pass %r, AST pass %r" % (key, i, x, y)
        # postfix forms: kept only where both extractions produced the same one
        if len(x.x) != len(y.x):
            if os.environ.get("SYNCSKEL_DEBUG"):
                print("RPN slots differ", key, i, x, x.x, y.x)
            x.x = [list(UNK) for _ in x.x]
            RPN_STATS["differ"] += 1
            continue
        for q in range(len(x.x)):
            if x.x[q] == y.x[q]:
                RPN_STATS["unk" if x.x[q] == UNK else "agree"] += 1
            else:
                if x.x[q] != UNK and y.x[q] != UNK:
                    RPN_STATS["differ"] += 1
                    if os.environ.get("SYNCSKEL_DEBUG"):
                        print("RPN differs", key, i, x, "\n  text", x.x[q], "\n  ast ", y.x[q])
                else:
                    RPN_STATS["unk"] += 1
                    if os.environ.get("SYNCSKEL_DEBUG"):
                        print("RPN one-sided", key, i, x, "\n  text", x.x[q], "\n  ast ", y.x[q])
                x.x[q] = list(UNK)
    return None


def lean_str(s):
    return '"' + s.replace("\\", "\\\\").replace('"', '\\"') + '"'


def lean_tk(t):
    if t[0] == "num":
        return ".num %d" % t[1]
    if t[0] in ("var", "op", "sub"):
        return ".%s %s" % (t[0], lean_str(t[1]))
    if t[0] == "call":
        return ".call %s %d %s" % (lean_str(t[1]), t[2], lean_str(t[3]))
    if t[0] == "mem":
        return ".mem %s %s" % (lean_str(t[1]), lean_str(t[2]))
    if t[0] == "lst":
        return ".lst %d" % t[1]
    return ".unk"


def lean_ident(key):
    return re.sub(r"\W", "_", key)


def main():
    if len(sys.argv) < 3:
        print("usage: syncskel.py <repo> <out.lean> [scratch_dir]")
        sys.exit(2)
    repo, outp = sys.argv[1], sys.argv[2]
    scratch = sys.argv[3] if len(sys.argv) > 3 else "/tmp"
    path = os.path.join(repo, HEADER)
    try:
        raw = open(path, encoding="utf-8", newline="").read()
    except OSError as e:
        raise TranslateError("cannot read %s: %s" % (HEADER, e.strerror))
    if "\r" in raw or any(ord(c) > 127 for c in raw):
        # clang's offsets are byte offsets: work on bytes-as-latin1 so that both passes index identically
        raw = open(path, "rb").read().decode("latin-1")
    tp = TextPass(raw)
    ap = AstPass(repo, scratch, raw)
    skels = []
    problems = []
    for key, rpath, name_toks, pred in FUNCS:
        tloc = tp.locate(rpath, name_toks, pred)
        tsk = tp.skeleton(tloc)
        af = ap.locate(rpath, name_toks, pred)
        ask = ap.skeleton(af)
        toff = tp.toks[tloc["body"][0]].off
        if toff != ap.body_offset:
            problems.append("%s: the text pass found the body at offset %d, clang at %d" % (key, toff, ap.body_offset))
            continue
        pr = compare(key, tsk, ask)
        if pr:
            problems.append(pr)
        for a in tsk:
            if a.k not in KINDS:
                raise TranslateError("internal: unknown action kind " + a.k)
        skels.append((key, tsk))
    aliases = []
    for rpath, name in ALIASES:
        tt = tp.alias(rpath, name)
        at = ap.alias(rpath, name)
        at1 = re.sub(r"\bcuckoohash_map<[^<>]*>", "cuckoohash_map", at)
        t_ids = [x for x in re.findall(r"[A-Za-z_]\w*", tt) if x not in ("std", "typename", "template")]
        a_ids = [x for x in re.findall(r"[A-Za-z_]\w*", at1) if x not in ("std", "typename", "template", "libcuckoo")]
        if t_ids != a_ids:
            problems.append("alias %s: text %r, AST %r" % (name, tt, at))
        aliases.append((name, tt))
    def type_ids(t, is_ast):
        if is_ast:
            t = re.sub(r"\bcuckoohash_map<[^<>]*>", "cuckoohash_map", t)
            t = re.sub(r"\b(libcuckoo|cuckoohash_map|locked_table)::", "", t)
        else:
            t = re.sub(r"\b(libcuckoo|cuckoohash_map|locked_table)::", "", t)
        return [x for x in re.findall(r"[A-Za-z_]\w*", t) if x not in ("std", "typename", "template", "mutable")]
    fields = []
    for rpath in FIELD_RECORDS:
        tf = tp.fields(rpath)
        af = ap.fields(rpath)
        if [n for n, _ in tf] != [n for n, _ in af] or any(type_ids(x[1], False) != type_ids(y[1], True) for x, y in zip(tf, af)):
            problems.append("data members of %s: text %r, AST %r" % ("::".join(rpath), tf, af))
        for n, ty in tf:
            fields.append(("::".join(rpath), n, ty))
    if problems:
        raise TranslateError("double extraction disagrees: " + " ;; ".join(problems))

    out = ["-- GENERATED by translate/syncskel.py from libcuckoo/cuckoohash_map.hh: the ordered skeleton of the",
           "-- synchronisation-relevant actions of every protocol function.  Text pass (comments, strings, LIBCUCKOO_VERIF",
           "-- branches, hook / debug / assert macros blanked; statement parser + vocabulary scanner) cross-checked action by",
           "-- action (kind, receiver, operands, structure markers, operands in postfix form) against clang's JSON AST of the",
           "-- class template pattern (all %d functions via the AST; no function needed the text-only fallback).  DO NOT EDIT." % len(skels),
           "namespace Cuckoo.Gen.Sync", "",
           "/-- kind of an action / structure marker -/",
           "inductive K"]
    line = " "
    for k in KINDS:
        if len(line) + len(k) + 3 > 118:
            out.append(line)
            line = " "
        line += " | " + k
    out.append(line)
    out += ["deriving DecidableEq, Repr", "",
            "/-- token of an operand in postfix form: `call f n t` = call of `f` (\".m\" = member `m`, the receiver is the",
            "first operand) with `n` operands, source text `t`; `mem m t` = member access; `sub t` = subscript; `lst n` = braced",
            "list of `n` elements; `op` = operator (`u!` `u*` `u&` `u-` prefix, `p++` postfix, `?:`); `unk` = not representable -/",
            "inductive Tk",
            "  | num (n : Nat) | var (s : String) | op (o : String) | call (f : String) (n : Nat) (t : String)",
            "  | mem (m : String) (t : String) | sub (t : String) | lst (n : Nat) | unk",
            "deriving DecidableEq, Repr", "",
            "/-- one action: kind, receiver text (\"\" = implicit `this` / none), operand texts, and the postfix forms `x`:",
            "calls: receiver (or `[]`) then every argument; `if_` / `loop`: the condition (range loop: the container);",
            "`decl` / `assign`: the initialiser / right-hand side; `step`: the new value; `ret` / `throw_`: the operand -/",
            "structure Act where",
            "  k : K",
            "  r : String",
            "  a : List String",
            "  x : List (List Tk)",
            "deriving DecidableEq, Repr", ""]
    for key, sk in skels:
        out.append("def %s : List Act := [" % lean_ident(key))
        rows = ["  ⟨.%s, %s, [%s], [%s]⟩" % (a.k, lean_str(a.r), ", ".join(lean_str(x) for x in a.a),
                                         ", ".join("[" + ", ".join(lean_tk(t) for t in e) + "]" for e in a.x)) for a in sk]
        out.append(",\n".join(rows))
        out.append("]")
        out.append("")
    out.append("def skeletons : List (String × List Act) := [")
    out.append(",\n".join("  (%s, %s)" % (lean_str(key), lean_ident(key)) for key, _ in skels))
    out += ["]", "", "/-- `using name = text;` inside cuckoohash_map -/",
            "def aliases : List (String × String) := ["]
    out.append(",\n".join("  (%s, %s)" % (lean_str(n), lean_str(t)) for n, t in aliases))
    out += ["]", "", "/-- non-static data members (record, name, type text) of the lock-manager records -/",
            "def fields : List (String × String × String) := ["]
    out.append(",\n".join("  (%s, %s, %s)" % (lean_str(r), lean_str(n), lean_str(t)) for r, n, t in fields))
    out += ["]", "", "end Cuckoo.Gen.Sync", ""]
    with open(outp, "w", encoding="utf-8") as fh:
        fh.write("\n".join(out))
    if os.environ.get("SYNCSKEL_DEBUG"):
        print("RPN operands:", RPN_STATS)


if __name__ == "__main__":
    try:
        main()
    except TranslateError as e:
        print("TRANSLATE-ERROR: %s" % str(e).replace("\n", " "))
        sys.exit(3)
    except (IndexError, KeyError, RecursionError) as e:
        print("TRANSLATE-ERROR: parser ran off the input (%s: %s)" % (type(e).__name__, e))
        sys.exit(3)
