// T-A / T-B / K1 shim: exposes the private static arithmetic of cuckoohash_map
// through the library's own `friend class UnitTestInternalAccess`.
// Compiled (a) by clang to LLVM IR for translate/ir2lean.py, (b) by g++ into the
// K1 differential harness (harness/k1_arith.cc includes this file).
#include <cstdint>
#include <cstddef>
#include <libcuckoo/cuckoohash_map.hh>

namespace libcuckoo {
class UnitTestInternalAccess {
public:
  template <class M> static size_t hashsize(size_t hp) { return M::hashsize(hp); }
  template <class M> static size_t hashmask(size_t hp) { return M::hashmask(hp); }
  template <class M> static uint8_t partial_key(size_t h) { return M::partial_key(h); }
  template <class M> static size_t index_hash(size_t hp, size_t hv) { return M::index_hash(hp, hv); }
  template <class M> static size_t alt_index(size_t hp, uint8_t p, size_t i) { return M::alt_index(hp, p, i); }
  template <class M> static size_t lock_ind(size_t i) { return M::lock_ind(i); }
  template <class M> static size_t reserve_calc(size_t n) { return M::reserve_calc(n); }
  template <class M> static constexpr size_t max_num_locks() { return M::kMaxNumLocks; }
  template <class M> static constexpr size_t max_bfs_path_len() { return M::MAX_BFS_PATH_LEN; }
  // MAX_CUCKOO_COUNT is private to b_queue; recover it from the size of its slots_ array
  template <class M> static constexpr size_t max_cuckoo_count() {
    return (sizeof(typename M::b_queue) - 2 * sizeof(size_t)) / sizeof(typename M::b_slot);
  }
  template <class M> static constexpr size_t pathcode_bits() {
    return 8 * sizeof(decltype(std::declval<typename M::b_slot>().pathcode));
  }
  template <class M> static constexpr size_t depth_bits() {
    return 8 * sizeof(decltype(std::declval<typename M::b_slot>().depth));
  }
  template <class M> static constexpr size_t partial_bits() { return 8 * sizeof(typename M::partial_t); }
  template <class M> static constexpr bool is_simple() { return M::is_simple(); }
};
} // namespace libcuckoo

using VM4 = libcuckoo::cuckoohash_map<int, int>;
using VA = libcuckoo::UnitTestInternalAccess;

extern "C" {
size_t v_hashsize(size_t hp) { return VA::hashsize<VM4>(hp); }
size_t v_hashmask(size_t hp) { return VA::hashmask<VM4>(hp); }
uint8_t v_partial_key(size_t h) { return VA::partial_key<VM4>(h); }
size_t v_index_hash(size_t hp, size_t hv) { return VA::index_hash<VM4>(hp, hv); }
size_t v_alt_index(size_t hp, uint8_t p, size_t i) { return VA::alt_index<VM4>(hp, p, i); }
size_t v_lock_ind(size_t i) { return VA::lock_ind<VM4>(i); }
size_t v_reserve_calc(size_t n) { return VA::reserve_calc<VM4>(n); }
}
