#!/usr/bin/env python3
"""T-D: extracts, for every extern "C" entry point of libcuckoo-c/cuckoo_table_template.cc, the facts the C14/C15
theorems are about, and emits them as a Lean table (Cuckoo/Gen/CApi.lean).

Two independent extractions must agree (else the translator reports an error):
  (a) a brace-matching scan of the source text;
  (b) a walk over clang's JSON AST of an int->int instantiation (member calls, try/catch, delete).

usage: capi_table.py <repo> <out.lean> [scratch_dir]
"""
import json
import os
import re
import subprocess
import sys


class TranslateError(Exception):
    pass


PREFIX = {"CUCKOO": "", "CUCKOO_LT": "_locked_table", "CUCKOO_IT": "_iterator", "CUCKOO_CONST_IT": "_const_iterator"}


def strip_comments(s):
    s = re.sub(r"//[^\n]*", "", s)
    return re.sub(r"/\*.*?\*/", "", s, flags=re.S)


def text_extract(src):
    src = strip_comments(src)
    funcs = []
    for m in re.finditer(r"\n([A-Za-z_][\w \*]*?[\s\*])(CUCKOO(?:_LT|_IT|_CONST_IT)?)\((_\w+)\)\s*\(", src):
        ret, mac, name = m.group(1).strip(), m.group(2), m.group(3)
        # match the parameter list (may contain function-pointer parameters)
        i = m.end()
        depth = 1
        while depth and i < len(src):
            if src[i] == "(":
                depth += 1
            elif src[i] == ")":
                depth -= 1
            i += 1
        mm = re.match(r"\s*\{", src[i:])
        if not mm:
            continue  # a declaration, not a definition
        i += mm.end()
        body_start = i
        depth = 1
        while depth and i < len(src):
            if src[i] == "{":
                depth += 1
            elif src[i] == "}":
                depth -= 1
            i += 1
        body = src[body_start:i - 1]
        full = PREFIX[mac] + name
        members = re.findall(r"(?:tbl->t|ltbl->lt|lt|->lt)\s*\.\s*(\w+)\s*\(", body)
        members += re.findall(r"tbl->t\.(\w+)\(", body)
        # a range-based for over the table object IS a call of begin() and end()
        if re.search(r"for\s*\([^;()]*:\s*(?:tbl->t|ltbl->lt|lt)\s*\)", body):
            members += ["begin", "end"]
        catches = re.findall(r"catch\s*\(\s*([\w:]+)", body)
        # failure paths that return NULL once the object exists (after the handler that guards its allocation) without freeing it
        unfreed = 0
        pn = body.find("new ")
        if pn >= 0:
            mc = re.search(r"catch\s*\([^)]*\)\s*\{[^{}]*\}", body[pn:])
            ready = pn + (mc.end() if mc else 0)
            for mb in re.finditer(r"\{([^{}]*return\s+NULL\s*;[^{}]*)\}", body[ready:]):
                if not re.search(r"\bdelete\b", mb.group(1)):
                    unfreed += 1
        f = {
            "name": full,
            "ret": ret,
            "members": sorted(set(members)),
            "has_try": "try" in re.findall(r"\btry\b", body),
            "catches": sorted(set(catches)),
            "sets_enomem": bool(re.search(r"errno\s*=\s*ENOMEM", body)),
            "failure_ret": sorted(set(re.findall(r"catch[^}]*?return\s+([^;]+);", body, flags=re.S))),
            "resets_limits": bool(re.search(r"minimum_load_factor\s*\(\s*0\s*\)", body)) and
                             bool(re.search(r"maximum_hashpower\s*\(\s*libcuckoo::NO_MAXIMUM_HASHPOWER\s*\)", body)),
            "news": len(re.findall(r"\bnew\b", body)),
            "deletes": len(re.findall(r"\bdelete\b", body)),
            "freads": len(re.findall(r"\bfread\s*\(", body)),
            "fwrites": len(re.findall(r"\bfwrite\s*\(", body)),
            "null_returns": len(re.findall(r"return\s+NULL\s*;", body)),
            "unfreed": unfreed,
        }
        funcs.append(f)
    if len(funcs) < 40:
        raise TranslateError("only %d entry points recognised in cuckoo_table_template.cc" % len(funcs))
    return funcs


def ast_extract(repo, scratch):
    os.makedirs(scratch, exist_ok=True)
    inst = os.path.join(scratch, "capi_inst.cc")
    with open(inst, "w") as f:
        f.write('extern "C" {\n#define CUCKOO_TABLE_NAME vt\n#define CUCKOO_KEY_TYPE int\n#define CUCKOO_MAPPED_TYPE int\n'
                '#include <libcuckoo-c/cuckoo_table_template.h>\n}\n#include <libcuckoo-c/cuckoo_table_template.cc>\n')
    p = subprocess.run(["clang++-14", "-std=c++17", "-fsyntax-only", "-I" + repo, "-Xclang", "-ast-dump=json",
                        "-Xclang", "-ast-dump-filter=vt_", inst], stdout=subprocess.PIPE, stderr=subprocess.PIPE, universal_newlines=True)
    if p.returncode != 0:
        raise TranslateError("clang could not parse the C wrapper instantiation:\n" + p.stderr[-1500:])
    # the filtered dump is a sequence of JSON objects
    dec = json.JSONDecoder()
    txt = p.stdout
    i = 0
    out = {}
    while True:
        j = txt.find("{", i)
        if j < 0:
            break
        try:
            obj, k = dec.raw_decode(txt, j)
        except ValueError:
            break
        i = k
        if obj.get("kind") != "FunctionDecl" or not obj.get("name", "").startswith("vt_"):
            continue
        if not any(x.get("kind") == "CompoundStmt" for x in obj.get("inner", [])):
            continue
        info = {"members": set(), "catches": set(), "has_try": False, "deletes": 0, "news": 0}

        def walk(n):
            k_ = n.get("kind")
            if k_ == "CXXTryStmt":
                info["has_try"] = True
            if k_ == "CXXCatchStmt":
                for c in n.get("inner", []):
                    if c.get("kind") == "VarDecl":
                        t = c.get("type", {}).get("qualType", "")
                        info["catches"].add(t.replace("&", "").replace("const", "").strip())
            if k_ == "MemberExpr":
                nm = n.get("name", "")
                ty = n.get("type", {}).get("qualType", "")
                if "bound member function" in ty and nm and not nm.startswith("operator") and nm != "get":
                    info["members"].add(nm)
            if k_ == "CXXDeleteExpr":
                info["deletes"] += 1
            if k_ == "CXXNewExpr":
                info["news"] += 1
            for c in n.get("inner", []) or []:
                if isinstance(c, dict):
                    walk(c)
        walk(obj)
        out[obj["name"][2:]] = info
    if len(out) < 40:
        raise TranslateError("clang AST: only %d entry points found" % len(out))
    return out


def lean_str(s):
    return '"' + s.replace("\\", "\\\\").replace('"', '\\"') + '"'


def main():
    repo, outp = sys.argv[1], sys.argv[2]
    scratch = sys.argv[3] if len(sys.argv) > 3 else "/tmp"
    src = open(os.path.join(repo, "libcuckoo-c", "cuckoo_table_template.cc")).read()
    funcs = text_extract(src)
    ast = ast_extract(repo, scratch)
    problems = []
    for f in funcs:
        a = ast.get(f["name"])
        if a is None:
            problems.append("%s: not found in the clang AST" % f["name"])
            continue
        if a["has_try"] != f["has_try"]:
            problems.append("%s: try/catch disagreement (text %s, AST %s)" % (f["name"], f["has_try"], a["has_try"]))
        ac = sorted(x.split("::")[-1] for x in a["catches"])
        tc = sorted(x.split("::")[-1] for x in f["catches"])
        if ac != tc:
            problems.append("%s: catch types disagree (text %s, AST %s)" % (f["name"], tc, ac))
        tm = set(f["members"])
        am = set(a["members"])
        if not tm <= am:
            problems.append("%s: member calls disagree (text %s, AST %s)" % (f["name"], sorted(tm), sorted(am)))
        if a["deletes"] != f["deletes"] or a["news"] != f["news"]:
            problems.append("%s: new/delete counts disagree (text %d/%d, AST %d/%d)" % (f["name"], f["news"], f["deletes"], a["news"], a["deletes"]))
    extra = set(ast) - {f["name"] for f in funcs}
    if extra:
        problems.append("entry points only in the AST: %s" % sorted(extra))
    if problems:
        raise TranslateError("double extraction disagrees:\n  " + "\n  ".join(problems))
    out = ["-- GENERATED by translate/capi_table.py from /repo/libcuckoo-c/cuckoo_table_template.cc (text scan, cross-checked",
           "-- against clang's AST of an int->int instantiation). DO NOT EDIT.",
           "namespace Cuckoo.Gen.CApi", "",
           "structure Entry where",
           "  name : String            -- entry point (suffix after the table name)",
           "  members : List String    -- C++ members of the table / locked_table it calls",
           "  hasTry : Bool",
           "  catches : List String    -- exception types caught",
           "  setsEnomem : Bool        -- a handler sets errno = ENOMEM",
           "  failureRet : List String -- what the handlers return",
           "  resetsLimits : Bool      -- calls minimum_load_factor(0) and maximum_hashpower(NO_MAXIMUM_HASHPOWER)",
           "  news : Nat",
           "  deletes : Nat",
           "  freads : Nat",
           "  fwrites : Nat",
           "  nullReturns : Nat",
           "  unfreedFailures : Nat    -- `return NULL` paths, after the object exists, that do not `delete` it",
           "deriving Repr, DecidableEq", "",
           "def entries : List Entry := ["]
    rows = []
    for f in funcs:
        rows.append("  { name := %s, members := [%s], hasTry := %s, catches := [%s], setsEnomem := %s, failureRet := [%s], resetsLimits := %s, "
                    "news := %d, deletes := %d, freads := %d, fwrites := %d, nullReturns := %d, unfreedFailures := %d }" % (
                        lean_str(f["name"]), ", ".join(lean_str(x) for x in f["members"]), "true" if f["has_try"] else "false",
                        ", ".join(lean_str(x) for x in f["catches"]), "true" if f["sets_enomem"] else "false",
                        ", ".join(lean_str(x.strip()) for x in f["failure_ret"]), "true" if f["resets_limits"] else "false",
                        f["news"], f["deletes"], f["freads"], f["fwrites"], f["null_returns"], f["unfreed"]))
    out.append(",\n".join(rows))
    out += ["]", "", "end Cuckoo.Gen.CApi", ""]
    with open(outp, "w") as fh:
        fh.write("\n".join(out))


if __name__ == "__main__":
    try:
        main()
    except TranslateError as e:
        print("TRANSLATE-ERROR: %s" % e)
        sys.exit(3)
