#!/usr/bin/env python3
"""T-C: memory order of every protocol-relevant atomic access, by enclosing function.

(a) from LLVM IR (clang -O1 -fno-inline: the always_inline std::atomic members are folded into their libcuckoo caller,
    so every access has a constant ordering), guard OFF (the shipped atomics, not the instrumented wrappers);
(b) cross-check: the `std::memory_order_*` tokens in the source text of the same functions.
usage: memorder.py <repo> <out.lean> [scratch]
"""
import os
import re
import subprocess
import sys


class TranslateError(Exception):
    pass


TU = r'''
#include <libcuckoo/cuckoohash_map.hh>
#include <sstream>
using M = libcuckoo::cuckoohash_map<int,int>;
int use(M& m){
  int v=0; m.insert(1,2); m.find(1,v); m.erase(1); m.rehash(3); m.reserve(100); m.clear();
  m.minimum_load_factor(0.1); m.maximum_hashpower(30); m.max_num_worker_threads(0);
  { auto lt=m.lock_table(); std::stringstream ss; ss << lt; ss >> lt; }
  M b(m); b.swap(m);
  return v + (int)m.size() + (int)m.minimum_load_factor() + (int)m.maximum_hashpower()+(int)m.max_num_worker_threads();
}
'''

# (short name as it appears demangled, source-level function name for the text scan)
WANTED = {
    "spinlock::lock()": "lock",
    "spinlock::unlock()": "unlock",
    "bucket_container::hashpower() const": "hashpower_get",
    "bucket_container::hashpower(unsigned long)": "hashpower_set",
    "load_resize_counter() const": "load_resize_counter",
    "cuckoo_fast_double": "cuckoo_fast_double",
    "cuckoo_expand_simple": "cuckoo_expand_simple",
    "locked_table::bump_resize_counter()": "bump_resize_counter",
    "num_remaining_lazy_rehash_locks(unsigned long) const": "lazy_set",
    "decrement_num_remaining_lazy_rehash_locks() const": "lazy_dec",
}


def ir_extract(repo, scratch):
    os.makedirs(scratch, exist_ok=True)
    src = os.path.join(scratch, "memorder_tu.cc")
    ll = os.path.join(scratch, "memorder.ll")
    open(src, "w").write(TU)
    p = subprocess.run(["clang++-14", "-std=c++17", "-O1", "-fno-inline", "-DNDEBUG", "-S", "-emit-llvm", "-I" + repo, src, "-o", ll],
                       stdout=subprocess.PIPE, stderr=subprocess.PIPE, universal_newlines=True)
    if p.returncode != 0:
        raise TranslateError("clang failed:\n" + p.stderr[-1500:])
    rows, cur = [], None
    for line in open(ll):
        m = re.match(r"define .*? @([\w.$]+)\(", line)
        if m:
            cur = m.group(1)
        if line.startswith("}"):
            cur = None
        mm = re.search(r"(atomicrmw \w+|load atomic|store atomic|cmpxchg|fence).*?(seq_cst|acq_rel|acquire|release|monotonic|unordered)( |,|$)", line)
        if mm and cur:
            rows.append((cur, mm.group(1), mm.group(2)))
    names = sorted(set(r[0] for r in rows))
    dem = subprocess.run(["c++filt"] + names, stdout=subprocess.PIPE, universal_newlines=True).stdout.splitlines()
    d = dict(zip(names, dem))
    out = {}
    for mangled, op, order in rows:
        dn = d[mangled]
        for pat, short in WANTED.items():
            key = pat
            if pat.startswith("bucket_container::"):
                ok = "bucket_container<" in dn and dn.endswith("::" + pat.split("::", 1)[1])
            elif pat in ("cuckoo_fast_double", "cuckoo_expand_simple"):
                ok = ("::" + pat + "<") in dn
            else:
                ok = "cuckoohash_map<" in dn and dn.endswith("::" + pat)
            if ok:
                out.setdefault(short, []).append((op, order))
    return out


def text_extract(repo):
    res = {}
    hm = open(os.path.join(repo, "libcuckoo", "cuckoohash_map.hh")).read()
    bc = open(os.path.join(repo, "libcuckoo", "bucket_container.hh")).read()

    def body(src, header_re):
        m = re.search(header_re, src)
        if not m:
            raise TranslateError("source scan: function not found: " + header_re)
        i = src.index("{", m.end() - 1)
        depth, j = 1, i + 1
        while depth:
            if src[j] == "{":
                depth += 1
            elif src[j] == "}":
                depth -= 1
            j += 1
        return src[i:j]

    def orders(b):
        # strip the verification-hook branches: the shipped code is the #else branch
        b = re.sub(r"#ifdef LIBCUCKOO_VERIF.*?#else(.*?)#endif", r"\1", b, flags=re.S)
        return re.findall(r"memory_order_(\w+)", b)
    res["lock"] = orders(body(hm, r"void lock\(\) noexcept \{"))
    res["unlock"] = orders(body(hm, r"void unlock\(\) noexcept \{"))
    res["hashpower_get"] = orders(body(bc, r"size_type hashpower\(\) const \{"))
    res["hashpower_set"] = orders(body(bc, r"void hashpower\(size_type val\) \{"))
    res["load_resize_counter"] = orders(body(hm, r"ResizeCounter load_resize_counter\(\) const \{"))
    res["cuckoo_fast_double"] = orders(body(hm, r"cuckoo_status cuckoo_fast_double\(size_type current_hp\) \{"))
    res["cuckoo_expand_simple"] = orders(body(hm, r"cuckoo_status cuckoo_expand_simple\(size_type new_hp\) \{"))
    res["bump_resize_counter"] = orders(body(hm, r"void bump_resize_counter\(\) \{"))
    res["lazy_set"] = orders(body(hm, r"void num_remaining_lazy_rehash_locks\(size_type n\) const \{"))
    res["lazy_dec"] = orders(body(hm, r"void decrement_num_remaining_lazy_rehash_locks\(\) const \{"))
    return res


NORM = {"acq_rel": "acq_rel", "acquire": "acquire", "release": "release", "seq_cst": "seq_cst", "relaxed": "monotonic", "monotonic": "monotonic"}


def main():
    repo, outp = sys.argv[1], sys.argv[2]
    scratch = sys.argv[3] if len(sys.argv) > 3 else "/tmp"
    ir = ir_extract(repo, scratch)
    tx = text_extract(repo)
    problems = []
    for short in WANTED.values():
        a = sorted(o for _, o in ir.get(short, []))
        b = sorted(NORM.get(o, o) for o in tx.get(short, []))
        if not a:
            problems.append("%s: no atomic access found in the IR" % short)
        elif a != b:
            problems.append("%s: IR orders %s, source text orders %s" % (short, a, b))
    if problems:
        raise TranslateError("double extraction disagrees:\n  " + "\n  ".join(problems))
    out = ["-- GENERATED by translate/memorder.py from the LLVM IR of /repo/libcuckoo (guard off), cross-checked against the",
           "-- std::memory_order tokens in the source text. DO NOT EDIT.",
           "namespace Cuckoo.Gen.MemOrder", "",
           "inductive Ord | monotonic | acquire | release | acq_rel | seq_cst", "deriving DecidableEq, Repr", "",
           "/-- (function, kind of access, ordering) -/",
           "def accesses : List (String × String × Ord) := ["]
    rows = []
    for short in WANTED.values():
        for op, order in ir[short]:
            rows.append('  ("%s", "%s", Ord.%s)' % (short, op, order))
    out.append(",\n".join(rows))
    out += ["]", "", "end Cuckoo.Gen.MemOrder", ""]
    open(outp, "w").write("\n".join(out))


if __name__ == "__main__":
    try:
        main()
    except TranslateError as e:
        print("TRANSLATE-ERROR: %s" % e)
        sys.exit(3)
