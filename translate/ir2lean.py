#!/usr/bin/env python3
"""T-A: translate the LLVM IR (-O0 + mem2reg) of libcuckoo's static integer
functions into Lean 4 definitions over BitVec.

Supported: single-block functions and functions with ONE natural loop of the
shape  entry -> header(phis; condbr body|exit) -> body* -> header, exit(ret).
Anything else raises TranslateError (reported as a broken correspondence).

usage: ir2lean.py <file.ll> <out.lean>
"""
import re
import sys

WANTED = ["hashsize", "hashmask", "partial_key", "index_hash", "alt_index",
          "lock_ind", "reserve_calc", "slot_per_bucket"]


class TranslateError(Exception):
    pass


def demangled_short(name):
    # _ZN9libcuckoo14cuckoohash_mapI...EE<len><name>E<args>
    m = re.search(r"Lm\d+EE(\d+)([A-Za-z_]+)", name)
    if not m:
        return None
    n = int(m.group(1))
    return m.group(2)[:n]


def parse_functions(text):
    funcs = {}
    cur = None
    for line in text.splitlines():
        m = re.match(r"define .*? (i\d+|void) @([\w.$]+)\((.*?)\)[^{]*\{", line)
        if m:
            cur = {"ret": m.group(1), "name": m.group(2), "args": m.group(3), "body": []}
            continue
        if cur is not None:
            if line.startswith("}"):
                funcs[cur["name"]] = cur
                cur = None
            else:
                cur["body"].append(line)
    return funcs


def ty_width(t):
    m = re.fullmatch(r"i(\d+)", t)
    if not m:
        raise TranslateError("unsupported type " + t)
    return int(m.group(1))


class Fn:
    def __init__(self, short, f, resolve):
        self.short = short
        self.f = f
        self.resolve = resolve  # mangled callee -> short lean name
        self.widths = {}
        self.args = []
        for a in [x.strip() for x in f["args"].split(",") if x.strip()]:
            parts = a.split()
            t, v = parts[0], parts[-1]
            self.widths[v] = ty_width(t)
            self.args.append(v)
        self.retw = ty_width(f["ret"])
        self.blocks = []  # (label, [lines])
        label = "%entry"
        lines = []
        for ln in f["body"]:
            s = ln.strip()
            if not s or s.startswith(";"):
                continue
            m = re.match(r"(\d+):", s)
            if m:
                self.blocks.append((label, lines))
                label = "%" + m.group(1)
                lines = []
                continue
            lines.append(s)
        self.blocks.append((label, lines))

    def lv(self, v):
        if v.startswith("%"):
            n = v[1:]
            if n.startswith("."):
                return "p" + n[1:].replace(".", "_")
            if v in self.args:
                return "a" + n
            return "v" + n
        raise TranslateError("bad value " + v)

    def val(self, v, w):
        v = v.strip()
        if v.startswith("%"):
            return self.lv(v)
        if v in ("true", "false"):
            return "1#1" if v == "true" else "0#1"
        n = int(v)
        if n < 0:
            n += 1 << w
        return "(%d#%d)" % (n, w)

    def instr(self, s):
        """returns ('let', name, width, expr) | ('ret', expr) | ('br', label) |
        ('cbr', cond, l1, l2) | ('phi', name, width, [(val,label)])"""
        m = re.match(r"ret (i\d+) (.+)$", s)
        if m:
            return ("ret", self.val(m.group(2), ty_width(m.group(1))))
        m = re.match(r"br label (%\d+)", s)
        if m:
            return ("br", m.group(1))
        m = re.match(r"br i1 (%[\w.]+), label (%\d+), label (%\d+)", s)
        if m:
            return ("cbr", self.lv(m.group(1)), m.group(2), m.group(3))
        m = re.match(r"(%[\w.]+) = (.+)$", s)
        if not m:
            raise TranslateError("unsupported instruction: " + s)
        dst, rhs = m.group(1), m.group(2)
        rhs = re.sub(r",\s*!llvm\.\S+.*$", "", rhs)
        mm = re.match(r"phi (i\d+) (.+)$", rhs)
        if mm:
            w = ty_width(mm.group(1))
            self.widths[dst] = w
            inc = re.findall(r"\[\s*([^,\]]+),\s*(%\w+)\s*\]", mm.group(2))
            return ("phi", self.lv(dst), w, [(self.val(v, w), l) for v, l in inc])
        mm = re.match(r"(add|sub|mul|udiv|urem|and|or|xor|shl|lshr|ashr)( nuw| nsw| exact)* (i\d+) ([^,]+), (.+)$", rhs)
        if mm:
            op, w = mm.group(1), ty_width(mm.group(3))
            a, b = self.val(mm.group(4), w), self.val(mm.group(5), w)
            self.widths[dst] = w
            sym = {"add": "+", "sub": "-", "mul": "*", "udiv": "/", "urem": "%",
                   "and": "&&&", "or": "|||", "xor": "^^^", "shl": "<<<", "lshr": ">>>"}
            if op == "ashr":
                e = "BitVec.sshiftRight' %s %s" % (a, b)
            else:
                e = "%s %s %s" % (a, sym[op], b)
            return ("let", self.lv(dst), w, e)
        mm = re.match(r"(trunc|zext|sext) (i\d+) (\S+) to (i\d+)$", rhs)
        if mm:
            op, w1, w2 = mm.group(1), ty_width(mm.group(2)), ty_width(mm.group(4))
            a = self.val(mm.group(3), w1)
            self.widths[dst] = w2
            if op == "sext":
                e = "BitVec.signExtend %d %s" % (w2, a)
            else:
                e = "BitVec.setWidth %d %s" % (w2, a)
            return ("let", self.lv(dst), w2, e)
        mm = re.match(r"icmp (eq|ne|ult|ule|ugt|uge|slt|sle|sgt|sge) (i\d+) ([^,]+), (.+)$", rhs)
        if mm:
            op, w = mm.group(1), ty_width(mm.group(2))
            a, b = self.val(mm.group(3), w), self.val(mm.group(4), w)
            self.widths[dst] = 1
            tbl = {"eq": "(%s == %s)", "ne": "(%s != %s)", "ult": "BitVec.ult %s %s",
                   "ule": "BitVec.ule %s %s", "slt": "BitVec.slt %s %s", "sle": "BitVec.sle %s %s"}
            if op in ("ugt", "uge", "sgt", "sge"):
                op = {"ugt": "ult", "uge": "ule", "sgt": "slt", "sge": "sle"}[op]
                a, b = b, a
            e = "BitVec.ofBool (%s)" % (tbl[op] % (a, b))
            return ("let", self.lv(dst), 1, e)
        mm = re.match(r"select i1 (\S+), (i\d+) ([^,]+), (i\d+) (.+)$", rhs)
        if mm:
            w = ty_width(mm.group(2))
            self.widths[dst] = w
            e = "if %s == 1#1 then %s else %s" % (self.val(mm.group(1), 1), self.val(mm.group(3), w), self.val(mm.group(5), w))
            return ("let", self.lv(dst), w, e)
        mm = re.match(r"call (?:noundef |zeroext |signext )*(i\d+) @([\w.$]+)\((.*)\)$", rhs)
        if mm:
            w = ty_width(mm.group(1))
            callee = self.resolve(mm.group(2))
            args = []
            for a in [x.strip() for x in mm.group(3).split(",") if x.strip()]:
                parts = a.split()
                args.append(self.val(parts[-1], ty_width(parts[0])))
            self.widths[dst] = w
            return ("let", self.lv(dst), w, " ".join([callee] + args) if args else callee)
        raise TranslateError("unsupported instruction: " + s)

    def straight(self, lines, indent="  "):
        out, term = [], None
        for s in lines:
            ins = self.instr(s)
            if ins[0] == "let":
                out.append("%slet %s : BitVec %d := %s" % (indent, ins[1], ins[2], ins[3]))
            else:
                term = ins
        return out, term

    def emit(self):
        params = " ".join("(%s : BitVec %d)" % (self.lv(a), self.widths[a]) for a in self.args)
        if len(self.blocks) == 1:
            body, term = self.straight(self.blocks[0][1])
            if term is None or term[0] != "ret":
                raise TranslateError(self.short + ": no ret")
            return "def %s %s: BitVec %d :=\n%s\n  %s\n" % (
                self.short, params + " " if params else "", self.retw, "\n".join(body), term[1]) \
                if body else "def %s %s: BitVec %d :=\n  %s\n" % (self.short, params + " " if params else "", self.retw, term[1])
        return self.emit_loop(params)

    def emit_loop(self, params):
        labels = [b[0] for b in self.blocks]
        blk = dict(self.blocks)
        entry_body, eterm = self.straight(blk["%entry"])
        if eterm is None or eterm[0] != "br":
            raise TranslateError(self.short + ": entry must branch unconditionally to the loop header")
        header = eterm[1]
        hins = [self.instr(s) for s in blk[header]]
        phis = [i for i in hins if i[0] == "phi"]
        hlets = [i for i in hins if i[0] == "let"]
        hterm = hins[-1]
        if hterm[0] != "cbr" or not phis:
            raise TranslateError(self.short + ": loop header shape not supported")
        cond, l_body, l_exit = hterm[1], hterm[2], hterm[3]
        # follow the body chain back to the header
        body_lets = []
        cur, seen = l_body, set()
        last = None
        while cur != header:
            if cur in seen or cur not in blk:
                raise TranslateError(self.short + ": loop body is not a simple chain")
            seen.add(cur)
            lets, t = self.straight(blk[cur], indent="      ")
            body_lets += lets
            if t is None or t[0] != "br":
                raise TranslateError(self.short + ": loop body must be straight-line")
            last = cur
            cur = t[1]
        exit_lets, xterm = self.straight(blk[l_exit], indent="      ")
        if xterm is None or xterm[0] != "ret":
            raise TranslateError(self.short + ": loop exit must return")
        used = set(labels) - {"%entry", header, l_exit} - seen
        if used:
            raise TranslateError(self.short + ": unsupported control flow (extra blocks %s)" % sorted(used))
        # entry-defined names closed over by the loop
        entry_names = [re.match(r"\s*let (\w+) : BitVec (\d+)", l).groups() for l in entry_body]
        clos = " ".join("(%s : BitVec %d)" % (self.lv(a), self.widths[a]) for a in self.args)
        clos += "".join(" (%s : BitVec %s)" % (n, w) for n, w in entry_names)
        phip = " ".join("(%s : BitVec %d)" % (p[1], p[2]) for p in phis)
        init = []
        nxt = []
        for p in phis:
            i0 = [v for v, l in p[3] if l == "%entry" or l == "%1"]
            i1 = [v for v, l in p[3] if l == last]
            if len(i0) != 1 or len(i1) != 1:
                raise TranslateError(self.short + ": phi incoming edges not understood")
            init.append(i0[0])
            nxt.append(i1[0])
        argnames = " ".join([self.lv(a) for a in self.args] + [n for n, _ in entry_names])
        out = []
        out.append("/-- loop of `%s`; `none` = fuel exhausted -/" % self.short)
        out.append("def %s.loop (fuel : Nat) %s %s : Option (BitVec %d) :=" % (self.short, clos, phip, self.retw))
        out.append("  match fuel with")
        out.append("  | 0 => none")
        out.append("  | fuel + 1 =>")
        for i in hlets:
            out.append("    let %s : BitVec %d := %s" % (i[1], i[2], i[3]))
        out.append("    if %s == 1#1 then" % cond)
        out += body_lets
        out.append("      %s.loop fuel %s %s" % (self.short, argnames, " ".join(nxt)))
        out.append("    else")
        out += exit_lets
        out.append("      some %s" % xterm[1])
        out.append("")
        out.append("def %s %s: Option (BitVec %d) :=" % (self.short, params + " " if params else "", self.retw))
        out += entry_body
        out.append("  %s.loop 66 %s %s" % (self.short, argnames, " ".join(init)))
        return "\n".join(out) + "\n"


def translate(text):
    funcs = parse_functions(text)
    by_short = {}
    for name, f in funcs.items():
        if "cuckoohash_map" not in name or "UnitTestInternalAccess" in name:
            continue
        sh = demangled_short(name)
        if sh in WANTED:
            by_short[sh] = (name, f)
    missing = [w for w in WANTED if w not in by_short]
    if missing:
        raise TranslateError("functions not found in IR: %s" % missing)
    mangled = {v[0]: k for k, v in by_short.items()}

    def resolve(m):
        if m not in mangled:
            raise TranslateError("call to untranslated function " + m)
        return mangled[m]

    # dependency order
    order, done = [], set()

    def visit(sh):
        if sh in done:
            return
        done.add(sh)
        for ln in by_short[sh][1]["body"]:
            m = re.search(r"call .*? @([\w.$]+)\(", ln)
            if m:
                visit(resolve(m.group(1)))
        order.append(sh)

    for w in WANTED:
        visit(w)
    out = ["-- GENERATED by translate/ir2lean.py from the LLVM IR (clang -O0 + mem2reg) of",
           "-- /repo/libcuckoo/cuckoohash_map.hh (instantiation cuckoohash_map<int,int>). DO NOT EDIT.",
           "namespace Cuckoo.Gen", ""]
    for sh in order:
        out.append(Fn(sh, by_short[sh][1], resolve).emit())
    out.append("end Cuckoo.Gen")
    return "\n".join(out) + "\n"


if __name__ == "__main__":
    try:
        res = translate(open(sys.argv[1]).read())
    except TranslateError as e:
        print("TRANSLATE-ERROR: %s" % e)
        sys.exit(3)
    open(sys.argv[2], "w").write(res)
