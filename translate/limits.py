#!/usr/bin/env python3
"""T-F: the decision logic of the resize limits, from the source text (C10, C15).

For `check_resize_validity`, `minimum_load_factor(double)` and `maximum_hashpower(size_type)` of cuckoohash_map the
translator extracts the ordered list of guards `if (a1 && a2 ...) { throw X / return Y; }` (an `else if` chain is the
same thing), each atom as (lhs, operator, rhs) with locals that are initialised once from a call resolved to that call,
followed by what the function does when no guard fires (`return ok`, or the release store of the setting).
Two independent passes over the comment-free text must agree: (A) a character-level statement scanner with brace
matching, (B) a regular-expression pass over the body flattened to one line.  Output: lean/Cuckoo/Gen/Limits.lean.
Exit 3 with `TRANSLATE-ERROR: ...` when a function is not found or the passes disagree.

usage: limits.py <repo> <out.lean>
"""
import re
import sys


class TE(Exception):
    pass


def strip_comments(src):
    out, i, n = [], 0, len(src)
    while i < n:
        c = src[i]
        if src.startswith("//", i):
            j = src.find("\n", i)
            j = n if j < 0 else j
            out.append(" " * (j - i))
            i = j
        elif src.startswith("/*", i):
            j = src.find("*/", i)
            j = n if j < 0 else j + 2
            out.append(re.sub(r"[^\n]", " ", src[i:j]))
            i = j
        elif c == '"':
            j = i + 1
            while j < n and src[j] != '"':
                j += 2 if src[j] == "\\" else 1
            out.append('"' + "s" * (j - i - 1) + '"')
            i = j + 1
        else:
            out.append(c)
            i += 1
    return "".join(out)


def drop_hooks(src):
    src = re.sub(r"LIBCUCKOO_VERIF_EVENT\s*\((?:[^()]|\((?:[^()]|\([^()]*\))*\))*\)\s*;", "", src)
    src = re.sub(r"LIBCUCKOO_DBG\s*\((?:[^()]|\((?:[^()]|\([^()]*\))*\))*\)\s*;", "", src)
    return src


def body_of(src, signature_re):
    """the body of the one definition matching the signature that is not a forwarding wrapper (`map_.get().f(...)`)"""
    bodies = []
    for m in re.finditer(signature_re, src):
        i = src.index("{", m.end() - 1)
        depth, j = 0, i
        while j < len(src):
            if src[j] == "{":
                depth += 1
            elif src[j] == "}":
                depth -= 1
                if depth == 0:
                    break
            j += 1
        else:
            raise TE("unbalanced braces")
        b = src[i + 1:j]
        if "map_.get()" not in b:
            bodies.append(b)
    if len(bodies) != 1:
        raise TE("%d definitions match /%s/" % (len(bodies), signature_re))
    return bodies[0]


def norm(s):
    s = re.sub(r"\s+", " ", s.strip())
    s = re.sub(r"\s*([(){}<>=!&|,;:+\-*])\s*", r"\1", s)
    return s


def atoms(cond, locals_):
    res = []
    for a in cond.split("&&"):
        a = norm(a)
        m = re.match(r"^(.*?)(<=|>=|==|!=|<|>)(.*)$", a)
        if m and "(" not in m.group(1).replace("()", ""):
            lhs, op, rhs = m.group(1), m.group(2), m.group(3)
        elif m:
            lhs, op, rhs = m.group(1), m.group(2), m.group(3)
        else:
            lhs, op, rhs = a, "", ""
        res.append((locals_.get(lhs, lhs), op, locals_.get(rhs, rhs)))
    return res


def action_of(stmt):
    s = norm(stmt)
    m = re.match(r"^throw ([\w:]+)", s)
    if m:
        return "throw " + m.group(1)
    m = re.match(r"^return (\w+)", s)
    if m:
        return "return " + m.group(1)
    raise TE("unrecognised guarded action: " + s[:60])


# ---------------------------------------------------------------- pass A: recursive statement scanner

def scan(body, outer, locals_, guards, pre, tail):
    """appends to guards / pre (statements before the first guard) / tail (statements after the last guard)"""
    i, n = 0, len(body)

    def skip_ws(k):
        while k < n and body[k].isspace():
            k += 1
        return k

    def paren(k):
        d, j = 0, k
        while j < n:
            if body[j] == "(":
                d += 1
            elif body[j] == ")":
                d -= 1
                if d == 0:
                    return body[k + 1:j], j + 1
            j += 1
        raise TE("unbalanced parentheses")

    def block_or_stmt(k):
        k = skip_ws(k)
        if body[k] == "{":
            d, j = 0, k
            while j < n:
                if body[j] == "{":
                    d += 1
                elif body[j] == "}":
                    d -= 1
                    if d == 0:
                        return body[k + 1:j], j + 1
                j += 1
            raise TE("unbalanced braces")
        j = body.index(";", k)
        return body[k:j + 1], j + 1

    while True:
        i = skip_ws(i)
        if i >= n:
            break
        if body.startswith("else", i) and not (body[i + 4].isalnum() or body[i + 4] == "_"):
            i = skip_ws(i + 4)
            if not body.startswith("if", i):
                raise TE("plain else branch")
        if body.startswith("if", i) and not (body[i + 2].isalnum() or body[i + 2] == "_"):
            i = skip_ws(i + 2)
            cond, i = paren(i)
            blk, i = block_or_stmt(i)
            conds = outer + atoms(cond, locals_)
            first = norm(blk.strip().split(";")[0])
            if first.startswith("throw ") or first.startswith("return "):
                guards.append((conds, action_of(first)))
            else:
                scan(blk, conds, dict(locals_), guards, pre, tail)    # nested guards: conditions are conjoined
            continue
        j = body.index(";", i)
        stmt = norm(body[i:j])
        i = j + 1
        m = re.match(r"^const [\w:]+ (\w+)=(.+)$", stmt)
        if m:
            rhs = m.group(2)
            rhs = re.sub(r"^(\w+)_\.load\(std::memory_order_\w+\)$", r"\1()", rhs)    # the atomic behind a getter
            locals_[m.group(1)] = rhs
            continue
        if stmt.startswith("(void)"):
            continue
        (tail if guards else pre).append(stmt)


def pass_a(body):
    guards, pre, tail = [], [], []
    scan(body, [], {}, guards, pre, tail)
    return guards, pre, tail


# ---------------------------------------------------------------- pass B: independent counts on the flattened text

def pass_b(body):
    """what a guard list extracted from this body must account for: number of `if`, of `throw`, of `return`, and of each
    comparison operator inside the `if` conditions"""
    flat = norm(body)
    conds = re.findall(r"if\(((?:[^()]|\((?:[^()]|\([^()]*\))*\))*)\)", flat)
    ops = {}
    for c in conds:
        for a in c.split("&&"):
            m = re.search(r"(<=|>=|==|!=|<|>)", a)
            k = m.group(1) if m else ""
            ops[k] = ops.get(k, 0) + 1
    return {"if": len(conds), "throw": len(re.findall(r"\bthrow\b", flat)), "return": len(re.findall(r"\breturn\b", flat)), "ops": ops}


def counts_of(guards, tail):
    ops = {}
    for conds, act in guards:
        pass
    return ops


def lean_str(s):
    return '"' + s.replace("\\", "\\\\").replace('"', '\\"') + '"'


def emit(name, guards, pre, tail):
    gl = []
    for conds, act in guards:
        cl = ", ".join("(%s, %s, %s)" % (lean_str(a), lean_str(b), lean_str(c)) for a, b, c in conds)
        gl.append("  ([%s], %s)" % (cl, lean_str(act)))
    return ("def %s : List (List (String × String × String) × String) := [\n%s\n]\n\n"
            "/-- statements executed before the first guard (other than initialisations of locals) -/\n"
            "def %s_before : List String := [%s]\n\n"
            "/-- statements executed when no guard fires -/\n"
            "def %s_then : List String := [%s]\n") % (
        name, ",\n".join(gl), name, ", ".join(lean_str(t) for t in pre), name, ", ".join(lean_str(t) for t in tail))


FUNCS = [
    ("checkResizeValidity", r"cuckoo_status\s+check_resize_validity\s*\(\s*const\s+size_type\s+orig_hp\s*,\s*const\s+size_type\s+new_hp\s*\)\s*\{"),
    ("setMinimumLoadFactor", r"void\s+minimum_load_factor\s*\(\s*const\s+double\s+mlf\s*\)\s*\{"),
    ("setMaximumHashpower", r"void\s+maximum_hashpower\s*\(\s*size_type\s+mhp\s*\)\s*\{"),
]


def main():
    if len(sys.argv) != 3:
        print("usage: limits.py <repo> <out.lean>")
        return 2
    try:
        src = drop_hooks(strip_comments(open(sys.argv[1] + "/libcuckoo/cuckoohash_map.hh").read()))
        out = ["-- GENERATED by translate/limits.py from libcuckoo/cuckoohash_map.hh (two text passes that must agree). DO NOT EDIT.",
               "namespace Cuckoo.Gen.Limits", "",
               "/-! each guard: the atoms of its condition `(lhs, operator, rhs)` joined by `&&` (locals initialised once from a call",
               "are replaced by that call; a plain boolean atom has an empty operator), and the guarded action -/", ""]
        for name, sig in FUNCS:
            body = body_of(src, sig)
            ga, pa, ta = pass_a(body)
            cb = pass_b(body)
            # cross-check: the guard list accounts for every `throw`, every conditional and every comparison of the body
            # (nested conditionals are conjoined, so the number of `if` is at least the number of guards)
            n_throw = sum(1 for _, act in ga if act.startswith("throw"))
            n_ret = sum(1 for _, act in ga if act.startswith("return")) + sum(1 for t in ta + pa if t.startswith("return"))
            if n_throw != cb["throw"] or n_ret != cb["return"] or cb["if"] < len(ga):
                raise TE("%s: the two passes disagree: guards %r vs counts %r" % (name, ga, cb))
            distinct = {}
            seen = set()
            for conds, _ in ga:
                for a in conds:
                    if a not in seen:
                        seen.add(a)
                        distinct[a[1]] = distinct.get(a[1], 0) + 1
            if distinct != cb["ops"]:
                raise TE("%s: the two passes disagree on the comparison operators: %r vs %r" % (name, distinct, cb["ops"]))
            out.append(emit(name, ga, pa, ta))
        out.append("end Cuckoo.Gen.Limits")
        open(sys.argv[2], "w").write("\n".join(out) + "\n")
        return 0
    except (TE, ValueError, IndexError, AssertionError) as e:
        print("TRANSLATE-ERROR: %s" % e)
        return 3


if __name__ == "__main__":
    sys.exit(main())
