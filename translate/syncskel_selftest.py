#!/usr/bin/env python3
"""Self-test of T-E (syncskel.py + Cuckoo/Props/C01Sync.lean): seeded source mutations.

For every mutation the header is copied to a scratch tree, mutated, translated, and `lake build Cuckoo.Props.C01Sync`
is run on the regenerated Cuckoo/Gen/Sync.lean.  A *harmful* mutation (breaks a local protocol rule) must make the
translator or the build fail; a *harmless* one (rename, comment, assert, debug macro, reformatting, extra local,
hook lines removed, lock_all from begin()) must pass.

Three groups of cases: the seeded mutations (harmful ones must be caught), further behaviour-preserving refactorings
written here, and every `*.diff` of the harmless-patch directory (applied alone with `git apply`; must pass).

usage: syncskel_selftest.py [repo=/repo] [lean_dir=/tmp/agB2/lean] [scratch=/tmp/agB2/selftest] [harmless_dir=/tmp/harmless_all]
(SELFTEST_ONLY=<substring> restricts the run to the cases whose name contains it.)
The generated file of lean_dir is restored (re-generated from the unmodified repo) at the end.
"""
import os
import re
import shutil
import subprocess
import sys
import time

HERE = os.path.dirname(os.path.abspath(__file__))


def sub1(s, old, new):
    if s.count(old) != 1:
        raise SystemExit("selftest: anchor occurs %d times: %r" % (s.count(old), old[:60]))
    return s.replace(old, new)


def body_of(s, header):
    i = s.index(header)
    j = s.index("{", i)
    d, k = 1, j + 1
    while d:
        d += {"{": 1, "}": -1}.get(s[k], 0)
        k += 1
    return j, k


def in_body(s, header, f):
    j, k = body_of(s, header)
    return s[:j] + f(s[j:k]) + s[k:]


LOCK_TWO = "TwoBuckets lock_two(ResizeCounter resize_counter, size_type i1, size_type i2,"
FAST = "cuckoo_status cuckoo_fast_double(size_type current_hp)"
SIMPLE = "cuckoo_status cuckoo_expand_simple(size_type new_hp)"
BUMP = "    resize_counter_.fetch_add(1, std::memory_order_release);\n"


def m_swap_loads(s):
    return sub1(s, "      const ResizeCounter resize_counter = load_resize_counter();\n      const size_type hp = hashpower();\n",
                "      const size_type hp = hashpower();\n      const ResizeCounter resize_counter = load_resize_counter();\n")


def m_check_after_second(s):
    def f(b):
        b = sub1(b, "    check_resize_counter(resize_counter, locks[l1]);\n", "")
        return sub1(b, "      locks[l2].lock();\n    }\n", "      locks[l2].lock();\n    }\n    check_resize_counter(resize_counter, locks[l1]);\n")
    return in_body(s, LOCK_TWO, f)


def m_drop_rehash_l2(s):
    return in_body(s, LOCK_TWO, lambda b: sub1(b, "    rehash_lock<kIsLazy>(l2);\n", ""))


def m_bump_before_swap(s):
    def f(b):
        b = sub1(b, BUMP, "")
        return sub1(b, "    old_buckets_.swap(buckets_);\n", BUMP + "    old_buckets_.swap(buckets_);\n")
    return in_body(s, FAST, f)


def m_drop_bump_simple(s):
    return in_body(s, SIMPLE, lambda b: sub1(b, BUMP, ""))


def m_unlocker_next(s):
    return sub1(s, "for (auto it = first_locked; it != map->all_locks_.end(); ++it)",
                "for (auto it = std::next(first_locked); it != map->all_locks_.end(); ++it)")


def m_lock_all_begin(s):
    return sub1(s, "const auto first_locked = std::prev(all_locks_.end());", "const auto first_locked = all_locks_.begin();")


def m_lock_all_end(s):
    return sub1(s, "const auto first_locked = std::prev(all_locks_.end());", "const auto first_locked = all_locks_.end();")


def m_emplace_first(s):
    return sub1(s, "    for (spinlock &lock : new_locks) {\n      lock.lock();\n    }\n    all_locks_.emplace_back(std::move(new_locks));\n",
                "    all_locks_.emplace_back(std::move(new_locks));\n    for (spinlock &lock : all_locks_.back()) {\n      lock.lock();\n    }\n")


def m_descending(s):
    return in_body(s, LOCK_TWO, lambda b: sub1(b, "if (l2 < l1) {", "if (l1 < l2) {"))


def m_drop_dup_guard(s):
    return in_body(s, LOCK_TWO, lambda b: sub1(b, "    if (l2 != l1) {\n      locks[l2].lock();\n    }\n", "    locks[l2].lock();\n"))


def m_run_cuckoo_late_load(s):
    def f(b):
        b = sub1(b, "    const ResizeCounter resize_counter = load_resize_counter();\n", "")
        return sub1(b, "    b.unlock();\n", "    b.unlock();\n    const ResizeCounter resize_counter = load_resize_counter();\n")
    return in_body(s, "cuckoo_status run_cuckoo(TwoBuckets &b, size_type &insert_bucket,", f)


def m_check_no_unlock(s):
    return sub1(s, "      lock.unlock();\n      LIBCUCKOO_DBG(\"%s\", \"resize_counter changed\\n\");\n", "      LIBCUCKOO_DBG(\"%s\", \"resize_counter changed\\n\");\n")


def m_dec_before_moves(s):
    s = sub1(s, "    if (IS_LAZY) {\n      decrement_num_remaining_lazy_rehash_locks();\n    }\n", "")
    return sub1(s, "    // Iterate through all buckets in old_buckets that are controlled by this\n",
                "    if (IS_LAZY) {\n      decrement_num_remaining_lazy_rehash_locks();\n    }\n    // Iterate through all buckets in old_buckets that are controlled by this\n")


def m_one_reset(s):
    return sub1(s, "      first_manager_.reset();\n      second_manager_.reset();\n", "      first_manager_.reset();\n")


def m_clear_before_lock(s):
    return sub1(s, "    auto all_locks_manager = lock_all(normal_mode());\n    cuckoo_clear();\n",
                "    cuckoo_clear();\n    auto all_locks_manager = lock_all(normal_mode());\n")


def m_istream_no_bump(s):
    return sub1(s, "      lt.bump_resize_counter();\n", "")


def m_lock_three_network(s):
    return sub1(s, "    if (l[1] < l[0])\n      std::swap(l[1], l[0]);\n", "")


def m_temp_manager(s):
    return in_body(s, SIMPLE, lambda b: sub1(b, "auto all_locks_manager = lock_all(TABLE_MODE());", "lock_all(TABLE_MODE());"))


def m_slot_search_read_before_lock(s):
    return sub1(s, "      auto lock_manager = lock_one(resize_counter, x.bucket, TABLE_MODE());\n      LIBCUCKOO_VERIF_EVENT(EV_BUCKET_ACCESS, &buckets_, x.bucket);\n      bucket &b = buckets_[x.bucket];\n",
                "      bucket &b = buckets_[x.bucket];\n      auto lock_manager = lock_one(resize_counter, x.bucket, TABLE_MODE());\n")


def m_macro_hidden(s):
    s = sub1(s, "namespace libcuckoo {\n", "#define TAKE_STRIPE(x) (x).lock()\nnamespace libcuckoo {\n")
    return in_body(s, LOCK_TWO, lambda b: sub1(b, "      locks[l2].lock();\n", "      TAKE_STRIPE(locks[l2]);\n"))


def m_if0(s):
    return in_body(s, LOCK_TWO, lambda b: sub1(b, "    check_resize_counter(resize_counter, locks[l1]);\n",
                                               "#if 0\n    check_resize_counter(resize_counter, locks[l1]);\n#endif\n"))


def m_splice_comment(s):
    return in_body(s, LOCK_TWO, lambda b: sub1(b, "    check_resize_counter(resize_counter, locks[l1]);\n",
                                               "    // validate now \\\n    check_resize_counter(resize_counter, locks[l1]);\n"))


def m_rename_function(s):
    return sub1(s, LOCK_TWO, LOCK_TWO.replace("lock_two(", "lock_pair("))


# ---- harmless --------------------------------------------------------------------------------------------------

def m_rename(s):
    s = in_body(s, LOCK_TWO, lambda b: re.sub(r"\bl2\b", "second_stripe", re.sub(r"\bl1\b", "first_stripe", re.sub(r"\blocks\b", "cur", b))))
    j, k = body_of(s, "TwoBuckets snapshot_and_lock_two(const hash_value &hv) const")
    return s[:j] + re.sub(r"\bhp\b", "power", re.sub(r"\bresize_counter\b", "rc", s[j:k])) + s[k:]


def m_comment_assert(s):
    def f(b):
        b = sub1(b, "    locks_t &locks = get_current_locks();\n",
                 "    // take lock() then unlock(); check_resize_counter(later) \"quoted\"\n    assert(l1 <= l2 && \"sorted; locks[l2].lock()\");\n"
                 "    LIBCUCKOO_DBG(\"locking %zu %zu; lock_all()\\n\", l1, l2);\n    /* locks[l2].lock(); */\n    locks_t &locks = get_current_locks();\n")
        return b
    return in_body(s, LOCK_TWO, f)


def m_reformat(s):
    def f(b):
        b = sub1(b, "    locks[l1].lock();\n", "    locks[ l1 ]\n        .lock( );\n")
        b = sub1(b, "    check_resize_counter(resize_counter, locks[l1]);\n", "    check_resize_counter(resize_counter,\n\n                         locks[l1]) ;\n")
        return sub1(b, "    if (l2 < l1) {\n      std::swap(l1, l2);\n    }\n", "    if (l2<l1) { std::swap(l1,l2); }\n")
    return in_body(s, LOCK_TWO, f)


def m_extra_local(s):
    return in_body(s, FAST, lambda b: sub1(b, "    const size_type new_hp = current_hp + 1;\n",
                                           "    const size_type new_hp = current_hp + 1;\n    const size_type dbg_unused = new_hp * 2;\n    (void)dbg_unused;\n"))


def m_no_hooks(s):
    s = re.sub(r"[ \t]*LIBCUCKOO_VERIF_EVENT\([^;]*?\);\n", "", s, flags=re.S)
    return re.sub(r"#if[^\n]*LIBCUCKOO_VERIF[^\n]*\n.*?#else\n(.*?)#endif\n", r"\1", s, flags=re.S)


# ---- further harmful mutations aimed at the semantic (execution-based) checks ------------------------------------

def m_unlocker_stops_early(s):
    return sub1(s, "for (auto it = first_locked; it != map->all_locks_.end(); ++it)",
                "for (auto it = first_locked; it != std::prev(map->all_locks_.end()); ++it)")


def m_born_partly_locked(s):
    return sub1(s, "    for (spinlock &lock : new_locks) {\n      lock.lock();\n    }\n",
                "    for (size_t i = 1; i < new_locks.size(); ++i) {\n      new_locks[i].lock();\n    }\n")


def m_validate_other_lock(s):
    return in_body(s, LOCK_TWO, lambda b: sub1(b, "check_resize_counter(resize_counter, locks[l1]);", "check_resize_counter(resize_counter, locks[l2]);"))


def m_path_move_unlock_on_success(s):
    return sub1(s, "        return true;\n      } else {\n        b.unlock();\n        return false;\n      }\n",
                "        b.unlock();\n        return true;\n      } else {\n        return false;\n      }\n")


def m_lock_two_max_first(s):
    def f(b):
        b = sub1(b, "    if (l2 < l1) {\n      std::swap(l1, l2);\n    }\n", "")
        b = sub1(b, "size_type l1 = lock_ind(i1);", "const size_type l1 = std::max(lock_ind(i1), lock_ind(i2));")
        return sub1(b, "size_type l2 = lock_ind(i2);", "const size_type l2 = std::min(lock_ind(i1), lock_ind(i2));")
    return in_body(s, LOCK_TWO, f)


def m_fast_double_return_without_bump(s):
    return in_body(s, FAST, lambda b: sub1(b, "      num_remaining_lazy_rehash_locks(0);\n    } else {\n",
                                           "      num_remaining_lazy_rehash_locks(0);\n      return ok;\n    } else {\n"))


MORE_HARMFUL = [
    ("AllUnlocker stops one array early", True, m_unlocker_stops_early),
    ("maybe_resize_locks: the first new lock is not taken", True, m_born_partly_locked),
    ("lock_two: validates the other lock", True, m_validate_other_lock),
    ("cuckoopath_move: unlock on the success path, not on failure", True, m_path_move_unlock_on_success),
    ("lock_two: ordered by max/min the wrong way round", True, m_lock_two_max_first),
    ("fast_double: one branch returns ok without the bump", True, m_fast_double_return_without_bump),
]

# ---- further behaviour-preserving refactorings (own) --------------------------------------------------------------

def r_lock_two_bool_guard(s):
    return in_body(s, LOCK_TWO, lambda b: sub1(b, "    if (l2 != l1) {\n      locks[l2].lock();\n    }\n",
                                               "    const bool distinct_stripes = !(l1 == l2);\n    if (distinct_stripes) {\n      locks[l2].lock();\n    }\n"))


def r_snapshot_for_ever(s):
    j, k = body_of(s, "TwoBuckets snapshot_and_lock_two(const hash_value &hv) const")
    return s[:j] + sub1(s[j:k], "while (true) {", "for (;;) {") + s[k:]


def r_check_named_load(s):
    return sub1(s, "    if (load_resize_counter() != resize_counter) {\n",
                "    const ResizeCounter now = load_resize_counter();\n    const bool unchanged = now == resize_counter;\n    if (!unchanged) {\n")


def r_unlocker_index_loop(s):
    return sub1(s, "        for (spinlock &lock : locks) {\n          lock.unlock();\n        }\n",
                "        for (size_t i = 0; i < locks.size(); ++i) {\n          locks[i].unlock();\n        }\n")


def r_rehash_nested_if(s):
    j, k = body_of(s, "template <bool IS_LAZY> void rehash_lock(size_t l) const noexcept")
    b = s[j:k]
    b = sub1(b, "    if (lock.is_migrated())\n      return;\n", "    if (!lock.is_migrated()) {\n")
    b = b[:b.rindex("}")] + "}\n  }"
    return s[:j] + b + s[k:]


def r_run_cuckoo_loads_swapped(s):
    def f(b):
        b = sub1(b, "    const size_type hp = hashpower();\n", "")
        return sub1(b, "    const ResizeCounter resize_counter = load_resize_counter();\n",
                    "    const ResizeCounter resize_counter = load_resize_counter();\n    const size_type hp = hashpower();\n")
    return in_body(s, "cuckoo_status run_cuckoo(TwoBuckets &b, size_type &insert_bucket,", f)


def r_maybe_resize_iterator_loop(s):
    return sub1(s, "    for (spinlock &lock : new_locks) {\n      lock.lock();\n    }\n",
                "    for (auto it = new_locks.begin(); it != new_locks.end(); ++it) {\n      it->lock();\n    }\n")


def r_fast_double_nested(s):
    def f(b):
        b = sub1(b, "    if (st != ok) {\n      return st;\n    }\n", "    if (st == ok) {\n")
        return sub1(b, "    resize_counter_.fetch_add(1, std::memory_order_release);\n\n    return ok;\n",
                    "    resize_counter_.fetch_add(1, std::memory_order_release);\n    }\n    return st;\n")
    return in_body(s, FAST, f)


def r_lock_one_no_ref(s):
    j, k = body_of(s, "LockManager lock_one(ResizeCounter resize_counter, size_type i,")
    b = s[j:k]
    b = sub1(b, "    spinlock &lock = locks[l];\n    lock.lock();\n    check_resize_counter(resize_counter, lock);\n",
             "    locks[l].lock();\n    check_resize_counter(resize_counter, locks[l]);\n")
    b = sub1(b, "return LockManager(&lock);", "return LockManager(&locks[l]);")
    return s[:j] + b + s[k:]


OWN_REFACTORINGS = [
    ("lock_two: duplicate guard through a const bool", False, r_lock_two_bool_guard),
    ("snapshot_and_lock_two: for (;;) instead of while (true)", False, r_snapshot_for_ever),
    ("check_resize_counter: named load + negated bool", False, r_check_named_load),
    ("AllUnlocker: index loop over the array", False, r_unlocker_index_loop),
    ("rehash_lock: nested if instead of early return", False, r_rehash_nested_if),
    ("run_cuckoo: the two loads in the other order (validated hold)", False, r_run_cuckoo_loads_swapped),
    ("maybe_resize_locks: iterator loop", False, r_maybe_resize_iterator_loop),
    ("fast_double: nested if (st == ok) { ... } return st", False, r_fast_double_nested),
    ("lock_one: no reference local", False, r_lock_one_no_ref),
]

MUTATIONS = [
    # (name, harmful?, function)
    ("baseline (unmodified source)", False, lambda s: s),
    ("swap the two loads in snapshot_and_lock_two", True, m_swap_loads),
    ("lock_two: check_resize_counter after the second lock", True, m_check_after_second),
    ("lock_two: remove rehash_lock(l2)", True, m_drop_rehash_l2),
    ("lock_two: descending order (if (l1 < l2) swap)", True, m_descending),
    ("lock_two: drop the l2 != l1 guard", True, m_drop_dup_guard),
    ("lock_three: drop the last compare-exchange", True, m_lock_three_network),
    ("fast_double: fetch_add before the swap", True, m_bump_before_swap),
    ("expand_simple: drop fetch_add", True, m_drop_bump_simple),
    ("expand_simple: lock_all result not kept", True, m_temp_manager),
    ("AllUnlocker from std::next(first_locked)", True, m_unlocker_next),
    ("lock_all from all_locks_.end()", True, m_lock_all_end),
    ("maybe_resize_locks: emplace_back before locking", True, m_emplace_first),
    ("run_cuckoo: counter loaded after b.unlock()", True, m_run_cuckoo_late_load),
    ("check_resize_counter: throw without unlock", True, m_check_no_unlock),
    ("rehash_lock: decrement before the bucket moves", True, m_dec_before_moves),
    ("TwoBuckets::unlock resets one manager only", True, m_one_reset),
    ("clear: cuckoo_clear before lock_all", True, m_clear_before_lock),
    ("operator>>: drop bump_resize_counter", True, m_istream_no_bump),
    ("slot_search: bucket read before lock_one", True, m_slot_search_read_before_lock),
    ("lock_two: second lock hidden behind a macro (passes must disagree)", True, m_macro_hidden),
    ("lock_two: validation inside #if 0 (passes must disagree)", True, m_if0),
    ("lock_two: validation swallowed by a spliced // comment", True, m_splice_comment),
    ("lock_two(normal_mode) renamed (function cannot be located)", True, m_rename_function),
    ("lock_all from all_locks_.begin() (more locks, same order: harmless)", False, m_lock_all_begin),
    ("rename locals (lock_two, snapshot_and_lock_two)", False, m_rename),
    ("add comments, an assert and a debug macro (lock_two)", False, m_comment_assert),
    ("reformat lines (lock_two)", False, m_reformat),
    ("extra unrelated local (fast_double)", False, m_extra_local),
    ("all LIBCUCKOO_VERIF hook lines / blocks removed", False, m_no_hooks),
]


def prepare_tree(repo, tree):
    shutil.rmtree(tree, ignore_errors=True)
    os.makedirs(tree)
    for d in ("libcuckoo", "libcuckoo-c"):
        if os.path.isdir(os.path.join(repo, d)):
            shutil.copytree(os.path.join(repo, d), os.path.join(tree, d))


def main():
    repo = sys.argv[1] if len(sys.argv) > 1 else "/repo"
    lean = sys.argv[2] if len(sys.argv) > 2 else "/tmp/agB2/lean"
    scratch = sys.argv[3] if len(sys.argv) > 3 else "/tmp/agB2/selftest"
    hdir = sys.argv[4] if len(sys.argv) > 4 else "/tmp/harmless_all"
    only = os.environ.get("SELFTEST_ONLY")          # substring filter, for quick runs
    gen = os.path.join(lean, "Cuckoo", "Gen", "Sync.lean")
    src = open(os.path.join(repo, "libcuckoo", "cuckoohash_map.hh")).read()
    cases = []                                        # (name, harmful?, how to fill the tree)
    for name, harmful, f in MUTATIONS + MORE_HARMFUL + OWN_REFACTORINGS:
        def fill(tree, f=f):
            with open(os.path.join(tree, "libcuckoo", "cuckoohash_map.hh"), "w") as fh:
                fh.write(f(src))
        cases.append((name, harmful, fill))
    if os.path.isdir(hdir):
        for d in sorted(x for x in os.listdir(hdir) if x.endswith(".diff")):
            def fill(tree, d=d):
                q = subprocess.run(["git", "apply", os.path.join(hdir, d)], cwd=tree, stdout=subprocess.PIPE,
                                   stderr=subprocess.STDOUT, universal_newlines=True)
                if q.returncode != 0:
                    raise SystemExit("selftest: %s does not apply: %s" % (d, q.stdout.strip()[:200]))
            desc = ""
            txt = os.path.join(hdir, d[:-5] + ".txt")
            if os.path.exists(txt):
                desc = open(txt).read().strip().split("\n")[0][:60]
            cases.append(("patch %s: %s" % (d[:-5], desc), False, fill))
    rows = []
    bad = 0
    try:
        for n, (name, harmful, fill) in enumerate(cases):
            if only and only not in name:
                continue
            tree = os.path.join(scratch, "m%02d" % n)
            prepare_tree(repo, tree)
            fill(tree)
            t0 = time.time()
            p = subprocess.run([sys.executable, os.path.join(HERE, "syncskel.py"), tree, gen, os.path.join(tree, "scratch")],
                               stdout=subprocess.PIPE, stderr=subprocess.STDOUT, universal_newlines=True)
            t1 = time.time()
            if p.returncode != 0:
                outcome, why = "translator-fail", p.stdout.strip().splitlines()[-1][:150]
            else:
                q = subprocess.run(["lake", "build", "Cuckoo.Props.C01Sync"], cwd=lean, stdout=subprocess.PIPE,
                                   stderr=subprocess.STDOUT, universal_newlines=True)
                if q.returncode == 0:
                    outcome, why = "pass", ""
                else:
                    outcome = "build-fail"
                    failed = []
                    lines = open(os.path.join(lean, "Cuckoo", "Props", "C01Sync.lean")).read().split("\n")
                    for m in re.finditer(r"C01Sync\.lean:(\d+):\d+: (?:Tactic `decide` (?:proved|failed))", q.stdout):
                        ln = int(m.group(1))
                        k = ln - 1
                        while k >= 0 and not re.match(r"(theorem|example)\b", lines[k]):
                            k -= 1
                        mm = re.match(r"theorem\s+(\w+)", lines[k]) if k >= 0 else None
                        failed.append(mm.group(1) if mm else "line %d" % ln)
                    why = ", ".join(dict.fromkeys(failed)) or q.stdout.strip().splitlines()[-1][:150]
            ok = (outcome != "pass") == harmful
            bad += 0 if ok else 1
            rows.append((name[:84], "harmful" if harmful else "harmless", outcome, "OK" if ok else "UNEXPECTED", "%.1fs" % (t1 - t0), why))
            print("%-84s %-8s %-15s %-10s %s  %s" % rows[-1], flush=True)
    finally:
        subprocess.run([sys.executable, os.path.join(HERE, "syncskel.py"), repo, gen, scratch], stdout=subprocess.PIPE)
        subprocess.run(["lake", "build", "Cuckoo.Props.C01Sync"], cwd=lean, stdout=subprocess.PIPE, stderr=subprocess.STDOUT)
    print("%d cases, %d unexpected outcomes" % (len(rows), bad))
    sys.exit(1 if bad else 0)


if __name__ == "__main__":
    main()
